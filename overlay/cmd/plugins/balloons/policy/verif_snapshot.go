//go:build verif

// Read-only snapshot accessors for the verification harness (build tag "verif").
package balloons

import (
	"fmt"
	"sort"

	"github.com/containers/nri-plugins/pkg/utils"

	libmem "github.com/containers/nri-plugins/pkg/resmgr/lib/memory"
	policyapi "github.com/containers/nri-plugins/pkg/resmgr/policy"
)

type VerifBalloon struct {
	Def            string
	Instance       int
	Cpus           []int
	SharedIdleCpus []int
	Mems           []int
	Pods           map[string][]string
	// definition limits (effective, after defaults were filled in)
	MinCpus, MaxCpus, MinBalloons, MaxBalloons int
	CpuClass                                   string
	ShareIdleCpusInSame                        string
	HideHyperthreads                           *bool
	PinMemory                                  *bool
	MemoryTypes                                []string
	RequestedMilliCpus                         int
}

type VerifDef struct {
	Name                                       string
	MinCpus, MaxCpus, MinBalloons, MaxBalloons int
	CpuClass                                   string
	Namespaces                                 []string
	ShareIdleCpusInSame                        string
}

type VerifSnap struct {
	Balloons     []VerifBalloon
	Defs         []VerifDef
	Allowed      []int
	Reserved     []int
	FreeCpus     []int
	IdleCpuClass string
	PinCPU       *bool
	PinMemory    *bool
}

func VerifAllocator(b policyapi.Backend) *libmem.Allocator {
	p, ok := b.(*balloons)
	if !ok {
		return nil
	}
	return p.memAllocator
}

func VerifSnapshot(b policyapi.Backend) *VerifSnap {
	p, ok := b.(*balloons)
	if !ok || p.bpoptions == nil {
		return nil
	}
	s := &VerifSnap{
		Allowed:      p.allowed.List(),
		Reserved:     p.reserved.List(),
		FreeCpus:     p.freeCpus.List(),
		IdleCpuClass: p.bpoptions.IdleCpuClass,
		PinCPU:       p.bpoptions.PinCPU,
		PinMemory:    p.bpoptions.PinMemory,
	}
	for _, d := range p.bpoptions.BalloonDefs {
		s.Defs = append(s.Defs, VerifDef{
			Name: d.Name, MinCpus: d.MinCpus, MaxCpus: d.MaxCpus,
			MinBalloons: d.MinBalloons, MaxBalloons: d.MaxBalloons, CpuClass: d.CpuClass,
			Namespaces: append([]string(nil), d.Namespaces...), ShareIdleCpusInSame: string(d.ShareIdleCpusInSame),
		})
	}
	for _, bln := range p.balloons {
		vb := VerifBalloon{
			Def:                 bln.Def.Name,
			Instance:            bln.Instance,
			Cpus:                bln.Cpus.List(),
			SharedIdleCpus:      bln.SharedIdleCpus.List(),
			Mems:                bln.Mems.SortedMembers(),
			Pods:                map[string][]string{},
			MinCpus:             bln.Def.MinCpus,
			MaxCpus:             bln.Def.MaxCpus,
			MinBalloons:         bln.Def.MinBalloons,
			MaxBalloons:         bln.Def.MaxBalloons,
			CpuClass:            bln.Def.CpuClass,
			ShareIdleCpusInSame: string(bln.Def.ShareIdleCpusInSame),
			HideHyperthreads:    bln.Def.HideHyperthreads,
			PinMemory:           bln.Def.PinMemory,
			MemoryTypes:         append([]string(nil), bln.Def.MemoryTypes...),
			RequestedMilliCpus:  p.requestedMilliCpus(bln),
		}
		for pod, ctrs := range bln.PodIDs {
			c := append([]string(nil), ctrs...)
			sort.Strings(c)
			vb.Pods[pod] = c
		}
		s.Balloons = append(s.Balloons, vb)
	}
	return s
}

// VerifHidden renders state that influences later decisions but is not part of the assignments.
func VerifHidden(b policyapi.Backend) string {
	p, ok := b.(*balloons)
	if !ok || p.bpoptions == nil {
		return ""
	}
	var lv []string
	for k, v := range p.loadVirtDev {
		lv = append(lv, fmt.Sprintf("%s=%+v", k, *v))
	}
	sort.Strings(lv)
	rd, dd := "", ""
	if p.reservedBalloonDef != nil {
		rd = p.reservedBalloonDef.Name
	}
	if p.defaultBalloonDef != nil {
		dd = p.defaultBalloonDef.Name
	}
	// (the set of idle CPUs is part of the assignments snapshot, not of this: it changes whenever balloons move)
	return fmt.Sprintf("options=%s loads=%v reservedDef=%s defaultDef=%s allowed=%s reserved=%s", utils.DumpJSON(p.bpoptions), lv, rd, dd, p.allowed, p.reserved)
}
