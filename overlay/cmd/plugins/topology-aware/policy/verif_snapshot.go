//go:build verif

// Read-only snapshot accessors for the verification harness (build tag "verif").
package topologyaware

import (
	"fmt"
	"sort"

	libmem "github.com/containers/nri-plugins/pkg/resmgr/lib/memory"
	policyapi "github.com/containers/nri-plugins/pkg/resmgr/policy"
)

type VerifPool struct {
	Name, Parent, Kind string
	Depth              int
	ID                 int
	// full supply
	Isolated, Reserved, Sharable []int
	// free supply
	FreeIsolated, FreeReserved, FreeSharable []int
	GrantedShared, GrantedReserved           int // local amounts in the free supply
	SubtreeShared, SubtreeReserved           int // node.GrantedSharedCPU() / GrantedReservedCPU()
	AllocatableShared                        int
	DRAM, PMEM, HBM                          []int
}

type VerifGrant struct {
	Container   string
	PrettyName  string
	Pool        string
	Exclusive   []int
	Isolated    []int
	CPUType     string
	Portion     int
	MemType     string
	MemZone     []int
	MemSize     int64
	ColdStart   int64
}

type VerifSnap struct {
	Pools    []VerifPool
	Grants   []VerifGrant
	Allowed  []int
	Reserved []int
	Isolated []int
	Root     string
}

// VerifAllocator returns the policy's memory allocator for read-only queries.
func VerifAllocator(b policyapi.Backend) *libmem.Allocator {
	p, ok := b.(*policy)
	if !ok {
		return nil
	}
	return p.memAllocator
}

// VerifSnapshot returns a plain-data copy of the policy state.
func VerifSnapshot(b policyapi.Backend) *VerifSnap {
	p, ok := b.(*policy)
	if !ok || p.root == nil {
		return nil
	}
	s := &VerifSnap{
		Allowed:  p.allowed.List(),
		Reserved: p.reserved.List(),
		Isolated: p.isolated.List(),
		Root:     p.root.Name(),
	}
	for _, n := range p.pools {
		full := n.GetSupply()
		free := n.FreeSupply()
		vp := VerifPool{
			Name:              n.Name(),
			Kind:              string(n.Kind()),
			Depth:             n.RootDistance(),
			ID:                n.NodeID(),
			Isolated:          full.IsolatedCPUs().List(),
			Reserved:          full.ReservedCPUs().List(),
			Sharable:          full.SharableCPUs().List(),
			FreeIsolated:      free.IsolatedCPUs().List(),
			FreeReserved:      free.ReservedCPUs().List(),
			FreeSharable:      free.SharableCPUs().List(),
			GrantedShared:     free.GrantedShared(),
			GrantedReserved:   free.GrantedReserved(),
			SubtreeShared:     n.GrantedSharedCPU(),
			SubtreeReserved:   n.GrantedReservedCPU(),
			AllocatableShared: free.AllocatableSharedCPU(true),
			DRAM:              n.GetMemset(memoryDRAM).SortedMembers(),
			PMEM:              n.GetMemset(memoryPMEM).SortedMembers(),
			HBM:               n.GetMemset(memoryHBM).SortedMembers(),
		}
		if !n.IsRootNode() {
			vp.Parent = n.Parent().Name()
		}
		s.Pools = append(s.Pools, vp)
	}
	for id, g := range p.allocations.grants {
		vg := VerifGrant{
			Container:  id,
			PrettyName: g.GetContainer().PrettyName(),
			Pool:       g.GetCPUNode().Name(),
			Exclusive:  g.ExclusiveCPUs().List(),
			Isolated:   g.IsolatedCPUs().List(),
			CPUType:    g.CPUType().String(),
			Portion:    g.CPUPortion(),
			MemType:    g.MemoryType().String(),
			MemZone:    g.GetMemoryZone().Slice(),
			MemSize:    g.GetMemorySize(),
			ColdStart:  int64(g.ColdStart()),
		}
		s.Grants = append(s.Grants, vg)
	}
	sort.Slice(s.Grants, func(i, j int) bool { return s.Grants[i].Container < s.Grants[j].Container })
	return s
}

// VerifHidden renders state that influences later decisions but is not part of the
// assignments: the package-level option pointer, default priority, cold-start switch and the
// configuration the policy believes it runs with.
func VerifHidden(b policyapi.Backend) string {
	p, ok := b.(*policy)
	if !ok {
		return ""
	}
	return fmt.Sprintf("opt=%+v cfg=%+v defaultPrio=%v coldStartOff=%v reserveCnt=%d depth=%d nodeCnt=%d", *opt, *p.cfg, defaultPrio, coldStartOff, p.reserveCnt, p.depth, p.nodeCnt)
}

// VerifResetGlobals resets package-level state that survives an instance.
func VerifResetGlobals() {
	coldStartOff = false
	defaultPrio = nonePrio
}

// VerifColdStartOff tells whether cold start has been forced off.
func VerifColdStartOff() bool { return coldStartOff }
