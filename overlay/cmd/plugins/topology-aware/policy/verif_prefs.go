//go:build verif

// Read-only accessor to the per-container preference functions of the topology-aware policy
// (build tag "verif"). Used by the C18 driver: every one of these reads its setting through
// Pod/Container.GetEffectiveAnnotation; the accessor only calls them and copies the results.
package topologyaware

import (
	"github.com/containers/nri-plugins/pkg/resmgr/cache"
)

// VerifPrefs is what the policy's preference helpers say about one container.
type VerifPrefs struct {
	Isolated          bool
	IsolatedAnnotated bool
	Shared            bool
	SharedAnnotated   bool
	CPUPrio           string // CPU priority name, evaluated with fallback "none"
	HideHT            bool
	MemType           int  // raw memoryType bit mask
	MemPreserve       bool // memoryType == memoryPreserve
	ColdStartNs       int64
	ColdStartErr      string
	Reserved          bool
	ReservedExplicit  bool
}

// VerifPreferences evaluates the annotation-driven preference helpers for a container.
func VerifPreferences(pod cache.Pod, c cache.Container) VerifPrefs {
	var r VerifPrefs
	var k prefKind
	r.Isolated, k = isolatedCPUsPreference(pod, c)
	r.IsolatedAnnotated = k == prefAnnotated
	r.Shared, k = sharedCPUsPreference(pod, c)
	r.SharedAnnotated = k == prefAnnotated
	r.CPUPrio = cpuPrioPreference(pod, c, nonePrio).String()
	r.HideHT = hideHyperthreadsPreference(pod, c)
	mt := memoryTypePreference(pod, c)
	r.MemType = int(mt)
	r.MemPreserve = mt == memoryPreserve
	cs, err := coldStartPreference(pod, c)
	r.ColdStartNs = int64(cs.Duration.Duration)
	if err != nil {
		r.ColdStartErr = err.Error()
	}
	r.Reserved, r.ReservedExplicit = checkReservedCPUsAnnotations(c)
	return r
}
