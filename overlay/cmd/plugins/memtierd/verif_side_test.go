//go:build verif

// Side-engine driver (properties C14 and C18) for the memtierd NRI plugin, injected into the
// plugin's package main with `go test -tags verif -vet=off -overlay ...`. See the comment of the
// COMMON PART for the interface.
package main

import (
	"context"
	"encoding/base64"
	"encoding/json"
	"fmt"
	"io"
	"os"
	"path/filepath"
	"runtime/debug"
	"sort"
	"strconv"
	"strings"
	"syscall"
	"testing"
	"time"
	"unicode/utf8"

	"github.com/containerd/nri/pkg/api"
	"github.com/containerd/nri/pkg/stub"
	"github.com/sirupsen/logrus"
)

// =====================================================================================
// COMMON PART - identical in the three side drivers (memory-qos, memtierd, sgx-epc).
// A package-main test file cannot import the harness module, so the few helpers of
// /verif/harness/libdrv/common.go and /verif/harness/sysgen/sysgen.go that are needed
// are copied here (prefix vs = "verif side").
//
// Interface (environment): VERIF_PROP (C14|C18), VERIF_SEED (1), VERIF_SHARD (0), VERIF_N (2000),
// VERIF_OUT (result JSON, stdout if empty), VERIF_WORK (scratch dir), VERIF_REPLAY (witness).
//
// Meaning of N:  C14: number of event sequences ("cases"); a case is 1..8 handler calls on one
//                plugin instance, each followed (if refused or panicked) by a differential canary
//                against a fresh instance, and one absolute canary at the end of the case.
//                C18: number of annotation maps; each is evaluated 16 times (map rebuilt in a
//                shuffled insertion order every time; Go randomises each range loop) and once on
//                the map reduced to the effective annotations.
// Distinct non-trivial rule (Out.Seen):
//   C14: hash of the abstract shape of a case: per step (handler, input-class tags of the
//        configuration / annotation values / pod / container, depth of present sub-messages);
//        every generated case contains at least one hostile element.
//   C18: hash of (name-relation class, per base key: which forms are present for the target and
//        how many for other containers, look-alike count, class kind, outcome class); only maps
//        in which the target has >=2 forms for some key, or an annotation addressed to another
//        container / a look-alike key is present, are counted.
//
// Use a separate VERIF_WORK (and VERIF_OUT) per plugin and per job: current-case.json, current-step.txt
// and (for memtierd) the run/cgroup/bin directories live directly below it.
//
// Process-fatal errors (os.Exit, runtime "fatal error": stack overflow, concurrent map access,
// OOM) cannot be recovered in-process (a Fatal of the plugin's logrus logger is turned into a panic
// through logrus' ExitFunc and reported like any other panic). Before a case is executed it is written to
// $VERIF_WORK/current-case.json (witness format, usable as VERIF_REPLAY) and before every handler
// call one line is appended to $VERIF_WORK/current-step.txt. $VERIF_OUT is written with
// "done": false at start-up and rewritten with "done": true only at the very end. Symptom seen
// by the parent: non-zero exit status of the test binary, done=false in VERIF_OUT, the Go
// runtime's message on stderr; current-case.json + last line of current-step.txt name the call.
// =====================================================================================

// ---- deterministic RNG: copy of sysgen.RNG (splitmix64)

type vsRNG struct{ s uint64 }

func vsNewRNG(seed uint64) *vsRNG { return &vsRNG{s: seed*0x9E3779B97F4A7C15 + 0x1234567} }

func (r *vsRNG) Uint64() uint64 {
	r.s += 0x9E3779B97F4A7C15
	z := r.s
	z = (z ^ (z >> 30)) * 0xBF58476D1CE4E5B9
	z = (z ^ (z >> 27)) * 0x94D049BB133111EB
	return z ^ (z >> 31)
}

func (r *vsRNG) Intn(n int) int {
	if n <= 0 {
		return 0
	}
	return int(r.Uint64() % uint64(n))
}
func (r *vsRNG) Range(lo, hi int) int     { return lo + r.Intn(hi-lo+1) }
func (r *vsRNG) Chance(num, den int) bool { return r.Intn(den) < num }
func (r *vsRNG) Fork() *vsRNG             { return vsNewRNG(r.Uint64()) }
func vsPick[T any](r *vsRNG, xs []T) T    { return xs[r.Intn(len(xs))] }
func vsShuffle[T any](r *vsRNG, xs []T) {
	for i := len(xs) - 1; i > 0; i-- {
		j := r.Intn(i + 1)
		xs[i], xs[j] = xs[j], xs[i]
	}
}

// ---- result file: same JSON shape as libdrv.Out

type vsViolation struct {
	Prop    string          `json:"prop"`
	Check   string          `json:"check"`
	Sig     string          `json:"sig"`
	Msg     string          `json:"msg"`
	Witness string          `json:"witness"`
	Case    json.RawMessage `json:"case,omitempty"`
}

type vsOut struct {
	Prop        string            `json:"prop"`
	Seed        uint64            `json:"seed"`
	Shard       int               `json:"shard"`
	N           int               `json:"n"`
	Tier        string            `json:"tier"`
	Done        bool              `json:"done"`
	Evaluations int               `json:"evaluations"`
	Stats       map[string]int    `json:"stats"`
	Seen        []string          `json:"seen"`
	Distinct    int               `json:"distinct"`
	Exhaustive  bool              `json:"exhaustive,omitempty"`
	Violations  []vsViolation     `json:"violations"`
	Samples     []json.RawMessage `json:"samples"`
}

type vsCtx struct {
	Prop    string
	Seed    uint64
	Shard   int
	N       int
	Work    string
	OutPath string
	Replay  string
	RNG     *vsRNG
	Out     *vsOut
	seen    map[string]struct{}
	vkeys   map[string]int
	stepLog *os.File
	quiet   bool  // true while shrinking: nothing is counted
	harness error // first harness error (fails the test)
	origEnv string
}

func vsHashStr(s string) uint64 {
	var h uint64 = 1469598103934665603
	for i := 0; i < len(s); i++ {
		h ^= uint64(s[i])
		h *= 1099511628211
	}
	return h
}

func vsEnvInt(name string, def int) (int, error) {
	v := os.Getenv(name)
	if v == "" {
		return def, nil
	}
	n, err := strconv.Atoi(v)
	if err != nil {
		return 0, fmt.Errorf("%s=%q: %v", name, v, err)
	}
	return n, nil
}

func vsSetup() (*vsCtx, error) {
	c := &vsCtx{Prop: os.Getenv("VERIF_PROP"), Work: os.Getenv("VERIF_WORK"), OutPath: os.Getenv("VERIF_OUT"),
		Replay: os.Getenv("VERIF_REPLAY"), seen: map[string]struct{}{}, vkeys: map[string]int{}}
	seed, err := vsEnvInt("VERIF_SEED", 1)
	if err != nil {
		return nil, err
	}
	c.Seed = uint64(seed)
	if c.Shard, err = vsEnvInt("VERIF_SHARD", 0); err != nil {
		return nil, err
	}
	if c.N, err = vsEnvInt("VERIF_N", 2000); err != nil {
		return nil, err
	}
	if c.Work == "" {
		if c.Work, err = os.MkdirTemp("", "verif-side-"+vsPlugin+"-"); err != nil {
			return nil, err
		}
	}
	if c.Work, err = filepath.Abs(c.Work); err != nil {
		return nil, err
	}
	if err = os.MkdirAll(c.Work, 0o755); err != nil {
		return nil, err
	}
	c.RNG = vsNewRNG(c.Seed*1000003 + uint64(c.Shard)*7919 + vsHashStr(c.Prop) + vsHashStr(vsPlugin))
	c.Out = &vsOut{Prop: c.Prop, Seed: c.Seed, Shard: c.Shard, N: c.N, Tier: os.Getenv("VERIF_TIER"), Stats: map[string]int{},
		Seen: []string{}, Violations: []vsViolation{}, Samples: []json.RawMessage{}}
	if c.stepLog, err = os.OpenFile(filepath.Join(c.Work, "current-step.txt"), os.O_CREATE|os.O_TRUNC|os.O_WRONLY, 0o644); err != nil {
		return nil, err
	}
	if err = c.writeOut(false); err != nil {
		return nil, err
	}
	return c, nil
}

func (c *vsCtx) writeOut(done bool) error {
	c.Out.Done = done
	if done {
		c.Out.Seen = c.Out.Seen[:0]
		for h := range c.seen {
			c.Out.Seen = append(c.Out.Seen, h)
		}
		sort.Strings(c.Out.Seen)
		c.Out.Distinct = len(c.Out.Seen)
		if len(c.Out.Seen) > 20000 {
			c.Out.Seen = c.Out.Seen[:20000]
		}
	}
	b, err := json.MarshalIndent(c.Out, "", " ")
	if err != nil {
		return err
	}
	if c.OutPath == "" {
		if done {
			fmt.Printf("%s\n", b)
		}
		return nil
	}
	tmp := c.OutPath + ".tmp"
	if err := os.WriteFile(tmp, b, 0o644); err != nil {
		return err
	}
	return os.Rename(tmp, c.OutPath)
}

func (c *vsCtx) Count(key string) {
	if !c.quiet {
		c.Out.Stats[key]++
	}
}
func (c *vsCtx) Add(key string, n int) {
	if !c.quiet {
		c.Out.Stats[key] += n
	}
}
func (c *vsCtx) Eval() {
	if !c.quiet {
		c.Out.Evaluations++
	}
}
func (c *vsCtx) See(h string) {
	if !c.quiet {
		c.seen[fmt.Sprintf("%016x", vsHashStr(h))] = struct{}{}
	}
}
func (c *vsCtx) Sample(v interface{}) {
	if c.quiet || len(c.Out.Samples) >= 3 {
		return
	}
	if b, err := json.Marshal(v); err == nil && len(b) < 8192 {
		c.Out.Samples = append(c.Out.Samples, b)
	}
}
func (c *vsCtx) Harness(format string, args ...interface{}) {
	if c.harness == nil {
		c.harness = fmt.Errorf(format, args...)
	}
}

// WouldKeep tells whether another report for (check, sig) would be stored (max 3 per process).
func (c *vsCtx) WouldKeep(check, sig string) bool { return c.vkeys[check+"|"+sig] < 3 }

func vsSanitize(s string) string {
	return strings.Map(func(r rune) rune {
		if r >= 'a' && r <= 'z' || r >= 'A' && r <= 'Z' || r >= '0' && r <= '9' || r == '-' {
			return r
		}
		return '_'
	}, s)
}

func (c *vsCtx) Violate(check, sig string, cs interface{}, format string, args ...interface{}) {
	if c.quiet {
		return
	}
	key := check + "|" + sig
	c.vkeys[key]++
	c.Count("violations_" + check)
	if c.vkeys[key] > 3 {
		return
	}
	msg := fmt.Sprintf(format, args...)
	if len(msg) > 1500 {
		msg = msg[:1500] + "..."
	}
	b, _ := json.Marshal(cs)
	w := filepath.Join(c.Work, fmt.Sprintf("witness-%s-%s-%s-%d-%d-%d.json", c.Prop, vsPlugin, vsSanitize(check), c.Seed, c.Shard, len(c.Out.Violations)))
	wb, _ := json.MarshalIndent(map[string]interface{}{"prop": c.Prop, "plugin": vsPlugin, "check": check, "sig": sig, "msg": msg, "case": json.RawMessage(b)}, "", " ")
	if err := os.WriteFile(w, wb, 0o644); err != nil {
		c.Harness("cannot write witness: %v", err)
	}
	if len(b) > 16384 { // keep the result file small; the witness file has the full case
		b, _ = json.Marshal(map[string]string{"note": "case too large for the result file, see witness"})
	}
	c.Out.Violations = append(c.Out.Violations, vsViolation{Prop: c.Prop, Check: check, Sig: sig, Msg: msg, Witness: w, Case: b})
	if c.Replay != "" {
		fmt.Printf("MONITOR property=%s check=%s sig=%s: %s\n", c.Prop, check, sig, msg)
	}
}

// logCase stores the case about to be executed in witness format (usable as VERIF_REPLAY).
func (c *vsCtx) logCase(idx int, cs interface{}) {
	b, err := json.Marshal(map[string]interface{}{"prop": c.Prop, "plugin": vsPlugin, "check": "process-fatal", "index": idx, "case": cs})
	if err == nil {
		err = os.WriteFile(filepath.Join(c.Work, "current-case.json"), b, 0o644)
	}
	if err != nil {
		c.Harness("cannot log case: %v", err)
	}
	c.stepLog.Truncate(0)
	c.stepLog.Seek(0, 0)
}

func (c *vsCtx) logStep(format string, args ...interface{}) {
	fmt.Fprintf(c.stepLog, format+"\n", args...)
}

func vsLoadCase(path string, v interface{}) error {
	data, err := os.ReadFile(path)
	if err != nil {
		return err
	}
	var w struct {
		Case json.RawMessage `json:"case"`
	}
	if err := json.Unmarshal(data, &w); err != nil {
		return err
	}
	return json.Unmarshal(w.Case, v)
}

// ---- panic guard

// vsGuard runs fn; a panic is converted into (message, first repository frame below the panic
// that is not in this test file, as "<pkg path>.<func>(<file>:<line>)").
func vsGuard(fn func()) (panicMsg, site string) {
	defer func() {
		if e := recover(); e != nil {
			panicMsg = fmt.Sprintf("%v", e)
			if len(panicMsg) > 300 {
				panicMsg = panicMsg[:300] + "..."
			}
			site = vsPanicSite(string(debug.Stack()))
		}
	}()
	fn()
	return "", ""
}

func vsPanicSite(stack string) string {
	lines := strings.Split(stack, "\n")
	seenPanic := false
	for i, l := range lines {
		if strings.HasPrefix(l, "panic(") {
			seenPanic = true
			continue
		}
		if !seenPanic || !strings.Contains(l, "github.com/containers/nri-plugins/") || strings.HasPrefix(l, "\t") {
			continue
		}
		loc := ""
		if i+1 < len(lines) {
			loc = strings.TrimSpace(lines[i+1])
			if j := strings.Index(loc, " +0x"); j > 0 {
				loc = loc[:j]
			}
		}
		if strings.Contains(loc, "verif_side_test.go") {
			continue
		}
		fn := strings.TrimSpace(l)
		if j := strings.LastIndex(fn, "("); j > 0 {
			fn = fn[:j]
		}
		fn = strings.TrimPrefix(fn, "github.com/containers/nri-plugins/")
		return fn + "(" + filepath.Base(loc) + ")"
	}
	return "unknown"
}

// ---- byte-exact, compact string encoding for witnesses

// vsS is a string that survives JSON exactly (non-UTF8 bytes) and compactly (huge repetitive
// values are run-length encoded): either a JSON string or {"segs":[{"s":"[","n":5000},{"b64":"/w=="}]}.
type vsS string

type vsSeg struct {
	S   *string `json:"s,omitempty"`
	B64 *string `json:"b64,omitempty"`
	N   int     `json:"n,omitempty"`
}

func vsMkSeg(lit string, n int) vsSeg {
	sg := vsSeg{}
	if n > 1 {
		sg.N = n
	}
	if utf8.ValidString(lit) {
		sg.S = &lit
	} else {
		b := base64.StdEncoding.EncodeToString([]byte(lit))
		sg.B64 = &b
	}
	return sg
}

func vsRLE(s string) []vsSeg {
	var segs []vsSeg
	var lit []byte
	flush := func() {
		if len(lit) > 0 {
			segs = append(segs, vsMkSeg(string(lit), 1))
			lit = lit[:0]
		}
	}
	for i := 0; i < len(s); {
		bestK, bestR := 0, 0
		for k := 1; k <= 8 && i+2*k <= len(s); k++ {
			if s[i] != s[i+k] || s[i+k-1] != s[i+2*k-1] {
				continue
			}
			r := 1
			for i+(r+1)*k <= len(s) && s[i+r*k:i+(r+1)*k] == s[i:i+k] {
				r++
			}
			if r*k > bestK*bestR {
				bestK, bestR = k, r
			}
		}
		if bestR >= 2 && bestK*bestR >= 48 {
			flush()
			segs = append(segs, vsMkSeg(s[i:i+bestK], bestR))
			i += bestK * bestR
		} else {
			lit = append(lit, s[i])
			i++
		}
	}
	flush()
	return segs
}

func (s vsS) MarshalJSON() ([]byte, error) {
	str := string(s)
	if len(str) <= 2048 && utf8.ValidString(str) {
		return json.Marshal(str)
	}
	return json.Marshal(map[string]interface{}{"segs": vsRLE(str)})
}

func (s *vsS) UnmarshalJSON(b []byte) error {
	t := strings.TrimSpace(string(b))
	if strings.HasPrefix(t, "\"") {
		var str string
		if err := json.Unmarshal(b, &str); err != nil {
			return err
		}
		*s = vsS(str)
		return nil
	}
	var o struct {
		Segs []vsSeg `json:"segs"`
	}
	if err := json.Unmarshal(b, &o); err != nil {
		return err
	}
	var sb strings.Builder
	for _, sg := range o.Segs {
		unit := ""
		if sg.S != nil {
			unit = *sg.S
		} else if sg.B64 != nil {
			raw, err := base64.StdEncoding.DecodeString(*sg.B64)
			if err != nil {
				return err
			}
			unit = string(raw)
		}
		n := sg.N
		if n == 0 {
			n = 1
		}
		sb.WriteString(strings.Repeat(unit, n))
	}
	*s = vsS(sb.String())
	return nil
}

type vsKV struct {
	K vsS `json:"k"`
	V vsS `json:"v"`
}

// ---- NRI object specifications (what a witness stores) and their materialisation

type vsPod struct {
	Nil  bool   `json:"nil,omitempty"` // the request carries no pod at all
	ID   vsS    `json:"id"`
	Name vsS    `json:"name"`
	UID  vsS    `json:"uid"`
	NS   vsS    `json:"ns"`
	Ann  []vsKV `json:"ann"` // ordered list (generation never depends on map order); nil = no map
}

// build materialises the pod; if perm != nil the annotation map is filled in a shuffled order.
func (p *vsPod) build(perm *vsRNG) *api.PodSandbox {
	if p == nil || p.Nil {
		return nil
	}
	pod := &api.PodSandbox{Id: string(p.ID), Name: string(p.Name), Uid: string(p.UID), Namespace: string(p.NS)}
	if p.Ann != nil {
		// duplicates in the list: the first occurrence wins, whatever the insertion order
		uniq := make([]vsKV, 0, len(p.Ann))
		seen := map[string]bool{}
		for _, kv := range p.Ann {
			if !seen[string(kv.K)] {
				seen[string(kv.K)] = true
				uniq = append(uniq, kv)
			}
		}
		if perm != nil {
			vsShuffle(perm, uniq)
		}
		pod.Annotations = make(map[string]string)
		for _, kv := range uniq {
			pod.Annotations[string(kv.K)] = string(kv.V)
		}
	}
	return pod
}

func (p *vsPod) clone() *vsPod {
	if p == nil {
		return nil
	}
	q := *p
	if p.Ann != nil {
		q.Ann = append([]vsKV{}, p.Ann...)
	}
	return &q
}

type vsCtr struct {
	ID    vsS `json:"id"`
	PodID vsS `json:"pod_id"`
	Name  vsS `json:"name"`
	// Depth says how much of the optional sub-message chain is present:
	// 0 Linux absent, 1 Linux without Resources, 2 Resources without Memory, 3 Memory without Limit, 4 Limit present.
	Depth       int   `json:"depth"`
	Limit       int64 `json:"limit"`
	Cpu         bool  `json:"cpu,omitempty"`     // Resources.Cpu present (Depth>=2)
	Unified     bool  `json:"unified,omitempty"` // Resources.Unified present (Depth>=2)
	CgroupsPath vsS   `json:"cgroups_path,omitempty"`
	State       int   `json:"state,omitempty"`
}

func (c *vsCtr) build() *api.Container {
	ctr := &api.Container{Id: string(c.ID), PodSandboxId: string(c.PodID), Name: string(c.Name), State: api.ContainerState(c.State)}
	if c.Depth >= 1 {
		ctr.Linux = &api.LinuxContainer{CgroupsPath: string(c.CgroupsPath)}
	}
	if c.Depth >= 2 {
		ctr.Linux.Resources = &api.LinuxResources{}
		if c.Cpu {
			ctr.Linux.Resources.Cpu = &api.LinuxCPU{Shares: &api.OptionalUInt64{Value: 1024}, Quota: &api.OptionalInt64{Value: -1}, Cpus: "0-1"}
		}
		if c.Unified {
			ctr.Linux.Resources.Unified = map[string]string{"memory.high": "1", "memory.swap.max": "2"}
		}
	}
	if c.Depth >= 3 {
		ctr.Linux.Resources.Memory = &api.LinuxMemory{}
	}
	if c.Depth >= 4 {
		ctr.Linux.Resources.Memory.Limit = &api.OptionalInt64{Value: c.Limit}
	}
	return ctr
}

type vsStep struct {
	Op     string   `json:"op"` // Configure | CreateContainer | StartContainer | StopContainer
	Config *vsS     `json:"config,omitempty"`
	Pod    *vsPod   `json:"pod,omitempty"`
	Ctr    *vsCtr   `json:"ctr,omitempty"`
	Tags   []string `json:"tags,omitempty"` // generator's input-class tags (shape statistics only)
}

// vsEnv is how the plugin instance of a case is set up (fields a plugin does not have are ignored).
type vsEnv struct {
	LogLevel  int   `json:"log_level"`             // 0 default, 1 -v (debug), 2 -vv (trace; sgx-epc: -verbose)
	Bin       bool  `json:"bin,omitempty"`         // memtierd: a (fake) memtierd executable is in PATH
	Cgroup    int   `json:"cgroup,omitempty"`      // memtierd: 0 cgroup root missing, 1 empty, 2 holds directories named after CgIDs
	CgIDs     []vsS `json:"cg_ids,omitempty"`      // memtierd: container ids that have a cgroup directory
	RunDirBad bool  `json:"run_dir_bad,omitempty"` // memtierd: the run directory path is a regular file
}

type vsRes struct {
	Failed  bool              `json:"failed,omitempty"` // handler returned an error
	Err     string            `json:"err,omitempty"`
	Adjust  string            `json:"adjust,omitempty"` // JSON of the returned ContainerAdjustment
	Unified map[string]string `json:"unified,omitempty"`
	NUpd    int               `json:"nupd,omitempty"`
	Extra   string            `json:"extra,omitempty"` // plugin-specific observation (memtierd: config file written)
	Panic   string            `json:"panic,omitempty"`
	Site    string            `json:"site,omitempty"`
}

func (r vsRes) outcome() string {
	switch {
	case r.Panic != "":
		return "panic"
	case r.Failed:
		return "refused"
	}
	return "ok"
}

// key is what canaries compare: everything observable of a reply.
func (r vsRes) key() string {
	return fmt.Sprintf("%s|err=%q|adj=%s|upd=%d|x=%s|site=%s", r.outcome(), r.Err, r.Adjust, r.NUpd, r.Extra, r.Site)
}

func vsAdjust(r *vsRes, adj *api.ContainerAdjustment, upd []*api.ContainerUpdate, err error) {
	r.NUpd = len(upd)
	if err != nil {
		r.Failed = true
		r.Err = err.Error()
		if len(r.Err) > 300 {
			r.Err = r.Err[:300] + "..."
		}
	}
	if adj != nil {
		b, _ := json.Marshal(adj)
		r.Adjust = string(b)
		if len(r.Adjust) > 4096 {
			r.Adjust = fmt.Sprintf("%016x/%d", vsHashStr(r.Adjust), len(r.Adjust))
		}
		if u := adj.GetLinux().GetResources().GetUnified(); u != nil {
			r.Unified = map[string]string{}
			for k, v := range u {
				r.Unified[k] = v
			}
		}
	}
}

func vsExec(ctx *vsCtx, in *vsInst, st *vsStep, caseIdx, stepIdx int) vsRes {
	ctx.logStep("case %d step %d %s.%s", caseIdx, stepIdx, vsPlugin, st.Op)
	var res vsRes
	msg, site := vsGuard(func() { res = in.call(st) })
	if msg != "" {
		res = vsRes{Panic: msg, Site: site}
	}
	return res
}

// ---- hostile value dictionary (value, class)

func vsHugeLen(r *vsRNG) int {
	if r.Chance(1, 20) {
		return 1 << 20
	}
	return 1 << uint(r.Range(12, 16))
}

func vsGenValue(r *vsRNG, good []string) (string, string) {
	switch r.Intn(14) {
	case 0:
		return "", "empty"
	case 1:
		return vsPick(r, good), "valid"
	case 2:
		return vsPick(r, good), "valid"
	case 3:
		return vsPick(r, []string{"0", "1", "-1", "+5", " 5", "5 ", "007", "0x10", "1e3", "1.5", "18446744073709551615", "18446744073709551616",
			"9223372036854775807", "9223372036854775808", "-9223372036854775809", "1e309", "-1e309", "NaN", "Inf", "\u0967\u0968", "1_000", "max"}), "numeric"
	case 4:
		return strings.Repeat("9", r.Range(20, 400)), "num-overflow"
	case 5:
		return vsPick(r, []string{"true", "null", "~", "[]", "{}", "[1,2]", "{\"a\":1}", "a: b", "- x", "? x", "!!binary x", "&a [*a]", "*undefined", "|\n x", ">-\n x", "---", "...", "%YAML 9.9"}), "yaml-type"
	case 6:
		return vsPick(r, []string{"[1,2", "{a: b", "a: b: c", "\"unterminated", "'", "{\"a\":", "\t- x", "a:\n\t- b", "[}", "{]", "\\", "${", "${VAR", "%s%n%d%!v", "*", "?", "[a-", "a,b,c", "../../..", "/", "\n", "a\nb", "\r\n"}), "malformed"
	case 7:
		return vsPick(r, []string{"\x00", "a\x00b", "\xff\xfe", "\xc3\x28", "\xed\xa0\x80", "\xf8\x88\x80\x80\x80", "caf\xe9", "\xef\xbb\xbfx", "\u202e", "\U0001F600"}), "non-utf8"
	case 8:
		return strings.Repeat(vsPick(r, []string{"A", "9", " ", "ab", "\xff", "- x\n", "\u00e9"}), vsHugeLen(r)), "huge"
	case 9:
		n := r.Range(50, 12000)
		op, cl := "[", "]"
		if r.Chance(1, 2) {
			op, cl = "{\"a\":", "}"
		}
		return strings.Repeat(op, n) + "1" + strings.Repeat(cl, n), "deep"
	case 10:
		n := r.Range(50, 12000)
		return strings.Repeat(vsPick(r, []string{"[", "{a: ", "- ", "? "}), n), "deep-open"
	case 11:
		s := "a: &a [x,x,x,x,x,x]\n"
		prev := "a"
		for i := 0; i < 5; i++ {
			cur := string(rune('b' + i))
			s += fmt.Sprintf("%s: &%s [*%s,*%s,*%s,*%s,*%s,*%s]\n", cur, cur, prev, prev, prev, prev, prev, prev)
			prev = cur
		}
		return s, "alias-bomb"
	case 12:
		b := make([]byte, r.Range(1, 40))
		for i := range b {
			b[i] = byte(r.Intn(256))
		}
		return string(b), "random-bytes"
	}
	return vsPick(r, good) + vsPick(r, []string{" ", "\n", "\x00", "x", "/", ".", "-"}), "near-valid"
}

// ---- names

// vsNameFamily returns 2..5 distinct container names that are prefixes/suffixes of each other
// and contain the separators '-' and '.'.
func vsNameFamily(r *vsRNG) []string {
	base := vsPick(r, []string{"c0", "c", "app", "web-1", "a", "x0", "pod", "container", "main", "c0-c0", "0", "a-b"})
	x := vsPick(r, []string{"c0", "x", "0", "a", "pod", "container", "sidecar", "b-c"})
	cand := []string{base, base + "-" + x, x + "-" + base, base + x, x + base, base[:1], base + "." + x, x + "." + base,
		"container." + base, base + "-0", base + base, base + "." + base, x}
	vsShuffle(r, cand)
	n := r.Range(2, 5)
	out := []string{}
	seen := map[string]bool{}
	for _, c := range cand {
		if !seen[c] && len(out) < n {
			seen[c] = true
			out = append(out, c)
		}
	}
	return out
}

// vsHostileName returns an identifier for pods, namespaces, containers in C14 (never used for
// precedence checks). pathSafe excludes '/', "." and ".." (see memtierd driver).
func vsHostileName(r *vsRNG, pathSafe bool) string {
	for {
		var s string
		switch r.Intn(10) {
		case 0:
			s = ""
		case 1:
			s = strings.Repeat("n", r.Range(250, 5000))
		case 2:
			s = vsPick(r, []string{"a b", "-x", "x-", "A", "\u00e4", "\xff", "a\x00b", "a:b", "a..b", "...", "%s", "a\nb", " "})
		case 3:
			s = vsPick(r, []string{"a/b", "/", "..", ".", "../..", "/etc"})
		default:
			s = vsPick(r, []string{"default", "kube-system", "pod0", "pod1", "p", "ns1"})
		}
		if pathSafe && (strings.Contains(s, "/") || s == "." || s == "..") {
			continue
		}
		return s
	}
}

// ---- C14: generic event-sequence driver

type vsC14Case struct {
	Env   vsEnv    `json:"env"`
	Steps []vsStep `json:"steps"`
}

func (cs *vsC14Case) clone() *vsC14Case {
	b, _ := json.Marshal(cs)
	var c vsC14Case
	if err := json.Unmarshal(b, &c); err != nil {
		return nil
	}
	return &c
}

type vsFinding struct {
	Check, Sig, Msg string
	Step            int
}

func vsHasOp(op string) bool {
	for _, o := range vsOps {
		if o == op {
			return true
		}
	}
	return false
}

func vsGenPodAnn(r *vsRNG, ctr string, others []string) ([]vsKV, []string) {
	if r.Chance(1, 8) {
		return nil, []string{"ann=none"}
	}
	if r.Chance(1, 4) { // well-formed annotations: the hostility is in the resources, the order, the configuration
		return vsBenignAnn(r, ctr), []string{"ann=benign"}
	}
	n := r.Range(0, 4)
	ann := []vsKV{}
	tags := []string{}
	for i := 0; i < n; i++ {
		var k string
		if r.Chance(85, 100) {
			k = vsGenAnnKey(r, ctr, others)
		} else {
			k, _ = vsGenValue(r, []string{"io.kubernetes.pod.name", "x"})
			if len(k) > 70000 {
				k = k[:70000]
			}
		}
		v, cl := vsGenValue(r, vsGoodValues)
		ann = append(ann, vsKV{vsS(k), vsS(v)})
		tags = append(tags, "v="+cl)
	}
	sort.Strings(tags)
	return ann, tags
}

func vsGenCtr(r *vsRNG, name, id, podID string) *vsCtr {
	c := &vsCtr{ID: vsS(id), PodID: vsS(podID), Name: vsS(name), State: r.Intn(5)}
	switch {
	case r.Chance(45, 100):
		c.Depth = 4
	default:
		c.Depth = r.Intn(4)
	}
	c.Limit = vsPick(r, []int64{0, 1, -1, 4096, 100 << 20, 1 << 30, 1 << 40, 1<<63 - 1, -1 << 63, 123456789})
	c.Cpu = r.Chance(1, 2)
	c.Unified = r.Chance(1, 3)
	c.CgroupsPath = vsS(vsPick(r, []string{"", "kubepods.slice:cri-containerd:" + id, "/kubepods/pod0/" + id, "..", "\xff"}))
	return c
}

func vsGenC14(r *vsRNG) *vsC14Case {
	cs := &vsC14Case{Env: vsEnv{LogLevel: r.Intn(3), Bin: r.Chance(1, 3), Cgroup: r.Intn(3), RunDirBad: r.Chance(1, 25)}}
	names := vsNameFamily(r)
	if r.Chance(1, 6) {
		names = append(names, vsHostileName(r, vsPathSafeNames))
	}
	type obj struct {
		pod *vsPod
		ctr *vsCtr
	}
	npods := r.Range(1, 2)
	pods := []*vsPod{}
	for i := 0; i < npods; i++ {
		p := &vsPod{ID: vsS(fmt.Sprintf("pod%d", i)), Name: vsS(fmt.Sprintf("p%d", i)), UID: vsS(fmt.Sprintf("uid-%d", i)), NS: "default"}
		if r.Chance(1, 5) {
			p.Name = vsS(vsHostileName(r, vsPathSafeNames))
		}
		if r.Chance(1, 5) {
			p.NS = vsS(vsHostileName(r, vsPathSafeNames))
		}
		if r.Chance(1, 10) {
			p.ID = vsS(vsHostileName(r, false))
		}
		pods = append(pods, p)
	}
	objs := []obj{}
	for i, n := range names {
		p := vsPick(r, pods)
		id := fmt.Sprintf("ctr%d", i)
		if r.Chance(1, 10) {
			id = vsPick(r, []string{"", "ctr0", strings.Repeat("f", 64), "a/b", "\xff"})
		}
		objs = append(objs, obj{p, vsGenCtr(r, n, id, string(p.ID))})
	}
	for _, o := range objs {
		if o.pod.Ann == nil && !r.Chance(1, 10) {
			o.pod.Ann, _ = vsGenPodAnn(r, string(o.ctr.Name), names)
		}
		if r.Chance(2, 3) {
			cs.Env.CgIDs = append(cs.Env.CgIDs, o.ctr.ID)
		}
	}
	if vsHasOp("Configure") && r.Chance(65, 100) {
		cfg, tag := vsGenConfig(r)
		c := vsS(cfg)
		cs.Steps = append(cs.Steps, vsStep{Op: "Configure", Config: &c, Tags: []string{"cfg=" + tag}})
	}
	ctrOps := []string{}
	for _, o := range vsOps {
		if o != "Configure" {
			ctrOps = append(ctrOps, o)
		}
	}
	nsteps := r.Range(1, 7)
	for i := 0; i < nsteps; i++ {
		if vsHasOp("Configure") && r.Chance(15, 100) {
			cfg, tag := vsGenConfig(r)
			c := vsS(cfg)
			cs.Steps = append(cs.Steps, vsStep{Op: "Configure", Config: &c, Tags: []string{"cfg=" + tag}})
			continue
		}
		st := vsStep{Op: vsPick(r, ctrOps)}
		o := vsPick(r, objs)
		pod, ctr := o.pod.clone(), *o.ctr
		tags := []string{}
		switch r.Intn(10) {
		case 0: // a container the plugin has never been told about
			ctr = *vsGenCtr(r, vsPick(r, names)+"-new", fmt.Sprintf("unknown%d", i), string(pod.ID))
			tags = append(tags, "ctr=unknown")
		case 1: // same container, other view of its resources
			c2 := vsGenCtr(r, string(ctr.Name), string(ctr.ID), string(ctr.PodID))
			ctr = *c2
			tags = append(tags, "ctr=changed")
		case 2: // container presented with another pod
			pod = vsPick(r, pods).clone()
			tags = append(tags, "pod=other")
		}
		if r.Chance(1, 4) {
			var t []string
			pod.Ann, t = vsGenPodAnn(r, string(ctr.Name), names)
			tags = append(tags, t...)
		} else {
			for range pod.Ann {
				tags = append(tags, "v=kept")
			}
		}
		if r.Chance(3, 100) {
			pod.Nil = true
			tags = append(tags, "pod=nil")
		}
		tags = append(tags, fmt.Sprintf("depth=%d", ctr.Depth))
		st.Pod, st.Ctr, st.Tags = pod, &ctr, tags
		cs.Steps = append(cs.Steps, st)
	}
	return cs
}

// vsCanary runs the benign call sequence on an instance and returns the replies.
func vsCanary(ctx *vsCtx, in *vsInst, full bool) []vsRes {
	steps := vsCanarySteps(full)
	vsCanaryReset()
	out := make([]vsRes, 0, len(steps))
	for k := range steps {
		ctx.logStep("canary(full=%v) step %d %s.%s", full, k, vsPlugin, steps[k].Op)
		var res vsRes
		msg, site := vsGuard(func() { res = in.canaryCall(&steps[k]) })
		if msg != "" {
			res = vsRes{Panic: msg, Site: site}
		}
		out = append(out, res)
	}
	return out
}

// vsFreshCanary: what the full canary answers on a fresh instance; it must succeed entirely.
func vsFreshCanary(ctx *vsCtx) []string {
	in := vsNewInst(ctx, vsEnv{Bin: true, Cgroup: 2}, "fresh")
	defer in.close()
	res := vsCanary(ctx, in, true)
	keys := []string{}
	for k, r := range res {
		switch r.outcome() {
		case "panic": // a benign, well-formed request: this is a finding, not a harness problem
			ctx.Violate("panic", fmt.Sprintf("%s.canary[%d]@%s", vsPlugin, k, r.Site), map[string]interface{}{"canary_step": k, "steps": vsCanarySteps(true)},
				"benign call %d of the canary panics on a fresh plugin instance: %s", k, r.Panic)
		case "refused":
			ctx.Harness("canary step %d is refused by a fresh plugin instance: %s", k, r.key())
		}
		keys = append(keys, r.key())
	}
	if err := vsCheckCanary(res); err != nil {
		// wrong answers to benign requests are C18's business, not C14's: the canaries then compare
		// against what the fresh instance answers
		ctx.Count("canary_fresh_answers_not_as_documented")
		fmt.Fprintf(os.Stderr, "verif side: note: canary on a fresh %s instance does not answer as documented: %v\n", vsPlugin, err)
	}
	return keys
}

// vsPlayC14 executes a case on a fresh plugin instance and returns the oracle's findings.
func vsPlayC14(ctx *vsCtx, cs *vsC14Case, idx int, canaryWant []string) []vsFinding {
	var finds []vsFinding
	ctx.logCase(idx, cs)
	in := vsNewInst(ctx, cs.Env, "inst")
	defer in.close()
	accepted, hasAccepted := "", false
	var want []vsRes // canary replies of a fresh instance holding the accepted configuration
	shape := []string{}
	life := map[string]string{} // container key -> last lifecycle event seen (statistics only)
	for j := range cs.Steps {
		st := &cs.Steps[j]
		res := vsExec(ctx, in, st, idx, j)
		ctx.Eval()
		oc := res.outcome()
		ctx.Count("call_" + st.Op + "_" + oc)
		if strings.HasPrefix(res.Extra, "cfg") {
			ctx.Count("call_" + st.Op + "_prepared_memtierd")
		}
		shape = append(shape, st.Op+"["+strings.Join(st.Tags, ",")+"]") // not the outcome: which of several refusal reasons a plugin meets first may depend on its map iteration order
		for _, t := range st.Tags {
			if strings.HasPrefix(t, "v=") && t != "v=kept" || strings.HasPrefix(t, "cfg=") || strings.HasPrefix(t, "pod=") || strings.HasPrefix(t, "ctr=") {
				ctx.Count("input_" + t)
			}
		}
		if st.Ctr != nil {
			if st.Ctr.Depth < 4 {
				ctx.Count(fmt.Sprintf("input_absent_submessage_depth%d", st.Ctr.Depth))
			}
			key := ""
			if st.Pod != nil {
				key = string(st.Pod.ID)
			}
			key += "/" + string(st.Ctr.ID)
			prev := life[key]
			switch {
			case st.Op == "CreateContainer" && prev != "":
				ctx.Count("order_create_again_after_" + prev)
			case st.Op != "CreateContainer" && prev == "":
				ctx.Count("order_" + st.Op + "_before_create")
			case st.Op == prev:
				ctx.Count("order_" + st.Op + "_twice")
			case prev == "StopContainer":
				ctx.Count("order_" + st.Op + "_after_stop")
			}
			life[key] = st.Op
			if !hasAccepted {
				ctx.Count("call_" + st.Op + "_without_configuration")
			}
		}
		if res.Panic != "" {
			finds = append(finds, vsFinding{"panic", vsPlugin + "." + st.Op + "@" + res.Site,
				fmt.Sprintf("step %d: %s.%s panicked: %s (at %s)", j, vsPlugin, st.Op, res.Panic, res.Site), j})
		}
		if st.Op == "Configure" && oc == "ok" && st.Config != nil && *st.Config != "" {
			accepted, hasAccepted, want = string(*st.Config), true, nil
		}
		if oc != "ok" {
			// refused or crashed: the instance must answer the benign sequence exactly like a
			// fresh instance that was given the last accepted configuration
			got := vsCanary(ctx, in, false)
			if want == nil { // (re)computed only when the accepted configuration changed
				fresh := vsNewInst(ctx, cs.Env, "fresh")
				if hasAccepted {
					c := vsS(accepted)
					if r := vsExec(ctx, fresh, &vsStep{Op: "Configure", Config: &c}, idx, -1); r.outcome() != "ok" {
						ctx.Harness("accepted configuration refused by a fresh instance: %s", r.key())
					}
				}
				want = vsCanary(ctx, fresh, false)
				fresh.close()
			}
			ctx.Count("canary_after_" + oc)
			for k := range got {
				ctx.Eval()
				if got[k].key() != want[k].key() {
					finds = append(finds, vsFinding{"canary-diff", fmt.Sprintf("%s.%s(%s)->canary[%d]", vsPlugin, st.Op, oc, k),
						fmt.Sprintf("after step %d (%s %s) benign call %d answers %s, a fresh instance with the same accepted configuration answers %s", j, st.Op, oc, k, got[k].key(), want[k].key()), j})
				}
			}
		}
	}
	// end of case: configure the benign configuration and require the documented benign replies
	got := vsCanary(ctx, in, true)
	ctx.Count("canary_final")
	for k := range got {
		ctx.Eval()
		if k < len(canaryWant) && got[k].key() != canaryWant[k] {
			finds = append(finds, vsFinding{"canary", fmt.Sprintf("%s.canary[%d]:%s", vsPlugin, k, got[k].outcome()),
				fmt.Sprintf("after the case benign call %d answers %s, on a fresh instance it answers %s", k, got[k].key(), canaryWant[k]), len(cs.Steps)})
		}
	}
	ctx.See(strings.Join(shape, ";"))
	return finds
}

func vsHasFinding(finds []vsFinding, f vsFinding) bool {
	for _, g := range finds {
		if g.Check == f.Check && g.Sig == f.Sig {
			return true
		}
	}
	return false
}

// vsShrinkC14 greedily removes steps, annotations and environment features while the same
// (check, sig) is still reported.
func vsShrinkC14(ctx *vsCtx, cs *vsC14Case, f vsFinding, canaryWant []string) *vsC14Case {
	ctx.quiet = true
	defer func() { ctx.quiet = false }()
	still := func(c *vsC14Case) bool { return c != nil && vsHasFinding(vsPlayC14(ctx, c, -1, canaryWant), f) }
	cur := cs.clone()
	if !still(cur) {
		return cs // not reproducible from the serialised form: report the original
	}
	for j := len(cur.Steps) - 1; j >= 0; j-- {
		c := cur.clone()
		c.Steps = append(c.Steps[:j], c.Steps[j+1:]...)
		if still(c) {
			cur = c
		}
	}
	for j := range cur.Steps {
		if cur.Steps[j].Pod == nil {
			continue
		}
		for a := len(cur.Steps[j].Pod.Ann) - 1; a >= 0; a-- {
			c := cur.clone()
			c.Steps[j].Pod.Ann = append(c.Steps[j].Pod.Ann[:a], c.Steps[j].Pod.Ann[a+1:]...)
			if still(c) {
				cur = c
			}
		}
	}
	for _, mod := range []func(c *vsC14Case){
		func(c *vsC14Case) { c.Env.LogLevel = 0 },
		func(c *vsC14Case) { c.Env.RunDirBad = false },
		func(c *vsC14Case) { c.Env.Bin = false },
		func(c *vsC14Case) { c.Env.CgIDs = nil },
		func(c *vsC14Case) { c.Env.Cgroup = 1 },
		func(c *vsC14Case) {
			for j := range c.Steps {
				if c.Steps[j].Ctr != nil {
					c.Steps[j].Ctr.Depth, c.Steps[j].Ctr.Limit = 4, 1<<30
				}
			}
		},
		func(c *vsC14Case) {
			for j := range c.Steps {
				if c.Steps[j].Ctr != nil {
					c.Steps[j].Ctr.Cpu, c.Steps[j].Ctr.Unified, c.Steps[j].Ctr.CgroupsPath, c.Steps[j].Ctr.State = false, false, "", 0
				}
				c.Steps[j].Tags = nil
			}
		},
	} {
		c := cur.clone()
		mod(c)
		if still(c) {
			cur = c
		}
	}
	return cur
}

func vsDriveC14(ctx *vsCtx) {
	canaryWant := vsFreshCanary(ctx)
	if ctx.harness != nil {
		return
	}
	report := func(cs *vsC14Case, idx int) {
		finds := vsPlayC14(ctx, cs, idx, canaryWant)
		if len(finds) > 0 {
			ctx.Count("cases_with_findings")
		}
		done := map[string]bool{}
		for _, f := range finds {
			if done[f.Check+"|"+f.Sig] {
				continue
			}
			done[f.Check+"|"+f.Sig] = true
			w := cs
			if ctx.WouldKeep(f.Check, f.Sig) && ctx.Replay == "" {
				w = vsShrinkC14(ctx, cs, f, canaryWant)
			}
			ctx.Violate(f.Check, f.Sig, w, "%s", f.Msg)
		}
	}
	if ctx.Replay != "" {
		var cs vsC14Case
		if err := vsLoadCase(ctx.Replay, &cs); err != nil {
			ctx.Harness("cannot load %s: %v", ctx.Replay, err)
			return
		}
		report(&cs, 0)
		return
	}
	for i := 0; i < ctx.N; i++ {
		cs := vsGenC14(ctx.RNG.Fork())
		ctx.Count("cases")
		if i < 3 {
			ctx.Sample(cs)
		}
		report(cs, i)
	}
}

func TestVerifSide(t *testing.T) {
	if os.Getenv("VERIF_PROP") == "" {
		t.Skip("VERIF_PROP not set (C14 or C18)")
	}
	ctx, err := vsSetup()
	if err != nil {
		t.Fatalf("verif side harness: %v", err)
	}
	ctx.origEnv = os.Getenv("PATH")
	if err := vsInitPlugin(ctx); err != nil {
		t.Fatalf("verif side harness: %v", err)
	}
	switch ctx.Prop {
	case "C14":
		vsDriveC14(ctx)
	case "C18":
		vsDriveC18(ctx)
	default:
		t.Fatalf("verif side harness: no driver for property %q (have C14, C18)", ctx.Prop)
	}
	vsFinishPlugin(ctx)
	os.Setenv("PATH", ctx.origEnv)
	if ctx.harness != nil {
		t.Fatalf("verif side harness: %v", ctx.harness)
	}
	if err := ctx.writeOut(true); err != nil {
		t.Fatalf("verif side harness: %v", err)
	}
	if ctx.Replay != "" {
		if len(ctx.Out.Violations) > 0 {
			t.Errorf("oracle fired on the replayed case (%d finding(s))", len(ctx.Out.Violations))
		} else {
			fmt.Printf("MONITOR property=%s: no finding on the replayed case\n", ctx.Prop)
		}
	}
}

// ---- which NRI handlers does the plugin implement? (the stub dispatches by these interfaces)

func vsCheckHandlers(p interface{}) error {
	have := []string{}
	add := func(ok bool, name string) {
		if ok {
			have = append(have, name)
		}
	}
	_, ok := p.(stub.ConfigureInterface)
	add(ok, "Configure")
	_, ok = p.(stub.SynchronizeInterface)
	add(ok, "Synchronize")
	_, ok = p.(stub.ShutdownInterface)
	add(ok, "Shutdown")
	_, ok = p.(stub.RunPodInterface)
	add(ok, "RunPodSandbox")
	_, ok = p.(stub.StopPodInterface)
	add(ok, "StopPodSandbox")
	_, ok = p.(stub.RemovePodInterface)
	add(ok, "RemovePodSandbox")
	_, ok = p.(stub.CreateContainerInterface)
	add(ok, "CreateContainer")
	_, ok = p.(stub.StartContainerInterface)
	add(ok, "StartContainer")
	_, ok = p.(stub.UpdateContainerInterface)
	add(ok, "UpdateContainer")
	_, ok = p.(stub.StopContainerInterface)
	add(ok, "StopContainer")
	_, ok = p.(stub.RemoveContainerInterface)
	add(ok, "RemoveContainer")
	_, ok = p.(stub.PostCreateContainerInterface)
	add(ok, "PostCreateContainer")
	_, ok = p.(stub.PostStartContainerInterface)
	add(ok, "PostStartContainer")
	_, ok = p.(stub.PostUpdateContainerInterface)
	add(ok, "PostUpdateContainer")
	want := append([]string{}, vsOps...)
	sort.Strings(have)
	sort.Strings(want)
	if strings.Join(have, ",") != strings.Join(want, ",") {
		return fmt.Errorf("plugin %s implements handlers %v but the driver drives %v: extend the driver", vsPlugin, have, want)
	}
	return nil
}

// ---- C18 helpers shared by the three reference resolvers

const vsEvals = 16

// vsSameUnified: nil and empty maps are the same observation.
func vsSameUnified(a, b map[string]string) bool {
	if len(a) != len(b) {
		return false
	}
	for k, v := range a {
		if w, ok := b[k]; !ok || w != v {
			return false
		}
	}
	return true
}

func vsFmtMap(m map[string]string) string {
	keys := make([]string, 0, len(m))
	for k := range m {
		keys = append(keys, k)
	}
	sort.Strings(keys)
	var sb strings.Builder
	sb.WriteString("{")
	for i, k := range keys {
		if i > 0 {
			sb.WriteString(", ")
		}
		fmt.Fprintf(&sb, "%q: %q", k, m[k])
	}
	sb.WriteString("}")
	return sb.String()
}

// =====================================================================================
// PLUGIN-SPECIFIC PART: memtierd (cmd/plugins/memtierd/main.go)
//
// Handlers driven: Configure, CreateContainer, StartContainer, StopContainer (all the plugin
// implements; checked at start-up against the NRI stub's handler interfaces).
// The plugin struct is initialised as main() does: ctrMemtierdEnv map, cgroupsDir (flag
// -cgroups-dir) and opt.runDir (flag -run-dir) - both pointing below $VERIF_WORK, the run
// directory four levels deep. There is no memtierd here: when a case says so, PATH holds a fake
// `memtierd` script (sleeps 1 s); otherwise PATH holds an empty directory (exec fails).
// Safety: StartContainer creates and StopContainer REMOVES <run-dir>/<namespace>/<pod>/<container>;
// names containing '/' or equal to "." / ".." would leave the run directory, so the generator never
// produces them and call() refuses to execute such a step (Kubernetes does not admit such names).
//
// Documentation the reference resolver is written from: docs/memory/memtierd.md and the field
// comments of qosClass:
//   class.memtierd.nri.io: C              default class of all containers of the pod
//   class.memtierd.nri.io/<NAME>: C       class of container NAME, overrides the default; "" = no class
//   allowswap true/false -> memory.swap.max max/0, unset -> untouched; "Direct annotation that
//   defines value of memory.swap.max overrides this option" (memory.swap.max.memtierd.nri.io[/NAME],
//   likewise memory.high); a class with memtierdconfig gets a memtierd launched at StartContainer
//   with $CGROUP2_ABS_PATH replaced in the template.
// =====================================================================================

const vsPlugin = "memtierd"
const vsPathSafeNames = true
const vsSuffix = ".memtierd.nri.io"

var vsOps = []string{"Configure", "CreateContainer", "StartContainer", "StopContainer"}
var vsGoodValues = []string{"verif-gold", "gold", "gold", "silver", "bronze", "gold", "silver", "bronze", "max", "0", ""}

var (
	vsBinDir    string // holds the fake memtierd
	vsNoBinDir  string // empty
	vsCanaryRun string
	vsCanaryCg  string
	vsStarted   int // fake memtierd processes started (to know whether to wait for stragglers)
)

func vsInitPlugin(ctx *vsCtx) error {
	// as main() does
	log = logrus.StandardLogger()
	log.SetFormatter(&logrus.TextFormatter{PadLevelText: true})
	// harness: no output (entries are still formatted), and a Fatal must not kill the process silently
	log.SetOutput(io.Discard)
	log.ExitFunc = func(code int) { panic(fmt.Sprintf("verif: exit(%d) requested through the logger", code)) }

	vsBinDir = filepath.Join(ctx.Work, "bin")
	vsNoBinDir = filepath.Join(ctx.Work, "nobin")
	vsCanaryRun = filepath.Join(ctx.Work, "canary", "run", "d1", "d2", "d3", "d4")
	vsCanaryCg = filepath.Join(ctx.Work, "canary", "cgroup")
	for _, d := range []string{vsBinDir, vsNoBinDir, filepath.Dir(vsCanaryRun), filepath.Join(vsCanaryCg, "kubepods.slice", "cri-containerd-verif-canary-c0.scope")} {
		if err := os.MkdirAll(d, 0o755); err != nil {
			return err
		}
	}
	script := "#!/bin/sh\nexit 0\n"
	for _, sl := range []string{"/bin/sleep", "/usr/bin/sleep"} {
		if _, err := os.Stat(sl); err == nil {
			script = "#!/bin/sh\nexec " + sl + " 1\n"
			break
		}
	}
	if err := os.WriteFile(filepath.Join(vsBinDir, "memtierd"), []byte(script), 0o755); err != nil {
		return err
	}
	return vsCheckHandlers(&plugin{ctrMemtierdEnv: map[string]*memtierdEnv{}})
}

// vsCanaryReset: the canary's run directory starts empty.
func vsCanaryReset() { os.RemoveAll(filepath.Join(vsCanaryRun, "verif-canary")) }

func vsReap() {
	for {
		var ws syscall.WaitStatus
		pid, err := syscall.Wait4(-1, &ws, syscall.WNOHANG, nil)
		if pid <= 0 || err != nil {
			return
		}
	}
}

func vsFinishPlugin(ctx *vsCtx) {
	ctx.Add("memtierd_processes_started", vsStarted)
	if vsStarted > 0 {
		time.Sleep(1200 * time.Millisecond) // fake memtierds that a duplicate StartContainer orphaned exit after 1 s
	}
	vsReap()
	for _, d := range []string{"bin", "nobin", "canary", "inst", "fresh"} {
		os.RemoveAll(filepath.Join(ctx.Work, d))
	}
}

type vsInst struct {
	p      *plugin
	env    vsEnv
	root   string
	runDir string
}

func vsSafeDirName(s string) bool {
	if s == "" || len(s) > 100 {
		return false
	}
	for _, c := range []byte(s) {
		if !(c >= 'a' && c <= 'z' || c >= '0' && c <= '9' || c == '-') {
			return false
		}
	}
	return true
}

func vsNewInst(ctx *vsCtx, env vsEnv, slot string) *vsInst {
	switch env.LogLevel { // flags -v / -vv of main()
	case 1:
		log.SetLevel(logrus.DebugLevel)
	case 2:
		log.SetLevel(logrus.TraceLevel)
	default:
		log.SetLevel(logrus.InfoLevel)
	}
	in := &vsInst{env: env, root: filepath.Join(ctx.Work, slot)}
	in.runDir = filepath.Join(in.root, "run", "d1", "d2", "d3", "d4")
	cg := filepath.Join(in.root, "cgroup")
	if slot != "fresh" { // a fresh twin only ever serves Configure and canary calls (own directories)
		if _, err := os.Lstat(in.root); err == nil {
			os.RemoveAll(in.root)
		}
		if env.RunDirBad {
			os.MkdirAll(filepath.Dir(in.runDir), 0o755)
			os.WriteFile(in.runDir, []byte("not a directory"), 0o644)
		}
		if env.Cgroup >= 1 {
			os.MkdirAll(filepath.Join(cg, "kubepods.slice", "kubepods-besteffort.slice"), 0o755)
		}
		if env.Cgroup >= 2 {
			for _, id := range env.CgIDs {
				if vsSafeDirName(string(id)) {
					os.Mkdir(filepath.Join(cg, "kubepods.slice", "kubepods-besteffort.slice", "cri-containerd-"+string(id)+".scope"), 0o755)
				}
			}
		}
	}
	// as main() does
	in.p = &plugin{ctrMemtierdEnv: map[string]*memtierdEnv{}}
	in.p.cgroupsDir = cg
	return in
}

func (in *vsInst) close() {
	for _, me := range in.p.ctrMemtierdEnv {
		if me != nil && me.cmd != nil && me.cmd.Process != nil {
			me.cmd.Process.Kill()
			me.cmd.Wait()
		}
	}
	vsReap()
	if _, err := os.Lstat(in.root); err == nil {
		os.RemoveAll(in.root)
	}
}

func vsUnsafeName(s string) bool { return strings.Contains(s, "/") || s == "." || s == ".." }

func (in *vsInst) call(st *vsStep) vsRes {
	opt.runDir = in.runDir
	if in.env.Bin {
		os.Setenv("PATH", vsBinDir)
	} else {
		os.Setenv("PATH", vsNoBinDir)
	}
	return in.dispatch(st, in.runDir)
}

// canaryCall: the benign request arrives in a benign environment (memtierd installed, cgroup of the
// container exists, run directory usable) - the environment is not plugin state.
func (in *vsInst) canaryCall(st *vsStep) vsRes {
	cg := in.p.cgroupsDir
	in.p.cgroupsDir = vsCanaryCg
	opt.runDir = vsCanaryRun
	os.Setenv("PATH", vsBinDir)
	res := in.dispatch(st, vsCanaryRun)
	in.p.cgroupsDir = cg
	return res
}

func (in *vsInst) dispatch(st *vsStep, runDir string) vsRes {
	var res vsRes
	if st.Op == "Configure" {
		cfg := ""
		if st.Config != nil {
			cfg = string(*st.Config)
		}
		mask, err := in.p.Configure(context.Background(), cfg, "verif-runtime", "v0")
		vsAdjust(&res, nil, nil, err)
		res.Extra = fmt.Sprintf("mask=%d", mask)
		return res
	}
	if st.Ctr == nil {
		return vsRes{Extra: "skipped: no container in step"}
	}
	if st.Pod != nil && !st.Pod.Nil && (vsUnsafeName(string(st.Pod.NS)) || vsUnsafeName(string(st.Pod.Name))) || vsUnsafeName(string(st.Ctr.Name)) {
		return vsRes{Extra: "skipped: name would leave the run directory"}
	}
	pod, ctr := st.Pod.build(nil), st.Ctr.build()
	switch st.Op {
	case "CreateContainer":
		adj, upd, err := in.p.CreateContainer(context.Background(), pod, ctr)
		vsAdjust(&res, adj, upd, err)
	case "StartContainer":
		err := in.p.StartContainer(context.Background(), pod, ctr)
		vsAdjust(&res, nil, nil, err)
		if me := in.p.ctrMemtierdEnv[pprintCtr(pod, ctr)]; me != nil && me.cmd != nil && err == nil {
			vsStarted++
		}
		res.Extra = vsReadCfg(runDir, pod, ctr)
	case "StopContainer":
		upd, err := in.p.StopContainer(context.Background(), pod, ctr)
		vsAdjust(&res, nil, upd, err)
	default:
		res.Extra = "skipped: handler not implemented by this plugin: " + st.Op
	}
	return res
}

// vsReadCfg: the memtierd configuration the plugin instantiated for the container, if any.
func vsReadCfg(runDir string, pod *api.PodSandbox, ctr *api.Container) string {
	b, err := os.ReadFile(fmt.Sprintf("%s/%s/%s/%s/memtierd.config.yaml", runDir, pod.GetNamespace(), pod.GetName(), ctr.GetName()))
	if err != nil {
		return ""
	}
	if len(b) > 300 {
		return fmt.Sprintf("cfg#%016x/%d", vsHashStr(string(b)), len(b))
	}
	return "cfg:" + string(b)
}

// ---- C14 dictionaries

func vsGenConfig(r *vsRNG) (string, string) {
	switch r.Intn(16) {
	case 0:
		return "", "empty"
	case 1:
		return vsCanaryConfig, "valid-canary"
	case 2, 3, 4, 5:
		var sb strings.Builder
		n := r.Range(0, 4)
		if n == 0 {
			sb.WriteString("classes: []\n")
		} else {
			sb.WriteString("classes:\n")
		}
		for i := 0; i < n; i++ {
			fmt.Fprintf(&sb, "- name: %s\n", vsPick(r, []string{"verif-gold", "gold", "gold", "silver", "bronze", "\"\"", "\"a b\"", "null", "\"класс\"", "max", "\"0\""}))
			if r.Chance(2, 3) {
				fmt.Fprintf(&sb, "  allowswap: %s\n", vsPick(r, []string{"true", "false", "true", "false", "null", "~"}))
			}
			if r.Chance(2, 3) {
				fmt.Fprintf(&sb, "  memtierdconfig: %s\n", vsPick(r, []string{"\"policy: $CGROUP2_ABS_PATH\"", "\"x\"", "\"\"", "|\n    policy:\n      name: age\n      config: |\n        cgroups:\n          - $CGROUP2_ABS_PATH\n",
					"\"$CGROUP2_ABS_PATH$CGROUP2_ABS_PATH$MEMTIERD_SWAP_STATS_PATH\"", "\"\\xff\\x00\"", "\"" + strings.Repeat("$CGROUP2_ABS_PATH ", 2000) + "\""}))
			}
		}
		return sb.String(), "valid"
	case 6:
		return vsPick(r, []string{"classes: [", "\t", "{{", ": :", "classes:\n- name: x\n   allowswap: true", "\"", "a: b: c", "- a\nb: c",
			"classes: &a [*a", "\x00", "\xff\xfe", "classes:\n\t- name: x", "classes: []\nclasses: []", "%", "@", "`"}), "malformed"
	case 7, 8:
		return vsPick(r, []string{"classes: 5", "classes: {a: b}", "- a\n- b", "42", "null", "~", "classes:\n- 7", "classes:\n- name: [1,2]",
			"classes:\n- name: gold\n  allowswap: yes", "classes:\n- name: gold\n  allowswap: 5", "classes:\n- name: gold\n  allowswap: \"true\"", "classes:\n- name: gold\n  allowswap: [true]",
			"classes:\n- name: gold\n  memtierdconfig: {policy: {name: age}}", "classes:\n- name: gold\n  memtierdconfig: [1]", "classes:\n- name: gold\n  memtierdconfig: 7",
			"classes: null", "classes: [null]", "classes: [[]]", "Classes:\n- Name: gold", "foo: bar", "true", "\"string\"", "[]", "{}",
			"classes:\n- name: true\n- name: 1.5\n- name: 0x10"}), "wrong-shape"
	case 9:
		v, cl := vsGenValue(r, []string{vsCanaryConfig})
		return v, "hostile-" + cl
	case 10:
		return vsPick(r, []string{`{"classes":[{"name":"gold","allowswap":true,"memtierdconfig":"x $CGROUP2_ABS_PATH"}]}`,
			`{"classes":[{"name":"gold","name":"silver","allowswap":false}]}`, `{"classes":[{"name":"gold","extra":{"a":[1,2,3]}}],"more":1}`,
			`{"classes":[{"name":"gold","allowswap":true}]`, `{"classes":[{"NAME":"gold","AllowSwap":true,"MemtierdConfig":"y"}]}`}), "json"
	case 11:
		var sb strings.Builder
		sb.WriteString("classes:\n")
		n := r.Range(100, 2500)
		for i := 0; i < n; i++ {
			fmt.Fprintf(&sb, "- name: c%d\n  allowswap: true\n", i)
		}
		sb.WriteString("- name: verif-gold\n  allowswap: true\n  memtierdconfig: \"x\"\n")
		return sb.String(), "huge"
	}
	// every class used in annotations launches a memtierd
	return "classes:\n- name: gold\n  allowswap: true\n  memtierdconfig: \"cg=$CGROUP2_ABS_PATH\"\n- name: silver\n  memtierdconfig: \"s\"\n- name: bronze\n  allowswap: false\n  memtierdconfig: \"b\"\n- name: \"\"\n  memtierdconfig: \"e\"\n", "valid-all-memtierd"
}

func vsGenAnnKey(r *vsRNG, ctr string, others []string) string {
	base := vsPick(r, []string{"class", "class", "class", "class", "memory.high", "memory.swap.max", "memory.swap.max", "memory.oom.group", "", "x"})
	switch r.Intn(8) {
	case 0, 1, 2:
		return base + vsSuffix
	case 3, 4:
		return base + vsSuffix + "/" + ctr
	case 5:
		return base + vsSuffix + "/" + vsPick(r, others)
	case 6:
		return base + vsSuffix + vsPick(r, []string{"/", "/pod", "/container." + ctr, "x", "/" + ctr + "/" + ctr})
	}
	return vsPick(r, []string{"", "/", "x"}) + base + vsSuffix
}

func vsBenignAnn(r *vsRNG, ctr string) []vsKV {
	ann := []vsKV{{vsS("class" + vsSuffix), vsS(vsPick(r, []string{"gold", "silver", "bronze", "verif-gold"}))}}
	if r.Chance(1, 3) {
		ann = append(ann, vsKV{vsS("class" + vsSuffix + "/" + ctr), vsS(vsPick(r, []string{"gold", "silver", "bronze", ""}))})
	}
	if r.Chance(1, 3) {
		ann = append(ann, vsKV{vsS("memory.swap.max" + vsSuffix), "max"})
	}
	return ann
}

// ---- canary

const vsCanaryConfig = "classes:\n- name: verif-gold\n  allowswap: true\n  memtierdconfig: \"verif cg=$CGROUP2_ABS_PATH\"\n- name: verif-silver\n  allowswap: false\n- name: verif-plain\n"

// vsCanarySteps: see the memory-qos driver for why the differential canary (full=false) uses pods
// with a single annotation. memtierd's CreateContainer refuses only for the class annotation, so
// multi-annotation pods are deterministic here as well, but the same layout is kept.
func vsCanarySteps(full bool) []vsStep {
	pod := &vsPod{ID: "verif-canary-pod", Name: "verif-canary", UID: "verif-uid", NS: "verif-canary", Ann: []vsKV{
		{"class.memtierd.nri.io", "verif-gold"},
		{"memory.high.memtierd.nri.io/verif-c0", "max"},
		{"class.memtierd.nri.io/verif-c1", "verif-silver"}}}
	podA := &vsPod{ID: "verif-canary-podA", Name: "verif-canaryA", UID: "verif-uidA", NS: "verif-canary", Ann: []vsKV{{"class.memtierd.nri.io", "verif-gold"}}}
	podB := &vsPod{ID: "verif-canary-podB", Name: "verif-canaryB", UID: "verif-uidB", NS: "verif-canary", Ann: []vsKV{{"memory.swap.max.memtierd.nri.io/verif-c0", "0"}}}
	plain := &vsPod{ID: "verif-canary-pod2", Name: "verif-canary2", UID: "verif-uid2", NS: "verif-canary", Ann: []vsKV{{"io.kubernetes.pod.name", "x"}}}
	c0 := &vsCtr{ID: "verif-canary-c0", PodID: "verif-canary-pod", Name: "verif-c0", Depth: 4, Limit: 1 << 30, Cpu: true, CgroupsPath: "kubepods.slice:cri-containerd:verif-canary-c0"}
	c1 := &vsCtr{ID: "verif-canary-c1", PodID: "verif-canary-pod", Name: "verif-c1", Depth: 4, Limit: 1 << 30, Cpu: true, CgroupsPath: "kubepods.slice:cri-containerd:verif-canary-c1"}
	if !full {
		return []vsStep{
			{Op: "CreateContainer", Pod: podA, Ctr: c0},
			{Op: "StartContainer", Pod: podA, Ctr: c0},
			{Op: "StopContainer", Pod: podA, Ctr: c0},
			{Op: "CreateContainer", Pod: podB, Ctr: c0},
			{Op: "CreateContainer", Pod: plain, Ctr: c0},
			{Op: "StartContainer", Pod: plain, Ctr: c0},
			{Op: "StopContainer", Pod: plain, Ctr: c0}}
	}
	c := vsS(vsCanaryConfig)
	return []vsStep{
		{Op: "Configure", Config: &c},
		{Op: "CreateContainer", Pod: pod, Ctr: c0},
		{Op: "StartContainer", Pod: pod, Ctr: c0},
		{Op: "CreateContainer", Pod: pod, Ctr: c1},
		{Op: "StartContainer", Pod: pod, Ctr: c1},
		{Op: "StopContainer", Pod: pod, Ctr: c1},
		{Op: "StopContainer", Pod: pod, Ctr: c0},
		{Op: "CreateContainer", Pod: plain, Ctr: c0},
		{Op: "StartContainer", Pod: plain, Ctr: c0},
		{Op: "StopContainer", Pod: plain, Ctr: c0}}
}

// vsCheckCanary: the documented answers of the full canary (harness self-check on a fresh instance).
func vsCheckCanary(res []vsRes) error {
	if len(res) != 10 {
		return fmt.Errorf("%d replies", len(res))
	}
	if !vsSameUnified(res[1].Unified, map[string]string{"memory.high": "max", "memory.swap.max": "max"}) {
		return fmt.Errorf("verif-c0: %s", vsFmtMap(res[1].Unified))
	}
	want := "cfg:verif cg=" + filepath.Join(vsCanaryCg, "kubepods.slice", "cri-containerd-verif-canary-c0.scope")
	if res[2].Extra != want {
		return fmt.Errorf("StartContainer verif-c0: observed %q, want %q", res[2].Extra, want)
	}
	if !vsSameUnified(res[3].Unified, map[string]string{"memory.swap.max": "0"}) {
		return fmt.Errorf("verif-c1: %s", vsFmtMap(res[3].Unified))
	}
	if res[4].Extra != "" {
		return fmt.Errorf("StartContainer verif-c1 (class without memtierdconfig): observed %q", res[4].Extra)
	}
	if len(res[7].Unified) != 0 || res[8].Extra != "" {
		return fmt.Errorf("un-annotated pod: %s %q", vsFmtMap(res[7].Unified), res[8].Extra)
	}
	return nil
}

// ---- C18

type vsMTClass struct {
	Name      string `json:"name"`
	AllowSwap *bool  `json:"allowswap,omitempty"`
	Memtierd  bool   `json:"memtierd,omitempty"` // class has a memtierdconfig ("cls=<name> cg=$CGROUP2_ABS_PATH")
}

type vsC18Case struct {
	Classes []vsMTClass `json:"classes"`
	Names   []string    `json:"names"`  // containers of the pod
	Target  string      `json:"target"` // the container being created / started
	Ann     []vsKV      `json:"ann"`
	Roles   []string    `json:"roles"` // per annotation: <base>:<ctr|pod|other|lookalike> (diagnostics only)
	// Pred: classes of earlier incarnations of the same namespace/pod/container names, each created,
	// started and stopped with the pod-wide annotation class=<name> before the evaluations. The
	// documented decision depends on the current annotations only, so they must not change any answer.
	Pred []string `json:"pred,omitempty"`
}

func (cs *vsC18Case) configYAML() string {
	var sb strings.Builder
	sb.WriteString("classes:\n")
	for _, c := range cs.Classes {
		fmt.Fprintf(&sb, "- name: %q\n", c.Name)
		if c.AllowSwap != nil {
			fmt.Fprintf(&sb, "  allowswap: %v\n", *c.AllowSwap)
		}
		if c.Memtierd {
			fmt.Fprintf(&sb, "  memtierdconfig: %q\n", "cls="+c.Name+" cg=$CGROUP2_ABS_PATH")
		}
	}
	return sb.String()
}

func vsGenC18(r *vsRNG) *vsC18Case {
	cs := &vsC18Case{Names: vsNameFamily(r)}
	cs.Target = vsPick(r, cs.Names)
	others := []string{}
	for _, n := range cs.Names {
		if n != cs.Target {
			others = append(others, n)
		}
	}
	cnames := []string{"gold", "silver", "bronze", "c0", "pod", "a-b", "x.y", cs.Target}
	vsShuffle(r, cnames)
	ncl := r.Range(2, 4)
	seen := map[string]bool{}
	t, f := true, false
	for i := 0; len(cs.Classes) < ncl && i < len(cnames); i++ {
		if seen[cnames[i]] {
			continue
		}
		seen[cnames[i]] = true
		c := vsMTClass{Name: cnames[i], Memtierd: r.Chance(1, 2)}
		switch r.Intn(3) {
		case 0:
			c.AllowSwap = &t
		case 1:
			c.AllowSwap = &f
		}
		cs.Classes = append(cs.Classes, c)
	}
	bases := []string{"class", "class", "class", "memory.high", "memory.swap.max", "memory.swap.max", "memory.oom.group"}
	vsShuffle(r, bases)
	nb := r.Range(1, 3)
	used := map[string]bool{}
	vcount := 0
	val := func(base string) string {
		if base == "class" {
			switch {
			case r.Chance(6, 100):
				return ""
			case r.Chance(4, 100):
				return "no-such-class"
			}
			return vsPick(r, cs.Classes).Name
		}
		vcount++
		return fmt.Sprintf("v%d", vcount)
	}
	add := func(k, v, role string) {
		for _, kv := range cs.Ann {
			if string(kv.K) == k {
				return
			}
		}
		cs.Ann = append(cs.Ann, vsKV{vsS(k), vsS(v)})
		cs.Roles = append(cs.Roles, role)
	}
	for _, b := range bases {
		if used[b] || len(used) >= nb {
			continue
		}
		used[b] = true
		mask := r.Range(1, 7) // bit0 container-specific, bit1 pod-wide, bit2 other containers
		if mask&1 != 0 {
			add(b+vsSuffix+"/"+cs.Target, val(b), b+":ctr")
		}
		if mask&2 != 0 {
			add(b+vsSuffix, val(b), b+":pod")
		}
		if mask&4 != 0 && len(others) > 0 {
			for i := r.Range(1, 2); i > 0; i-- {
				add(b+vsSuffix+"/"+vsPick(r, others), val(b), b+":other")
			}
		}
		if r.Chance(1, 4) { // keys that look similar but are addressed to nobody / to another plugin
			k := vsPick(r, []string{b + vsSuffix + "/", b + vsSuffix + "/" + cs.Target + "x", b + vsSuffix + "/x" + cs.Target, b + vsSuffix + "x",
				b + ".memory-qos.nri.io", b + ".memory-qos.nri.io/" + cs.Target, b + vsSuffix + "/container." + cs.Target, b + vsSuffix + "/pod",
				b + vsSuffix + "/" + strings.ToUpper(cs.Target), b + "/" + cs.Target, b + vsSuffix + "/" + cs.Target + "/", b + vsSuffix + "." + cs.Target})
			if !vsMTAddressed(k, cs.Target) {
				add(k, val(b), b+":lookalike")
			}
		}
	}
	idx := r.Intn(len(cs.Ann) + 1)
	cs.Ann = append(cs.Ann[idx:], cs.Ann[:idx]...)
	cs.Roles = append(cs.Roles[idx:], cs.Roles[:idx]...)
	if r.Chance(1, 2) {
		for _, c := range cs.Classes {
			if r.Chance(2, 3) {
				cs.Pred = append(cs.Pred, c.Name)
			}
		}
	}
	return cs
}

// vsMTAddressed: does the documented syntax make key k an annotation for container target (either form)?
func vsMTAddressed(k, target string) bool {
	return strings.HasSuffix(k, vsSuffix) || strings.HasSuffix(k, vsSuffix+"/"+target)
}

// vsMTEffective is the reference resolver: container-specific form beats pod-wide form; every
// other key is not for this container.
func vsMTEffective(ann []vsKV, target string) (eff map[string]string, form map[string]string) {
	pod, ctr := map[string]string{}, map[string]string{}
	for _, kv := range ann {
		k := string(kv.K)
		if b, ok := strings.CutSuffix(k, vsSuffix+"/"+target); ok {
			if _, dup := ctr[b]; !dup {
				ctr[b] = string(kv.V)
			}
		} else if b, ok := strings.CutSuffix(k, vsSuffix); ok {
			if _, dup := pod[b]; !dup {
				pod[b] = string(kv.V)
			}
		}
	}
	eff, form = map[string]string{}, map[string]string{}
	for b, v := range pod {
		eff[b], form[b] = v, "pod"
	}
	for b, v := range ctr {
		if _, both := pod[b]; both {
			form[b] = "ctr-over-pod"
		} else {
			form[b] = "ctr"
		}
		eff[b] = v
	}
	return eff, form
}

type vsMTExpect struct {
	mustRefuse string            // non-empty: Create/Start must be refused (class not configured)
	class      *vsMTClass        // effective class, nil if none / ""
	exact      map[string]string // explicitly annotated memory.swap.max / memory.high
	swapMax    string            // class-derived memory.swap.max unless explicit ("" = untouched)
	unknown    []string          // other annotated parameters: the documentation knows none; they must not show up
}

func vsMTReference(cs *vsC18Case, ann []vsKV) vsMTExpect {
	eff, _ := vsMTEffective(ann, cs.Target)
	ex := vsMTExpect{exact: map[string]string{}}
	keys := make([]string, 0, len(eff))
	for b := range eff {
		keys = append(keys, b)
	}
	sort.Strings(keys)
	for _, b := range keys {
		v := eff[b]
		switch b {
		case "class":
			if v == "" {
				continue
			}
			for i := range cs.Classes {
				if cs.Classes[i].Name == v {
					ex.class = &cs.Classes[i]
					break
				}
			}
			if ex.class == nil {
				ex.mustRefuse = fmt.Sprintf("class %q is not configured", v)
			} else if ex.class.AllowSwap != nil {
				ex.swapMax = "0"
				if *ex.class.AllowSwap {
					ex.swapMax = "max"
				}
			}
		case "memory.swap.max", "memory.high":
			ex.exact[b] = v
		default:
			ex.unknown = append(ex.unknown, b)
		}
	}
	return ex
}

func vsRoleOfValue(cs *vsC18Case, v string) string {
	for i, kv := range cs.Ann {
		if string(kv.V) == v && i < len(cs.Roles) {
			return cs.Roles[i]
		}
	}
	return "?"
}

// vsMTJudgeCreate compares one CreateContainer reply with the reference.
func vsMTJudgeCreate(cs *vsC18Case, ann []vsKV, res vsRes) []vsFinding {
	ex := vsMTReference(cs, ann)
	_, form := vsMTEffective(ann, cs.Target)
	var out []vsFinding
	bad := func(check, sig, format string, args ...interface{}) {
		out = append(out, vsFinding{Check: check, Sig: vsPlugin + ".CreateContainer:" + sig, Msg: fmt.Sprintf(format, args...)})
	}
	if res.Panic != "" {
		bad("panic", "panic@"+res.Site, "panicked: %s", res.Panic)
		return out
	}
	if ex.mustRefuse != "" {
		if !res.Failed {
			bad("unknown-class", "unknown-class-accepted", "%s but the request succeeded with unified=%s", ex.mustRefuse, vsFmtMap(res.Unified))
		}
		return out
	}
	if res.Failed {
		bad("refused", "unexpected-refusal:class="+form["class"], "all effective annotations are valid but the request was refused: %s", res.Err)
		return out
	}
	want := map[string]string{}
	if ex.swapMax != "" {
		want["memory.swap.max"] = ex.swapMax
	}
	for b, v := range ex.exact {
		want[b] = v // explicit parameter overrides the class
	}
	got := res.Unified
	for b, v := range want {
		g, ok := got[b]
		if ok && g == v {
			continue
		}
		src := "nothing"
		if ok {
			if src = vsRoleOfValue(cs, g); src == "?" {
				src = "class-derived"
			}
		}
		if _, explicit := ex.exact[b]; explicit {
			bad("precedence", fmt.Sprintf("%s:want=%s:got=%s", b, form[b], src), "unified[%q]=%q (present=%v), the effective annotation (%s form) says %q", b, g, ok, form[b], v)
		} else {
			bad("class-derived", fmt.Sprintf("%s:class=%s:got=%s", b, form["class"], src), "unified[%q]=%q (present=%v), class %q (allowswap=%v) implies %q", b, g, ok, ex.class.Name, *ex.class.AllowSwap, v)
		}
	}
	for b, g := range got {
		if _, ok := want[b]; !ok {
			bad("foreign-effect", b+":from="+vsRoleOfValue(cs, g), "unified[%q]=%q although no effective annotation or class of container %q defines it", b, g, cs.Target)
		}
	}
	return out
}

// vsMTJudgeStart compares one StartContainer observation with the reference. binary: a memtierd
// executable was in PATH.
func vsMTJudgeStart(cs *vsC18Case, ann []vsKV, res vsRes, cgPath string, binary bool) []vsFinding {
	ex := vsMTReference(cs, ann)
	_, form := vsMTEffective(ann, cs.Target)
	var out []vsFinding
	bad := func(check, sig, format string, args ...interface{}) {
		out = append(out, vsFinding{Check: check, Sig: vsPlugin + ".StartContainer:" + sig, Msg: fmt.Sprintf(format, args...)})
	}
	switch {
	case res.Panic != "":
		bad("panic", "panic@"+res.Site, "panicked: %s", res.Panic)
	case ex.mustRefuse != "":
		if !res.Failed {
			bad("unknown-class", "unknown-class-accepted", "%s but StartContainer succeeded", ex.mustRefuse)
		}
		if res.Extra != "" {
			bad("start-class", "memtierd-prepared-for-unknown-class", "%s but a memtierd configuration was written: %s", ex.mustRefuse, res.Extra)
		}
	case ex.class == nil || !ex.class.Memtierd:
		if res.Failed {
			bad("refused", "unexpected-refusal:class="+form["class"], "the effective class launches no memtierd but StartContainer was refused: %s", res.Err)
		}
		if res.Extra != "" {
			bad("start-class", "memtierd-prepared-without-class:class="+form["class"], "the effective class launches no memtierd but a configuration was written: %s", res.Extra)
		}
	default:
		want := "cfg:cls=" + ex.class.Name + " cg=" + cgPath
		if res.Extra != want {
			bad("start-class", "wrong-memtierd-config:class="+form["class"], "memtierd configuration written: %q, the effective class %q (%s form) implies %q", res.Extra, ex.class.Name, form["class"], want)
		}
		if binary && res.Failed {
			bad("refused", "unexpected-refusal:class="+form["class"], "memtierd is installed but StartContainer was refused: %s", res.Err)
		}
	}
	return out
}

const vsC18StartEvals = 4

func vsRunC18(ctx *vsCtx, cs *vsC18Case, idx int, perm *vsRNG) {
	for _, n := range append([]string{cs.Target}, cs.Names...) {
		if vsUnsafeName(n) {
			ctx.Harness("unsafe container name %q in C18 case", n)
			return
		}
	}
	ctx.logCase(idx, cs)
	in := vsNewInst(ctx, vsEnv{LogLevel: idx % 3, Cgroup: 2, CgIDs: []vsS{"ctr0"}, Bin: idx%4 == 0}, "inst")
	defer in.close()
	cgPath := filepath.Join(in.p.cgroupsDir, "kubepods.slice", "kubepods-besteffort.slice", "cri-containerd-ctr0.scope")
	cfg := vsS(cs.configYAML())
	if r := vsExec(ctx, in, &vsStep{Op: "Configure", Config: &cfg}, idx, -1); r.outcome() != "ok" {
		ctx.Harness("C18 configuration refused: %s\n%s", r.key(), cfg)
		return
	}
	reported := map[string]bool{}
	report := func(fs []vsFinding, eval string) {
		for _, f := range fs {
			if !reported[f.Check+"|"+f.Sig] {
				reported[f.Check+"|"+f.Sig] = true
				ctx.Violate(f.Check, f.Sig, cs, "evaluation %s for container %q: %s", eval, cs.Target, f.Msg)
			}
		}
	}
	ctr := &vsCtr{ID: "ctr0", PodID: "pod0", Name: vsS(cs.Target), Depth: 4, Limit: 1 << 30, Cpu: true, CgroupsPath: "kubepods-besteffort.slice:cri-containerd:ctr0"}
	run := func(op string, ann []vsKV, p *vsRNG) vsRes {
		// the annotation map is built here (shuffled insertion order), then handed to the handler
		st := &vsStep{Op: op, Pod: &vsPod{ID: "pod0", Name: "p0", UID: "uid0", NS: "default", Ann: ann}, Ctr: ctr}
		opt.runDir = in.runDir
		if in.env.Bin {
			os.Setenv("PATH", vsBinDir)
		} else {
			os.Setenv("PATH", vsNoBinDir)
		}
		var res vsRes
		msg, site := vsGuard(func() {
			pod, c := st.Pod.build(p), st.Ctr.build()
			switch op {
			case "CreateContainer":
				adj, upd, err := in.p.CreateContainer(context.Background(), pod, c)
				vsAdjust(&res, adj, upd, err)
			case "StartContainer":
				err := in.p.StartContainer(context.Background(), pod, c)
				vsAdjust(&res, nil, nil, err)
				if err == nil && in.p.ctrMemtierdEnv[pprintCtr(pod, c)] != nil {
					vsStarted++
				}
				res.Extra = vsReadCfg(in.runDir, pod, c)
				// leave nothing behind for the next evaluation
				if m, site := vsGuard(func() { in.p.StopContainer(context.Background(), pod, c) }); m != "" {
					report([]vsFinding{{Check: "panic", Sig: vsPlugin + ".StopContainer:panic@" + site, Msg: "clean-up StopContainer panicked: " + m}}, "stop")
				}
				os.RemoveAll(filepath.Join(in.runDir, "default"))
			}
		})
		if msg != "" {
			res = vsRes{Panic: msg, Site: site}
		}
		return res
	}
	for i, cl := range cs.Pred {
		// an earlier pod of the same name, judged by the same reference on its own annotations
		ctx.logStep("case %d predecessor %d class %q %s.CreateContainer+StartContainer", idx, i, cl, vsPlugin)
		pann := []vsKV{{vsS("class" + vsSuffix), vsS(cl)}}
		pres := run("CreateContainer", pann, nil)
		report(vsMTJudgeCreate(cs, pann, pres), "pred-"+strconv.Itoa(i))
		pst := run("StartContainer", pann, nil)
		report(vsMTJudgeStart(cs, pann, pst, cgPath, in.env.Bin), "pred-start-"+strconv.Itoa(i))
		ctx.Eval()
		ctx.Eval()
		ctx.Count("predecessor_incarnations")
	}
	if len(cs.Pred) > 0 {
		ctx.Count("cases_with_predecessor_incarnations")
	}
	var first vsRes
	for e := 0; e < vsEvals; e++ {
		ctx.logStep("case %d evaluation %d %s.CreateContainer", idx, e, vsPlugin)
		p := perm
		if e == 0 {
			p = nil // list order
		}
		res := run("CreateContainer", cs.Ann, p)
		ctx.Eval()
		report(vsMTJudgeCreate(cs, cs.Ann, res), strconv.Itoa(e))
		if e == 0 {
			first = res
		} else if res.outcome() != first.outcome() || !vsSameUnified(res.Unified, first.Unified) {
			report([]vsFinding{{Check: "order", Sig: vsPlugin + ".CreateContainer:order-dependent", Msg: fmt.Sprintf("answers %s unified=%s, evaluation 0 answered %s unified=%s",
				res.outcome(), vsFmtMap(res.Unified), first.outcome(), vsFmtMap(first.Unified))}}, strconv.Itoa(e))
		}
	}
	var firstStart vsRes
	for e := 0; e < vsC18StartEvals; e++ {
		ctx.logStep("case %d evaluation %d %s.StartContainer", idx, e, vsPlugin)
		res := run("StartContainer", cs.Ann, perm)
		ctx.Eval()
		ctx.Count("start_evaluations")
		report(vsMTJudgeStart(cs, cs.Ann, res, cgPath, in.env.Bin), "start-"+strconv.Itoa(e))
		if e == 0 {
			firstStart = res
		} else if res.outcome() != firstStart.outcome() || res.Extra != firstStart.Extra {
			report([]vsFinding{{Check: "order", Sig: vsPlugin + ".StartContainer:order-dependent", Msg: fmt.Sprintf("answers %s %q, evaluation 0 answered %s %q",
				res.outcome(), res.Extra, firstStart.outcome(), firstStart.Extra)}}, "start-"+strconv.Itoa(e))
		}
	}
	// annotations that the reference says are not for the target must have no effect: same answers
	// on the map reduced to the effective annotations (written in the pod-wide form)
	eff, form := vsMTEffective(cs.Ann, cs.Target)
	bases := make([]string, 0, len(eff))
	for b := range eff {
		bases = append(bases, b)
	}
	sort.Strings(bases)
	reduced := []vsKV{}
	for _, b := range bases {
		reduced = append(reduced, vsKV{vsS(b + vsSuffix), vsS(eff[b])})
	}
	ctx.logStep("case %d reduced map %s.CreateContainer+StartContainer", idx, vsPlugin)
	red := run("CreateContainer", reduced, nil)
	redStart := run("StartContainer", reduced, nil)
	ctx.Eval()
	ctx.Eval()
	if red.outcome() != first.outcome() || !vsSameUnified(red.Unified, first.Unified) {
		report([]vsFinding{{Check: "others-no-effect", Sig: vsPlugin + ".CreateContainer:reduced-map-differs", Msg: fmt.Sprintf("full map answers %s unified=%s, the map holding only the effective annotations answers %s unified=%s",
			first.outcome(), vsFmtMap(first.Unified), red.outcome(), vsFmtMap(red.Unified))}}, "reduced")
	}
	if redStart.outcome() != firstStart.outcome() || redStart.Extra != firstStart.Extra {
		report([]vsFinding{{Check: "others-no-effect", Sig: vsPlugin + ".StartContainer:reduced-map-differs", Msg: fmt.Sprintf("full map answers %s %q, the map holding only the effective annotations answers %s %q",
			firstStart.outcome(), firstStart.Extra, redStart.outcome(), redStart.Extra)}}, "reduced")
	}
	// statistics and distinctness
	ex := vsMTReference(cs, cs.Ann)
	shape := []string{}
	nontrivial := false
	nOther, nLook := 0, 0
	for _, role := range cs.Roles {
		if strings.HasSuffix(role, ":other") {
			nOther++
		}
		if strings.HasSuffix(role, ":lookalike") {
			nLook++
		}
	}
	for _, b := range bases {
		ctx.Count("target_form_" + form[b])
		shape = append(shape, b+"="+form[b])
		if form[b] == "ctr-over-pod" {
			nontrivial = true
		}
	}
	if nOther > 0 {
		ctx.Count("maps_with_other_container_annotations")
		nontrivial = true
	}
	if nLook > 0 {
		ctx.Count("maps_with_lookalike_keys")
		nontrivial = true
	}
	kind := "none"
	if ex.class != nil {
		ctx.Count("class_applied")
		kind = fmt.Sprintf("swap=%s,memtierd=%v", ex.swapMax, ex.class.Memtierd)
		if ex.class.Memtierd {
			ctx.Count("class_launches_memtierd")
		}
		if _, ok := ex.exact["memory.swap.max"]; ok && ex.swapMax != "" {
			ctx.Count("explicit_param_vs_class_conflict")
			nontrivial = true
		}
	}
	if v, ok := eff["class"]; ok && v == "" {
		ctx.Count("empty_class")
		kind = "empty"
	}
	if ex.mustRefuse != "" {
		ctx.Count("unknown_class")
		kind = "unknown"
	}
	if len(ex.unknown) > 0 {
		ctx.Count("undocumented_param_annotated")
	}
	rel := "names="
	for _, n := range cs.Names {
		switch {
		case n == cs.Target:
		case strings.HasPrefix(n, cs.Target) || strings.HasPrefix(cs.Target, n):
			rel += "P"
			ctx.Count("other_name_is_prefix_related")
		case strings.HasSuffix(n, cs.Target) || strings.HasSuffix(cs.Target, n):
			rel += "S"
			ctx.Count("other_name_is_suffix_related")
		default:
			rel += "-"
		}
	}
	if strings.ContainsAny(cs.Target, "-.") {
		ctx.Count("target_name_has_separator")
	}
	ctx.Count("outcome_" + first.outcome())
	ctx.Count("start_outcome_" + firstStart.outcome())
	if nontrivial {
		ctx.See(fmt.Sprintf("%s|%s|o%d|l%d|%s|%s|%s", rel, strings.Join(shape, ","), nOther, nLook, first.outcome(), firstStart.outcome(), kind))
	}
}

func vsDriveC18(ctx *vsCtx) {
	if ctx.Replay != "" {
		var cs vsC18Case
		if err := vsLoadCase(ctx.Replay, &cs); err != nil {
			ctx.Harness("cannot load %s: %v", ctx.Replay, err)
			return
		}
		vsRunC18(ctx, &cs, 0, vsNewRNG(1))
		return
	}
	for i := 0; i < ctx.N; i++ {
		r := ctx.RNG.Fork()
		cs := vsGenC18(r)
		ctx.Count("maps")
		if i < 3 {
			ctx.Sample(cs)
		}
		vsRunC18(ctx, cs, i, r)
	}
}
