//go:build verif

package cache

import "sort"

// VerifImplicitAffinities lists the names of the implicit affinities registered in the cache (policy state that lives
// outside the policy and steers the placement of later containers).
func VerifImplicitAffinities(c Cache) []string {
	cch, ok := c.(*cache)
	if !ok {
		return nil
	}
	var names []string
	for n := range cch.implicit {
		names = append(names, n)
	}
	sort.Strings(names)
	return names
}
