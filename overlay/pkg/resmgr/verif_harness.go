//go:build verif

// Verification harness (build tag "verif", injected with `go build -overlay`).
// It builds the *real* resource manager (cache, policy layer, controllers) by the
// same steps as NewResourceManager/start, minus the NRI/ttrpc connection and the
// PID file, and exposes the real nriPlugin handler methods to an external driver.
package resmgr

import (
	"context"
	"sync"

	"github.com/containerd/nri/pkg/api"
	cfgapi "github.com/containers/nri-plugins/pkg/apis/config/v1alpha1"
	"github.com/containers/nri-plugins/pkg/agent"
	"github.com/containers/nri-plugins/pkg/instrumentation"
	logger "github.com/containers/nri-plugins/pkg/log"
	"github.com/containers/nri-plugins/pkg/resmgr/cache"
	"github.com/containers/nri-plugins/pkg/resmgr/events"
	"github.com/containers/nri-plugins/pkg/resmgr/policy"
)

// VerifStub replaces the ttrpc stub: it records unsolicited container updates.
type VerifStub struct {
	mu     sync.Mutex
	Pushed [][]*api.ContainerUpdate
	Fail   error
	OnPush func([]*api.ContainerUpdate)
}

func (s *VerifStub) Run(context.Context) error   { return nil }
func (s *VerifStub) Start(context.Context) error { return nil }
func (s *VerifStub) Stop()                       {}
func (s *VerifStub) Wait()                       {}
func (s *VerifStub) UpdateContainers(u []*api.ContainerUpdate) ([]*api.ContainerUpdate, error) {
	s.mu.Lock()
	defer s.mu.Unlock()
	if s.Fail != nil {
		return nil, s.Fail
	}
	cp := make([]*api.ContainerUpdate, len(u))
	copy(cp, u)
	s.Pushed = append(s.Pushed, cp)
	if s.OnPush != nil {
		s.OnPush(cp)
	}
	return nil, nil
}

// TakePushed returns and clears the recorded pushes.
func (s *VerifStub) TakePushed() [][]*api.ContainerUpdate {
	s.mu.Lock()
	defer s.mu.Unlock()
	p := s.Pushed
	s.Pushed = nil
	return p
}

// VerifRM is a handle on a real resmgr instance.
type VerifRM struct {
	m    *resmgr
	Stub *VerifStub
}

// VerifSetOptions sets the process-wide command line options of the resource manager.
func VerifSetOptions(hostRoot, stateDir string) {
	opt.HostRoot = hostRoot
	opt.StateDir = stateDir
}

// VerifNew creates a resource manager exactly like NewResourceManager does.
func VerifNew(backend policy.Backend, agt *agent.Agent) (*VerifRM, error) {
	rm, err := NewResourceManager(backend, agt)
	if err != nil {
		return nil, err
	}
	m := rm.(*resmgr)
	return &VerifRM{m: m, Stub: &VerifStub{}}, nil
}

// VerifStart mirrors resmgr.start() without the NRI connection and the PID file.
func (v *VerifRM) VerifStart(cfg cfgapi.ResmgrConfig) error {
	m := v.m
	m.cfg = cfg
	mCfg := cfg.CommonConfig()
	if err := logger.Configure(&mCfg.Log); err != nil {
		log.Warnf("failed to configure logger: %v", err)
	}
	m.cache.ConfigureRDTControl(mCfg.Control.RDT.Enable)
	m.cache.ConfigureBlockIOControl(mCfg.Control.BlockIO.Enable)
	if err := m.policy.Start(m.cfg.PolicyConfig()); err != nil {
		return err
	}
	if err := instrumentation.Reconfigure(&mCfg.Instrumentation); err != nil {
		return err
	}
	m.nri.stub = v.Stub
	if err := m.startControllers(); err != nil {
		return err
	}
	if err := m.startEventProcessing(); err != nil {
		return err
	}
	m.running = true
	return nil
}

// VerifShutdown stops the event loop goroutine of the instance.
func (v *VerifRM) VerifShutdown() {
	if v.m.stop != nil {
		close(v.m.stop)
		v.m.stop = nil
	}
}

func (v *VerifRM) Cache() cache.Cache    { return v.m.cache }
func (v *VerifRM) Policy() policy.Policy { return v.m.policy }

// Reconfigure calls the real resmgr.reconfigure (the path taken by updateConfig when running).
func (v *VerifRM) Reconfigure(cfg cfgapi.ResmgrConfig) error { return v.m.reconfigure(cfg) }

// UpdateConfig calls the real notify callback the agent uses.
func (v *VerifRM) UpdateConfig(cfg interface{}) (bool, error) { return v.m.updateConfig(cfg) }

// Handlers: the real nriPlugin methods.
func (v *VerifRM) Synchronize(pods []*api.PodSandbox, ctrs []*api.Container) ([]*api.ContainerUpdate, error) {
	return v.m.nri.Synchronize(context.Background(), pods, ctrs)
}
func (v *VerifRM) RunPodSandbox(p *api.PodSandbox) error {
	return v.m.nri.RunPodSandbox(context.Background(), p)
}
func (v *VerifRM) StopPodSandbox(p *api.PodSandbox) error {
	return v.m.nri.StopPodSandbox(context.Background(), p)
}
func (v *VerifRM) RemovePodSandbox(p *api.PodSandbox) error {
	return v.m.nri.RemovePodSandbox(context.Background(), p)
}
func (v *VerifRM) CreateContainer(p *api.PodSandbox, c *api.Container) (*api.ContainerAdjustment, []*api.ContainerUpdate, error) {
	return v.m.nri.CreateContainer(context.Background(), p, c)
}
func (v *VerifRM) StartContainer(p *api.PodSandbox, c *api.Container) error {
	return v.m.nri.StartContainer(context.Background(), p, c)
}
func (v *VerifRM) UpdateContainer(p *api.PodSandbox, c *api.Container, r *api.LinuxResources) ([]*api.ContainerUpdate, error) {
	return v.m.nri.UpdateContainer(context.Background(), p, c, r)
}
func (v *VerifRM) StopContainer(p *api.PodSandbox, c *api.Container) ([]*api.ContainerUpdate, error) {
	return v.m.nri.StopContainer(context.Background(), p, c)
}
func (v *VerifRM) RemoveContainer(p *api.PodSandbox, c *api.Container) error {
	return v.m.nri.RemoveContainer(context.Background(), p, c)
}

// PolicyEvent delivers a policy event the way a fixed event loop would: under the
// pipeline lock, followed by flushing pending updates through the stub. The resmgr event
// loop on this tree drops policy events (processEvent), so cold-start completion is
// driven here.
func (v *VerifRM) PolicyEvent(typ string, data interface{}) (bool, error) {
	m := v.m
	m.Lock()
	defer m.Unlock()
	changed, err := m.policy.HandleEvent(&events.Policy{Type: typ, Source: "verif", Data: data})
	if err != nil {
		return changed, err
	}
	if changed {
		if uerr := m.nri.updateContainers(); uerr != nil {
			return changed, uerr
		}
	}
	return changed, nil
}

// PendingIDs lists containers with changes not yet told to the runtime.
func (v *VerifRM) PendingIDs() []string {
	var ids []string
	for _, c := range v.m.cache.GetPendingContainers() {
		ids = append(ids, c.GetID())
	}
	return ids
}

// Lock/Unlock expose the pipeline lock for quiescent-point inspection in concurrent runs.
func (v *VerifRM) Lock()   { v.m.Lock() }
func (v *VerifRM) Unlock() { v.m.Unlock() }

// TryLock reports whether the pipeline lock was free (and takes it if so): used by the push hook to check that
// unsolicited updates are sent from inside the critical section of the request that produced them.
func (v *VerifRM) TryLock() bool { return v.m.TryLock() }
