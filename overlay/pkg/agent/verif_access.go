//go:build verif

package agent

import "github.com/containers/nri-plugins/pkg/agent/podresapi"

// VerifSetPodResSocket points the agent's pod-resources client at a (fake) kubelet socket.
func VerifSetPodResSocket(a *Agent, path string) error {
	c, err := podresapi.NewClient(podresapi.WithSocketPath(path))
	if err != nil {
		return err
	}
	a.podResCli = c
	return nil
}
