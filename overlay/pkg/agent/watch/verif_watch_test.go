//go:build verif

// Engine `watch` of the verification framework (property C17, event-delivery layer): an in-package
// driver for pkg/agent/watch.ObjectWatch, the wrapper through which the agent receives the events
// of the node-specific and the group/default configuration watch. C17 speaks about "the
// configuration most recently delivered ... if one currently exists": a watch that silently stops
// delivering makes every later statement of the property false although updateNodeConfig /
// updateGroupConfig (engine `agent`) are correct. This monitor therefore checks, on the REAL
// ObjectWatch with a scripted fake API server (CreateFn + inner watch.Interface):
//
//   delivery   every event sent on the currently open inner watch arrives on ResultChan exactly
//              once, in order, unchanged (the buffer is never filled here);
//   reopen     BOUNDED PROGRESS: after the inner watch expires (channel closed) or reports an Error
//              event while the API server refuses the next f creations (f = 0..3), the wrapper
//              keeps asking: each further creation attempt is made within vRetryBound of the previous
//              failure (the code's delay is 5 s, the bound is 4x that), and once a creation succeeds
//              events flow again. The deciding observation is "no creation attempt within the bound".
//   quiet      no creation attempt is made while the inner watch is healthy (no spurious reopen).
//
// Scenarios: all sequences of up to VERIF_DEPTH phases over {expire, error} x f in {0,1,2,3} (quick: 2 phases
// = 72 scenarios; they run concurrently, their timers overlap). Wall-clock enters only through the
// bound above; a scenario whose own bookkeeping times out elsewhere is reported as `harness`.
//
// Environment: VERIF_OUT, VERIF_WORK, VERIF_DEPTH (phases per scenario, default 2), VERIF_REPLAY
// (witness: re-run that scenario only; the test fails iff the oracle fires).
package watch

import (
	"context"
	"encoding/json"
	"errors"
	"fmt"
	"os"
	"path/filepath"
	"sort"
	"strconv"
	"strings"
	"sync"
	"testing"
	"time"

	metav1 "k8s.io/apimachinery/pkg/apis/meta/v1"
	"k8s.io/apimachinery/pkg/runtime"
	k8swatch "k8s.io/apimachinery/pkg/watch"
)

const vRetryBound = 4 * reopenDelay

type vViolation struct {
	Prop    string          `json:"prop"`
	Check   string          `json:"check"`
	Sig     string          `json:"sig"`
	Msg     string          `json:"msg"`
	Witness string          `json:"witness"`
	Case    json.RawMessage `json:"case,omitempty"`
}

type vOut struct {
	Prop        string            `json:"prop"`
	Seed        uint64            `json:"seed"`
	Shard       int               `json:"shard"`
	N           int               `json:"n"`
	Tier        string            `json:"tier"`
	Done        bool              `json:"done"`
	Evaluations int               `json:"evaluations"`
	Stats       map[string]int    `json:"stats"`
	Seen        []string          `json:"seen"`
	Distinct    int               `json:"distinct"`
	Violations  []vViolation      `json:"violations"`
	Samples     []json.RawMessage `json:"samples"`
}

// vCase: a witness / replay file.
type vCase struct {
	Engine string   `json:"engine"` // "watch"
	Phases []string `json:"phases"` // "<expire|error>:<f>"
}

// ---------------------------------------------------------------- fake API server

type vInner struct {
	c       chan Event
	once    sync.Once
	stopped chan struct{}
}

func (i *vInner) ResultChan() <-chan k8swatch.Event { return i.c }
func (i *vInner) Stop()                            { i.once.Do(func() { close(i.stopped) }) }

type vAPI struct {
	sync.Mutex
	failNext int         // the next failNext creations are refused
	attempts []time.Time // every creation attempt
	failed   int
	opened   []*vInner
	notify   chan struct{} // one token per attempt
}

func (a *vAPI) create(ctx context.Context, ns, name string) (Interface, error) {
	a.Lock()
	defer a.Unlock()
	a.attempts = append(a.attempts, time.Now())
	defer func() {
		select {
		case a.notify <- struct{}{}:
		default:
		}
	}()
	if a.failNext > 0 {
		a.failNext--
		a.failed++
		return nil, errors.New("verif: API server unreachable")
	}
	in := &vInner{c: make(chan Event, 16), stopped: make(chan struct{})}
	a.opened = append(a.opened, in)
	return in, nil
}

func (a *vAPI) current() *vInner {
	a.Lock()
	defer a.Unlock()
	if len(a.opened) == 0 {
		return nil
	}
	return a.opened[len(a.opened)-1]
}

func (a *vAPI) counts() (attempts, opened int) {
	a.Lock()
	defer a.Unlock()
	return len(a.attempts), len(a.opened)
}

// ---------------------------------------------------------------- one scenario

type vFinding struct{ check, sig, msg string }

type vScenario struct {
	phases []string
	finds  []vFinding
	stats  map[string]int
	seen   []string
	serial int
	trace  []string
}

func (s *vScenario) violate(check, sig, format string, args ...interface{}) {
	s.finds = append(s.finds, vFinding{check, sig, fmt.Sprintf(format, args...) + " [trace: " + strings.Join(s.trace, " ") + "]"})
}

func vObj(n int) runtime.Object {
	return &metav1.PartialObjectMetadata{ObjectMeta: metav1.ObjectMeta{Name: "cfg", Generation: int64(n), UID: "uid"}}
}

// roundTrip sends k events on the current inner watch and expects exactly them, in order.
func (s *vScenario) roundTrip(api *vAPI, w Interface, k int, where string) bool {
	in := api.current()
	for i := 0; i < k; i++ {
		s.serial++
		typ := []EventType{Added, Modified, Deleted, Modified}[s.serial%4]
		in.c <- Event{Type: typ, Object: vObj(s.serial)}
		select {
		case e, ok := <-w.ResultChan():
			s.stats["events_delivered"]++
			if !ok {
				s.violate("delivery", "result-channel-closed:"+where, "ResultChan was closed while the watch is in use (%s)", where)
				return false
			}
			m, _ := e.Object.(*metav1.PartialObjectMetadata)
			if e.Type != typ || m == nil || m.Generation != int64(s.serial) {
				s.violate("delivery", "event-changed:"+where, "sent %v generation %d, received %v %+v (%s)", typ, s.serial, e.Type, e.Object, where)
				return false
			}
		case <-time.After(vRetryBound):
			s.violate("delivery", "event-lost:"+where, "event %d sent on the open inner watch did not arrive on ResultChan within %v (%s)", s.serial, vRetryBound, where)
			return false
		}
	}
	select {
	case e := <-w.ResultChan():
		s.violate("delivery", "event-invented:"+where, "an event nobody sent arrived: %v %+v (%s)", e.Type, e.Object, where)
		return false
	default:
	}
	return true
}

func (s *vScenario) run() {
	api := &vAPI{notify: make(chan struct{}, 64)}
	w, err := Object(context.Background(), "ns", "cfg", api.create)
	if err != nil {
		s.violate("harness", "initial-open-failed", "Object() failed with a reachable API: %v", err)
		return
	}
	defer w.Stop()
	<-api.notify
	s.trace = append(s.trace, "open")
	if !s.roundTrip(api, w, 2, "initial") {
		return
	}
	for pi, ph := range s.phases {
		parts := strings.SplitN(ph, ":", 2)
		kind := parts[0]
		f, _ := strconv.Atoi(parts[1])
		where := fmt.Sprintf("phase %d %s", pi, ph)
		a0, o0 := api.counts()
		api.Lock()
		api.failNext = f
		api.Unlock()
		in := api.current()
		switch kind {
		case "expire":
			close(in.c)
		case "error":
			in.c <- Event{Type: Error, Object: &metav1.Status{Status: "Failure", Message: "verif: watch error"}}
			// the Error event itself is passed on
			select {
			case e := <-w.ResultChan():
				if e.Type != Error {
					s.violate("delivery", "event-changed:"+where, "sent an Error event, received %v", e.Type)
					return
				}
			case <-time.After(vRetryBound):
				s.violate("delivery", "event-lost:"+where, "the Error event did not arrive on ResultChan within %v", vRetryBound)
				return
			}
		}
		s.trace = append(s.trace, ph)
		s.stats["phases_"+kind]++
		// f refused attempts, then one that succeeds: each within the bound of the previous one
		for k := 0; k <= f; k++ {
			select {
			case <-api.notify:
				s.stats["creation_attempts_observed"]++
				if k < f {
					s.stats["refused_creations"]++
				}
				s.trace = append(s.trace, fmt.Sprintf("attempt%d", k))
			case <-time.After(vRetryBound):
				sig := fmt.Sprintf("reopen-not-retried:%s:after-%d-refused", kind, k)
				s.violate("reopen", sig, "%s: after the inner watch ended (%s) and %d refused creation(s), no further creation attempt was made within %v (the code's delay is %v): the watch is dead, later configuration events can never be delivered",
					where, kind, k, vRetryBound, reopenDelay)
				return
			}
		}
		a1, o1 := api.counts()
		if a1-a0 != f+1 || o1-o0 != 1 {
			s.violate("reopen", "attempt-count:"+kind, "%s: %d attempts, %d opened; expected %d attempts, 1 opened", where, a1-a0, o1-o0, f+1)
			return
		}
		s.stats["reopens_observed"]++
		if f >= 2 {
			s.stats["reopens_after_repeated_refusal"]++
		}
		if !s.roundTrip(api, w, 3, "after "+where) {
			return
		}
		s.seen = append(s.seen, fmt.Sprintf("%s|pos%d", ph, pi))
	}
	// quiet: a healthy watch is not reopened
	a2, _ := api.counts()
	time.Sleep(200 * time.Millisecond)
	if a3, _ := api.counts(); a3 != a2 {
		s.violate("quiet", "spurious-reopen", "%d creation attempt(s) were made while the inner watch was healthy", a3-a2)
	}
}

// ---------------------------------------------------------------- driver

func TestVerifWatch(t *testing.T) {
	out := &vOut{Prop: "C17", Tier: os.Getenv("VERIF_TIER"), Stats: map[string]int{}}
	work := os.Getenv("VERIF_WORK")
	depth := 2
	if v, err := strconv.Atoi(os.Getenv("VERIF_DEPTH")); err == nil && v > 0 {
		depth = v
	}
	var cases [][]string
	replay := os.Getenv("VERIF_REPLAY")
	if replay != "" {
		b, err := os.ReadFile(replay)
		if err != nil {
			t.Fatalf("replay: %v", err)
		}
		var wf struct {
			Case vCase `json:"case"`
		}
		if err := json.Unmarshal(b, &wf); err != nil || len(wf.Case.Phases) == 0 {
			t.Fatalf("replay: no phases in %s (%v)", replay, err)
		}
		cases = [][]string{wf.Case.Phases}
	} else {
		var alpha []string
		for _, k := range []string{"expire", "error"} {
			for f := 0; f <= 3; f++ {
				alpha = append(alpha, fmt.Sprintf("%s:%d", k, f))
			}
		}
		cur := [][]string{{}}
		for d := 0; d < depth; d++ {
			var next [][]string
			for _, c := range cur {
				for _, a := range alpha {
					next = append(next, append(append([]string{}, c...), a))
				}
			}
			cases = append(cases, next...)
			cur = next
		}
	}
	scs := make([]*vScenario, len(cases))
	var wg sync.WaitGroup
	for i, c := range cases {
		scs[i] = &vScenario{phases: c, stats: map[string]int{}}
		wg.Add(1)
		go func(s *vScenario) {
			defer wg.Done()
			s.run()
		}(scs[i])
	}
	wg.Wait()
	seen := map[string]bool{}
	vkeys := map[string]int{}
	fired := false
	for _, s := range scs {
		out.N++
		out.Stats["scenarios"]++
		for k, v := range s.stats {
			out.Stats[k] += v
			out.Evaluations += v
		}
		for _, h := range s.seen {
			seen[h] = true
		}
		for _, f := range s.finds {
			fired = true
			key := f.check + "|" + f.sig
			vkeys[key]++
			out.Stats["violations_"+f.check]++
			if vkeys[key] > 3 {
				continue
			}
			b, _ := json.Marshal(vCase{Engine: "watch", Phases: s.phases})
			w := ""
			if work != "" {
				_ = os.MkdirAll(work, 0o755)
				w = filepath.Join(work, fmt.Sprintf("witness-C17-watch-%s-%d.json", f.check, len(out.Violations)))
				wb, _ := json.MarshalIndent(map[string]interface{}{"prop": "C17", "check": f.check, "sig": f.sig, "msg": f.msg, "case": json.RawMessage(b)}, "", " ")
				_ = os.WriteFile(w, wb, 0o644)
			}
			out.Violations = append(out.Violations, vViolation{Prop: "C17", Check: f.check, Sig: f.sig, Msg: f.msg, Witness: w, Case: b})
			if replay != "" {
				fmt.Printf("MONITOR property=C17 check=%s sig=%s: %s\n", f.check, f.sig, f.msg)
			}
		}
	}
	for h := range seen {
		out.Seen = append(out.Seen, h)
	}
	sort.Strings(out.Seen)
	out.Distinct = len(out.Seen)
	out.Done = true
	if replay != "" {
		if fired {
			t.Fatalf("oracle fired")
		}
		return
	}
	b, _ := json.Marshal(out)
	if p := os.Getenv("VERIF_OUT"); p != "" {
		if err := os.WriteFile(p+".tmp", b, 0o644); err != nil {
			t.Fatalf("write result: %v", err)
		}
		if err := os.Rename(p+".tmp", p); err != nil {
			t.Fatalf("write result: %v", err)
		}
	} else {
		fmt.Println(string(b))
	}
}
