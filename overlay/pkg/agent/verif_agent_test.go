//go:build verif

// Engine `agent` of the verification framework: an in-package driver for pkg/agent that is
// injected with `go test -tags verif -vet=off -overlay ...`. It serves property
//
//	C17 — configuration precedence: node-specific over group/default, always.
//
// What is executed: the agent's two update functions, Agent.updateNodeConfig and
// Agent.updateGroupConfig, which are exactly what the single select loop of Agent.Start calls
// for events of the node-specific and the group/default watch (Added/Modified -> update*(obj),
// Deleted -> update*(nil)). Every event sequence runs on a FRESH Agent that has no cluster
// access (agent.New(fakeConfigIf, WithConfigFile("/dev/null")), Start is never called, notifyFn
// is a recorder, status patches go to the fake ConfigInterface which records them).
//
// Oracle (written from docs/resource-policy/configuration.md, the Agent type comment and the
// statement of C17; it never calls sameConfigVersion or reads Agent.nodeCfg/groupCfg/currentCfg):
// a reference state machine {current node object, current group/default object}, effective =
// node if present else group, evaluated after EVERY event of the sequence together with the
// notify calls made during that event:
//
//	group_over_node         a notify delivered a group/default object while a node-specific one exists
//	stale_delivery          a notify delivered something that is not the current effective version
//	redelivery_notified     an event carrying the same UID and generation (>0) as the current object
//	                        of its kind caused a notify
//	invalid_delivered       an object constructed to fail Validate() was handed to the callback
//	no_fallback             node-specific object deleted, current group object valid, but the last
//	                        delivered configuration is not that group object
//	effective_not_delivered after any other event: effective configuration valid, but the last
//	                        delivered one is a different version
//	foreign_object          the callback received an object that was never fed to the agent
//	agent_panic             the update function panicked
//
// "Version" = (kind, UID, generation) for generation > 0; objects with generation 0 (file style,
// no version information) are each their own version. A delivery the callback rejects with an
// error still counts as delivered (the property speaks about what is handed to the plugin).
// Unspecified behaviour is not pinned: a fallback that re-delivers an object which already is the
// last delivered one is allowed and so is its omission; several notifies in one event are only counted.
//
// Workload: EXHAUSTIVE enumeration of all K^L sequences of length L (= VERIF_DEPTH) over the
// alphabet below; the oracle runs after every event, so every shorter sequence is covered as a
// prefix. A `redeliver` event with no current object of its kind would be a no-op duplicate of a
// shorter sequence: such sequences are cut at that point and counted as `pruned`.
// A second small phase appends a fatal rejection (callback returns fatal=true with an error, which
// ends in klog.OsExit) to every sequence of length min(L-1,3); klog.OsExit is the hook klog exports
// for tests, it is replaced by a panic that the driver recovers, nothing under /repo is changed.
//
// `distinct` = number of distinct (reference node state, reference group state, last delivered,
// event) transitions exercised.
//
// Environment: VERIF_DEPTH (L, default 5), VERIF_SHARD/VERIF_SHARDS (partition by the first two
// events), VERIF_OUT (result JSON, stdout if empty), VERIF_WORK (witness directory), VERIF_REPLAY
// (witness file: re-run only that sequence, print trace and MONITOR lines; the test FAILS, exit
// status 1, iff the oracle fires; in every other mode violations are only reported in the JSON), VERIF_TYPE
// (balloons | topology-aware | both; default both: balloons at depth L, topology-aware at
// depth min(L,4)), VERIF_ALPHABET (full = 15 events, default | core = 10 events), VERIF_SEED
// (accepted, unused: nothing is random), VERIF_LOG=1 (keep the package logger instead of the quiet
// wrapper; 3x slower). Witness cases are minimised (events are removed while the same check+sig
// still fires) before they are stored; at most 3 reports per (check, sig) and 500 in total are
// recorded, all are counted in stats["violations_<check>"].
package agent

import (
	"context"
	"encoding/json"
	"errors"
	"fmt"
	"io"
	"net/http"
	"os"
	"path/filepath"
	"sort"
	"strconv"
	"strings"
	"testing"
	"time"

	metav1 "k8s.io/apimachinery/pkg/apis/meta/v1"
	"k8s.io/apimachinery/pkg/runtime"
	"k8s.io/apimachinery/pkg/types"
	"k8s.io/client-go/rest"
	"k8s.io/klog/v2"

	"github.com/containers/nri-plugins/pkg/agent/watch"
	cfgapi "github.com/containers/nri-plugins/pkg/apis/config/v1alpha1"
	blncfg "github.com/containers/nri-plugins/pkg/apis/config/v1alpha1/resmgr/policy/balloons"
	resmgr "github.com/containers/nri-plugins/pkg/apis/resmgr/v1alpha1"
	logger "github.com/containers/nri-plugins/pkg/log"
	"github.com/containers/nri-plugins/pkg/log/klogcontrol"
)

// vQuietLog replaces the package logger during the run: informational levels are dropped before
// any formatting (klog computes a caller frame per line, which dominated the run time); Fatal and
// Panic still go to the real logger, i.e. to klog and its OsExit hook.
type vQuietLog struct{ logger.Logger }

func (vQuietLog) Debug(string, ...interface{})  {}
func (vQuietLog) Debugf(string, ...interface{}) {}
func (vQuietLog) Info(string, ...interface{})   {}
func (vQuietLog) Infof(string, ...interface{})  {}
func (vQuietLog) Warn(string, ...interface{})   {}
func (vQuietLog) Warnf(string, ...interface{})  {}
func (vQuietLog) Error(string, ...interface{})  {}
func (vQuietLog) Errorf(string, ...interface{}) {}

// ---------------------------------------------------------------- result format (= libdrv.Out)

type vViolation struct {
	Prop    string          `json:"prop"`
	Check   string          `json:"check"`
	Sig     string          `json:"sig"`
	Msg     string          `json:"msg"`
	Witness string          `json:"witness"`
	Case    json.RawMessage `json:"case,omitempty"`
}

type vOut struct {
	Prop        string            `json:"prop"`
	Seed        uint64            `json:"seed"`
	Shard       int               `json:"shard"`
	N           int               `json:"n"`
	Tier        string            `json:"tier"`
	Done        bool              `json:"done"`
	Evaluations int               `json:"evaluations"`
	Stats       map[string]int    `json:"stats"`
	Seen        []string          `json:"seen"`
	Distinct    int               `json:"distinct"`
	Exhaustive  bool              `json:"exhaustive,omitempty"`
	Violations  []vViolation      `json:"violations"`
	Samples     []json.RawMessage `json:"samples"`
}

// ---------------------------------------------------------------- events

const (
	kNode  = 0
	kGroup = 1
)

const (
	opAdd1      = iota // UID u, generation 1, valid, accepted
	opAdd2             // UID u, generation 2, valid, accepted
	opRedeliver        // status-only modification of the current object: same UID+generation, new resourceVersion
	opInvalid          // UID u, generation 3, fails Validate()
	opReject           // UID u, generation 4, valid, callback answers (false, error)
	opDelete           // Deleted
	opNewUID           // UID u', generation 1, valid (object deleted and recreated, Deleted event not seen)
	opFile             // generation 0, no UID: what a configuration file yields
	opFatal            // UID u, generation 5, valid, callback answers (true, error): only as last event
	nOps
)

var opName = [nOps]string{"add1", "add2", "redeliver", "invalid", "reject", "delete", "newuid", "file0", "fatal"}
var kindLetter = [2]string{"N", "G"}
var kindName = [2]string{"node", "group"}

type vEvent struct{ kind, op int }

func (e vEvent) String() string { return kindLetter[e.kind] + ":" + opName[e.op] }

func parseEvent(s string) (vEvent, error) {
	p := strings.SplitN(s, ":", 2)
	if len(p) == 2 {
		for k := range kindLetter {
			for o := range opName {
				if p[0] == kindLetter[k] && p[1] == opName[o] {
					return vEvent{k, o}, nil
				}
			}
		}
	}
	return vEvent{}, fmt.Errorf("unknown event %q", s)
}

func alphabet(which, cfgType string) []vEvent {
	nodeOps := []int{opAdd1, opAdd2, opRedeliver, opInvalid, opReject, opDelete, opNewUID, opFile}
	groupOps := []int{opAdd1, opAdd2, opRedeliver, opInvalid, opReject, opDelete, opNewUID}
	if which == "core" {
		nodeOps = []int{opAdd1, opAdd2, opRedeliver, opInvalid, opDelete}
		groupOps = nodeOps
	}
	var a []vEvent
	for k, ops := range [][]int{nodeOps, groupOps} {
		for _, o := range ops {
			if o == opInvalid && cfgType != "balloons" {
				continue // only BalloonsPolicy implements Validate()
			}
			a = append(a, vEvent{k, o})
		}
	}
	return a
}

// vCase is what a witness file stores and VERIF_REPLAY re-runs.
type vCase struct {
	Type   string   `json:"type"`
	Events []string `json:"events"`
}

// ---------------------------------------------------------------- objects fed to the agent

// vobj is the driver's own description of an object it fed: the oracle only looks at this, never
// at the agent's state.
type vobj struct {
	kind   int
	op     int // the op that created its content (for a redelivery: that of the original)
	uid    string
	gen    int64
	serial int // unique per sequence; becomes the resourceVersion
	valid  bool
	resp   int // 0 accept, 1 reject, 2 fatal
	obj    metav1.Object
}

func (o *vobj) String() string {
	if o == nil {
		return "-"
	}
	return fmt.Sprintf("%s/%s(uid=%q gen=%d rv=%d valid=%v)", kindName[o.kind], opName[o.op], o.uid, o.gen, o.serial, o.valid)
}

func (o *vobj) class() string {
	if o == nil {
		return "-"
	}
	return opName[o.op]
}

// sameVersion is the oracle's notion of "same resource version" from the property text: same
// kind, UID and generation; generation 0 carries no version, every such object is its own version.
func sameVersion(a, b *vobj) bool {
	if a == nil || b == nil {
		return a == b
	}
	if a.kind != b.kind || a.uid != b.uid || a.gen != b.gen {
		return false
	}
	if a.gen == 0 {
		return a.serial == b.serial
	}
	return true
}

var (
	validBalloons   = blncfg.Config{BalloonDefs: []*blncfg.BalloonDef{{Name: "b", MatchExpressions: []resmgr.Expression{{Key: "name", Op: resmgr.Equals, Values: []string{"x"}}}}}}
	invalidBalloons = blncfg.Config{BalloonDefs: []*blncfg.BalloonDef{{Name: "b", MatchExpressions: []resmgr.Expression{{Key: "name", Op: resmgr.Operator("NoSuchOperator"), Values: []string{"x"}}}}}}
)

const (
	vNodeName  = "n1"
	vNamespace = "kube-system"
)

func objName(cfgType string, kind int) string {
	if kind == kNode {
		return "node." + vNodeName
	}
	if cfgType == "balloons" {
		return "group.g1"
	}
	return "default"
}

// mkObject builds the runtime.Object for one event. Every call returns a new pointer, as a
// watch does.
func mkObject(cfgType string, o *vobj) runtime.Object {
	meta := metav1.ObjectMeta{
		Name:            objName(cfgType, o.kind),
		Namespace:       vNamespace,
		UID:             types.UID(o.uid),
		Generation:      o.gen,
		ResourceVersion: strconv.Itoa(1000 + o.serial),
	}
	if o.gen == 0 {
		meta.Namespace = "" // file style object: name only
	}
	st := cfgapi.ConfigStatus{Nodes: map[string]cfgapi.NodeStatus{vNodeName: {Status: "Success", Generation: o.gen}}}
	switch cfgType {
	case "balloons":
		p := &cfgapi.BalloonsPolicy{ObjectMeta: meta}
		if o.valid {
			p.Spec.Config = validBalloons
		} else {
			p.Spec.Config = invalidBalloons
		}
		p.Spec.Agent.NodeResourceTopology = o.op != opAdd2 // content differs between generations
		if o.serial%2 == 1 {
			p.Status = st
		}
		o.obj = p
		return p
	default:
		p := &cfgapi.TopologyAwarePolicy{ObjectMeta: meta}
		p.Spec.Agent.NodeResourceTopology = o.op != opAdd2
		if o.serial%2 == 1 {
			p.Status = st
		}
		o.obj = p
		return p
	}
}

func newVobj(e vEvent, serial int, cur *vobj) *vobj {
	o := &vobj{kind: e.kind, op: e.op, serial: serial, valid: true}
	uid := [2]string{"uid-node", "uid-group"}[e.kind]
	switch e.op {
	case opAdd1:
		o.uid, o.gen = uid, 1
	case opAdd2:
		o.uid, o.gen = uid, 2
	case opInvalid:
		o.uid, o.gen, o.valid = uid, 3, false
	case opReject:
		o.uid, o.gen, o.resp = uid, 4, 1
	case opFatal:
		o.uid, o.gen, o.resp = uid, 5, 2
	case opNewUID:
		o.uid, o.gen = uid+"-recreated", 1
	case opFile:
		o.uid, o.gen = "", 0
	case opRedeliver:
		c := *cur
		c.serial, c.obj = serial, nil
		o = &c
	}
	return o
}

// ---------------------------------------------------------------- fake ConfigInterface

type vPatch struct {
	Name string `json:"name"`
	Data string `json:"data"`
}

type vConfigIf struct {
	patches int
	keep    bool
	log     []vPatch
}

func (c *vConfigIf) SetKubeClient(*http.Client, *rest.Config) error { return nil }
func (c *vConfigIf) CreateWatch(context.Context, string, string) (watch.Interface, error) {
	return nil, errors.New("verif: no watches")
}
func (c *vConfigIf) PatchStatus(_ context.Context, ns, name string, _ types.PatchType, data []byte, _ metav1.PatchOptions) error {
	c.patches++
	if c.keep {
		c.log = append(c.log, vPatch{Name: ns + "/" + name, Data: string(data)})
	}
	return nil
}
func (c *vConfigIf) Unmarshal([]byte, string) (runtime.Object, error) {
	return nil, errors.New("verif: no files")
}

// ---------------------------------------------------------------- one run of one sequence

type vNotify struct {
	o       *vobj       // nil: object unknown to the driver
	raw     interface{} // what the callback received
	fatal   bool
	rejects bool
}

type vExit struct{ code int }

type vRunner struct {
	out     *vOut
	work    string
	cfgType string
	verbose bool // replay: print the trace
	vkeys   map[string]int
	trans   map[int]struct{}
	alpha   []vEvent

	// probe mode (witness minimisation): nothing is counted or recorded, only whether the
	// violation (pCheck, pSig) fires again is noted.
	probing      bool
	pCheck, pSig string
	pHit         bool
}

func (r *vRunner) count(k string) {
	if !r.probing {
		r.out.Stats[k]++
	}
}

// minimise removes events from a failing sequence as long as the same (check, sig) still fires.
func (r *vRunner) minimise(check, sig string, seq []vEvent) []vEvent {
	best := append([]vEvent(nil), seq...)
	verbose := r.verbose
	r.probing, r.pCheck, r.pSig, r.verbose = true, check, sig, false
	defer func() { r.probing, r.verbose = false, verbose }()
	for again := true; again; {
		again = false
		for i := 0; i < len(best) && len(best) > 1; i++ {
			cand := append(append([]vEvent(nil), best[:i]...), best[i+1:]...)
			r.pHit = false
			r.runSeq(cand)
			if r.pHit {
				best, again = cand, true
				i--
			}
		}
	}
	return best
}

func (r *vRunner) violate(check, sig string, seq []vEvent, format string, args ...interface{}) {
	if r.probing {
		if check == r.pCheck && sig == r.pSig {
			r.pHit = true
		}
		return
	}
	key := check + "|" + sig
	r.vkeys[key]++
	r.count("violations_" + check)
	if r.vkeys[key] > 3 || len(r.out.Violations) >= 500 {
		r.count("violations_counted_not_recorded")
		return
	}
	msg := fmt.Sprintf(format, args...)
	cs := vCase{Type: r.cfgType}
	for _, e := range seq {
		cs.Events = append(cs.Events, e.String())
	}
	if !r.verbose { // not in replay: store the minimised sequence as the case, the found one in the message
		msg += fmt.Sprintf(" [found in %v]", cs.Events)
		cs.Events = nil
		for _, e := range r.minimise(check, sig, seq) {
			cs.Events = append(cs.Events, e.String())
		}
	}
	b, _ := json.Marshal(cs)
	w := ""
	if r.work != "" {
		_ = os.MkdirAll(r.work, 0o755)
		w = filepath.Join(r.work, fmt.Sprintf("witness-C17-%s-%d-%d.json", check, r.out.Shard, len(r.out.Violations)))
		wb, _ := json.MarshalIndent(map[string]interface{}{"prop": "C17", "check": check, "sig": sig, "msg": msg, "case": json.RawMessage(b)}, "", " ")
		_ = os.WriteFile(w, wb, 0o644)
	}
	r.out.Violations = append(r.out.Violations, vViolation{Prop: "C17", Check: check, Sig: sig, Msg: msg, Witness: w, Case: b})
	if r.verbose {
		fmt.Printf("MONITOR property=C17 check=%s sig=%s: %s\n", check, sig, msg)
	}
}

func describeRaw(v interface{}) string {
	if m, ok := v.(metav1.Object); ok {
		return fmt.Sprintf("%T name=%s uid=%q generation=%d resourceVersion=%s", v, m.GetName(), m.GetUID(), m.GetGeneration(), m.GetResourceVersion())
	}
	return fmt.Sprintf("%T", v)
}

// runSeq feeds one event sequence to a fresh agent and evaluates the oracle after every event.
// It returns false if the sequence was cut as redundant.
func (r *vRunner) runSeq(seq []vEvent) bool {
	cif := &vConfigIf{keep: r.verbose}
	a, err := New(cif, WithConfigFile("/dev/null"), WithConfigNamespace(vNamespace))
	if err != nil {
		panic("verif harness: agent.New: " + err.Error())
	}
	a.nodeName = vNodeName

	var (
		fed      []*vobj   // every object handed to the agent in this sequence
		notifies []vNotify // notify calls of the current event
		ref      [2]*vobj  // reference model: current node object, current group/default object
		last     *vobj     // last object handed to the callback
		anyLast  bool
	)
	a.notifyFn = func(cfg interface{}) (bool, error) {
		n := vNotify{raw: cfg}
		for _, o := range fed {
			if interface{}(o.obj) == cfg {
				n.o = o
			}
		}
		if n.o != nil {
			switch n.o.resp {
			case 1:
				n.rejects = true
			case 2:
				n.rejects, n.fatal = true, true
			}
		}
		notifies = append(notifies, n)
		if n.rejects {
			return n.fatal, errors.New("verif: configuration rejected by the plugin")
		}
		return false, nil
	}

	for i, e := range seq {
		before := ref
		var nv *vobj
		var obj runtime.Object
		if e.op == opRedeliver && ref[e.kind] == nil {
			r.count("pruned")
			return false
		}
		if e.op != opDelete {
			nv = newVobj(e, i+1, ref[e.kind])
			obj = mkObject(r.cfgType, nv)
			fed = append(fed, nv)
		}
		redelivery := nv != nil && before[e.kind] != nil && nv.gen > 0 &&
			nv.uid == before[e.kind].uid && nv.gen == before[e.kind].gen

		// ---- the code under test: what Agent.Start does for this watch event
		notifies = notifies[:0]
		patches0 := cif.patches
		exited, panicked := false, ""
		func() {
			defer func() {
				if p := recover(); p != nil {
					if _, ok := p.(vExit); ok {
						exited = true
					} else {
						panicked = fmt.Sprint(p)
					}
				}
			}()
			if e.kind == kNode {
				a.updateNodeConfig(obj)
			} else {
				a.updateGroupConfig(obj)
			}
		}()
		r.count("events_delivered")
		if !r.probing {
			r.out.Stats["status_patches"] += cif.patches - patches0
		}

		// ---- reference model, from the documentation: the node-specific resource always takes
		// precedence, otherwise the group-specific or default one is used.
		ref[e.kind] = nv
		eff := ref[kNode]
		if eff == nil {
			eff = ref[kGroup]
		}

		sig := fmt.Sprintf("%s@node=%s,group=%s", e, before[kNode].class(), before[kGroup].class())
		lastCode := 0
		if anyLast {
			lastCode = 1
			if last != nil {
				lastCode = 2 + last.kind*nOps + last.op
				if !sameVersion(last, before[last.kind]) {
					lastCode += 2 * nOps // last delivered object is no longer the current one of its kind
				}
			}
		}
		code := func(o *vobj) int {
			if o == nil {
				return 0
			}
			return 1 + o.op
		}
		if !r.probing {
			r.trans[((code(before[kNode])*(nOps+1)+code(before[kGroup]))*(4*nOps+2)+lastCode)*(2*nOps)+e.kind*nOps+e.op] = struct{}{}
		}

		if r.verbose {
			fmt.Printf("event %d %-12s fed=%s\n", i+1, e, nv)
		}
		if r.verbose {
			for _, p := range cif.log {
				fmt.Printf("    status patch %s %s\n", p.Name, p.Data)
			}
			cif.log = cif.log[:0]
		}
		if panicked != "" {
			r.violate("agent_panic", sig, seq[:i+1], "event %d (%s): update function panicked: %s", i+1, e, panicked)
		}
		for _, n := range notifies {
			r.count("notifies")
			anyLast = true
			last = n.o
			if r.verbose {
				fmt.Printf("    notify(%s) -> fatal=%v rejected=%v   [%s]\n", n.o, n.fatal, n.rejects, describeRaw(n.raw))
			}
			if n.o == nil {
				r.violate("foreign_object", sig, seq[:i+1], "event %d (%s): callback received an object that was never fed: %s", i+1, e, describeRaw(n.raw))
				continue
			}
			r.count("notifies_" + kindName[n.o.kind])
			if n.rejects {
				r.count("rejects")
			}
			if !n.o.valid {
				r.violate("invalid_delivered", sig, seq[:i+1], "event %d (%s): %s fails Validate() but was handed to the callback", i+1, e, n.o)
			}
			switch {
			case ref[kNode] != nil && n.o.kind == kGroup:
				r.violate("group_over_node", sig, seq[:i+1], "event %d (%s): group/default object %s delivered while node-specific %s exists", i+1, e, n.o, ref[kNode])
			case !sameVersion(n.o, eff):
				r.violate("stale_delivery", sig, seq[:i+1], "event %d (%s): delivered %s but the effective configuration is %s", i+1, e, n.o, eff)
			}
			if redelivery {
				r.violate("redelivery_notified", sig, seq[:i+1], "event %d (%s): same UID and generation %d as the current %s object, yet %s was delivered", i+1, e, nv.gen, kindName[e.kind], n.o)
			}
		}
		if len(notifies) > 1 {
			r.count("multi_notify_events")
		}
		if redelivery && len(notifies) == 0 {
			r.count("redeliveries_suppressed")
		}
		if eff != nil && !eff.valid && len(notifies) == 0 && !redelivery && (e.kind == eff.kind || e.op == opDelete) {
			r.count("invalid_suppressed")
		}
		fallback := e.kind == kNode && e.op == opDelete && before[kNode] != nil && ref[kGroup] != nil && ref[kGroup].valid
		if fallback && len(notifies) > 0 {
			r.count("fallbacks")
		}
		if eff == nil {
			r.count("events_without_effective_config")
		}
		if eff != nil && eff.valid && !(anyLast && sameVersion(last, eff)) {
			lastS := "nothing"
			if anyLast {
				lastS = last.String()
			}
			if fallback {
				r.violate("no_fallback", sig, seq[:i+1], "event %d (%s): node-specific configuration deleted, current group configuration is %s, last delivered is %s", i+1, e, eff, lastS)
			} else {
				r.violate("effective_not_delivered", sig, seq[:i+1], "event %d (%s): effective configuration is %s (valid), last delivered is %s", i+1, e, eff, lastS)
			}
		}
		if exited {
			r.count("fatal_exits_intercepted")
			if r.verbose {
				fmt.Printf("    agent called klog.OsExit (fatal rejection): the process would end here\n")
			}
			break
		}
	}
	if !r.probing {
		r.out.Evaluations++
	}
	return true
}

// enumerate runs all sequences of exactly `depth` events over the alphabet (optionally followed by
// one fatal event of either kind) that belong to this shard.
func (r *vRunner) enumerate(depth int, shard, shards int, withFatal bool) {
	k := len(r.alpha)
	if depth < 1 {
		return
	}
	idx := make([]int, depth)
	seq := make([]vEvent, depth, depth+1)
	for {
		key := idx[0] * k
		if depth > 1 {
			key += idx[1]
		}
		if key%shards == shard {
			for i, d := range idx {
				seq[i] = r.alpha[d]
			}
			if withFatal {
				for kind := 0; kind < 2; kind++ {
					if r.runSeq(append(seq, vEvent{kind, opFatal})) {
						r.count("sequences_fatal_phase")
					}
				}
			} else if r.runSeq(seq) {
				r.count("sequences_" + r.cfgType)
				if len(r.out.Samples) < 3 && r.out.Evaluations%7919 == 1 {
					cs := vCase{Type: r.cfgType}
					for _, e := range seq {
						cs.Events = append(cs.Events, e.String())
					}
					b, _ := json.Marshal(cs)
					r.out.Samples = append(r.out.Samples, b)
				}
			}
		}
		// next index vector (last position fastest)
		p := depth - 1
		for p >= 0 {
			idx[p]++
			if idx[p] < k {
				break
			}
			idx[p] = 0
			p--
		}
		if p < 0 {
			return
		}
	}
}

// ---------------------------------------------------------------- entry point

func envInt(name string, def int) int {
	if v := os.Getenv(name); v != "" {
		if n, err := strconv.Atoi(v); err == nil {
			return n
		}
	}
	return def
}

func TestVerifAgent(t *testing.T) {
	// silence the logger (the agent logs every update)
	ctl := klogcontrol.Get()
	_ = ctl.Set("logtostderr", "false")
	_ = ctl.Set("alsologtostderr", "false")
	_ = ctl.Set("stderrthreshold", "4") // above FATAL: nothing goes to stderr
	klog.SetOutput(io.Discard)
	// klog's exported test hook: a fatal log ends in OsExit; turn it into a recoverable panic.
	oldExit := klog.OsExit
	klog.OsExit = func(code int) { panic(vExit{code}) }
	defer func() { klog.OsExit = oldExit }()
	if os.Getenv("VERIF_LOG") == "" {
		oldLog := log
		log = vQuietLog{oldLog}
		defer func() { log = oldLog }()
	}

	depth := envInt("VERIF_DEPTH", 5)
	shard, shards := envInt("VERIF_SHARD", 0), envInt("VERIF_SHARDS", 1)
	if shards < 1 || shard < 0 || shard >= shards || depth < 1 {
		t.Fatalf("bad VERIF_DEPTH/VERIF_SHARD/VERIF_SHARDS: %d %d/%d", depth, shard, shards)
	}
	seed, _ := strconv.ParseUint(os.Getenv("VERIF_SEED"), 10, 64)
	tier := os.Getenv("VERIF_TIER")
	if tier == "" {
		tier = "quick"
		if depth > 5 {
			tier = "thorough"
		}
	}
	out := &vOut{Prop: "C17", Seed: seed, Shard: shard, N: depth, Tier: tier, Stats: map[string]int{}, Exhaustive: true,
		Violations: []vViolation{}, Samples: []json.RawMessage{}, Seen: []string{}}
	r := &vRunner{out: out, work: os.Getenv("VERIF_WORK"), vkeys: map[string]int{}, trans: map[int]struct{}{}}

	// harness self-check: the objects the oracle calls valid/invalid are so by the API's own Validate
	v1 := &vobj{kind: kNode, op: opAdd1, uid: "u", gen: 1, serial: 1, valid: true}
	v2 := &vobj{kind: kNode, op: opInvalid, uid: "u", gen: 3, serial: 2, valid: false}
	if err := mkObject("balloons", v1).(cfgapi.Validator).Validate(); err != nil {
		t.Fatalf("harness: valid object fails Validate(): %v", err)
	}
	if err := mkObject("balloons", v2).(cfgapi.Validator).Validate(); err == nil {
		t.Fatalf("harness: invalid object passes Validate()")
	}

	start := time.Now()
	if replay := os.Getenv("VERIF_REPLAY"); replay != "" {
		data, err := os.ReadFile(replay)
		if err != nil {
			t.Fatalf("replay: %v", err)
		}
		var w struct {
			Case vCase `json:"case"`
		}
		if err := json.Unmarshal(data, &w); err != nil {
			t.Fatalf("replay: %v", err)
		}
		var seq []vEvent
		for _, s := range w.Case.Events {
			e, err := parseEvent(s)
			if err != nil {
				t.Fatalf("replay: %v", err)
			}
			seq = append(seq, e)
		}
		r.cfgType, r.verbose = w.Case.Type, true
		if r.cfgType == "" {
			r.cfgType = "balloons"
		}
		out.Exhaustive = false
		fmt.Printf("REPLAY type=%s events=%v\n", r.cfgType, w.Case.Events)
		r.runSeq(seq)
		fmt.Printf("REPLAY violations=%d\n", len(out.Violations))
		if len(out.Violations) > 0 {
			defer t.Errorf("replay: the oracle fired %d time(s)", len(out.Violations)) // exit status 1, after the result is written
		}
	} else {
		which := os.Getenv("VERIF_ALPHABET")
		typ := os.Getenv("VERIF_TYPE")
		if typ == "" {
			typ = "both"
		}
		if typ == "balloons" || typ == "both" {
			r.cfgType, r.alpha = "balloons", alphabet(which, "balloons")
			t.Logf("C17: balloons alphabet: %d events, depth %d", len(r.alpha), depth)
			r.enumerate(depth, shard, shards, false)
			fd := depth - 1
			if fd > 3 {
				fd = 3
			}
			r.enumerate(fd, shard, shards, true)
		}
		if typ == "topology-aware" || typ == "both" {
			d := depth
			if typ == "both" && d > 4 {
				d = 4
			}
			r.cfgType, r.alpha = "topology-aware", alphabet(which, "topology-aware")
			t.Logf("C17: topology-aware alphabet: %d events, depth %d", len(r.alpha), d)
			r.enumerate(d, shard, shards, false)
		}
	}
	el := time.Since(start)
	t.Logf("C17: %d sequences in %v (%.0f sequences/s), %d violations", out.Evaluations, el, float64(out.Evaluations)/el.Seconds(), len(out.Violations))

	for k := range r.trans {
		out.Seen = append(out.Seen, strconv.Itoa(k))
	}
	sort.Strings(out.Seen)
	out.Distinct = len(out.Seen)
	out.Done = true
	b, _ := json.Marshal(out)
	if p := os.Getenv("VERIF_OUT"); p != "" {
		if fi, err := os.Stat(p); err == nil && !fi.Mode().IsRegular() {
			// a device or pipe (e.g. /dev/null): write in place, NEVER rename a file over it
			if err := os.WriteFile(p, b, 0o644); err != nil {
				t.Fatalf("write result: %v", err)
			}
			return
		}
		if err := os.WriteFile(p+".tmp", b, 0o644); err != nil {
			t.Fatalf("write result: %v", err)
		}
		if err := os.Rename(p+".tmp", p); err != nil {
			t.Fatalf("write result: %v", err)
		}
	} else {
		fmt.Println(string(b))
	}
}
