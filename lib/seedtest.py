#!/usr/bin/env python3
"""Runs checks against a seeded change: apply /verif/seeded/<name>/patch.diff to /repo, run `./check <prop> --tier quick`
for the given properties and seeds, undo the patch (always), and append the outcome to /verif/seeded/<name>/detection.json.

usage: lib/seedtest.py <name> [--props C01,C03] [--seeds 1,2] [--tier quick]
Evidence and replays of these runs go to /verif/.build/seedruns/<name>/ so that the committed evidence is never
overwritten by a run on a mutated tree."""
import argparse, json, os, subprocess, sys, time, re

VERIF = os.path.dirname(os.path.dirname(os.path.abspath(__file__)))
REPO = "/repo"


def sh(cmd, **kw):
    return subprocess.run(cmd, stdout=subprocess.PIPE, stderr=subprocess.STDOUT, text=True, **kw)


def main():
    ap = argparse.ArgumentParser()
    ap.add_argument("name")
    ap.add_argument("--props", default="")
    ap.add_argument("--seeds", default="1")
    ap.add_argument("--tier", default="quick")
    a = ap.parse_args()
    d = os.path.join(VERIF, "seeded", a.name)
    meta = json.load(open(os.path.join(d, "meta.json")))
    props = [p for p in (a.props or meta.get("property", "")).split(",") if p]
    dirty = sh(["git", "-C", REPO, "status", "--porcelain", "--untracked-files=no"]).stdout.strip()
    if dirty:
        print("refusing: /repo has local changes:\n" + dirty)
        return 2
    out = os.path.join(VERIF, ".build", "seedruns", a.name)
    os.makedirs(out, exist_ok=True)
    env = dict(os.environ, VERIF_EVIDENCE_DIR=os.path.join(out, "evidence"), VERIF_REPLAY_DIR=os.path.join(out, "replays"))
    p = sh(["git", "-C", REPO, "apply", os.path.join(d, "patch.diff")])
    if p.returncode != 0:
        print("patch does not apply:\n" + p.stdout)
        return 2
    results = []
    try:
        for prop in props:
            for seed in a.seeds.split(","):
                t0 = time.time()
                p = sh([os.path.join(VERIF, "check"), prop, "--tier", a.tier, "--seed", seed], env=env, cwd=VERIF)
                lines = [l for l in p.stdout.splitlines() if re.match(r"^(VIOLATION|KNOWN-FINDING|HELD|INCONCLUSIVE)", l)]
                viol = [l for l in lines if l.startswith("VIOLATION")]
                log = os.path.join(out, "%s-s%s.log" % (prop, seed))
                open(log, "w").write(p.stdout)
                results.append(dict(property=prop, seed=int(seed), tier=a.tier, exit=p.returncode, violations=len(viol),
                                    first=[l[:400] for l in viol[:3]], wall_s=round(time.time() - t0)))
                print("%s seed=%s exit=%d violations=%d %s" % (prop, seed, p.returncode, len(viol), (viol[0][:200] if viol else "")))
    finally:
        sh(["git", "-C", REPO, "apply", "-R", os.path.join(d, "patch.diff")])  # also removes files the patch added
        sh(["git", "-C", REPO, "checkout", "--", "."])
        left = sh(["git", "-C", REPO, "status", "--porcelain", "--untracked-files=no"]).stdout.strip()
        if left:
            print("WARNING: /repo still dirty after undo:\n" + left)
    det = os.path.join(d, "detection.json")
    old = json.load(open(det)) if os.path.exists(det) else []
    old = [o for o in old if not any(o["property"] == r["property"] and o["seed"] == r["seed"] and o["tier"] == r["tier"] for r in results)]
    json.dump(old + results, open(det, "w"), indent=1)
    return 0


if __name__ == "__main__":
    sys.exit(main())
