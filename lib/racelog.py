"""Parse Go race detector logs (GORACE log_path=...) into deduplicated reports."""
import glob, re

REPO = "github.com/containers/nri-plugins/"


def parse_stack(lines):
    frames = []
    i = 0
    while i < len(lines):
        fn = lines[i].strip()
        loc = lines[i + 1].strip() if i + 1 < len(lines) else ""
        frames.append((fn, loc))
        i += 2
    return frames


def repo_frames(frames):
    out = []
    for fn, loc in frames:
        if fn.startswith(REPO) and "/verif_" not in loc and not loc.startswith("/verif/"):
            name = re.sub(r"\(\)$", "", fn)
            name = re.sub(r"\.func\d+(\.\d+)*$", ".func", name)
            out.append(name[len(REPO):])
    return out


def parse_file(path):
    text = open(path, errors="replace").read()
    reports = []
    for block in text.split("=================="):
        if "WARNING: DATA RACE" not in block:
            continue
        sections = re.split(r"\n\s*\n", block.strip())
        stacks = []
        for sec in sections:
            ls = sec.split("\n")
            head = ls[0]
            if head.startswith("WARNING: DATA RACE"):
                ls = ls[1:]
                head = ls[0] if ls else ""
            if re.match(r"^(Read|Write|Previous read|Previous write|Atomic|Previous atomic)", head.strip(), re.I):
                stacks.append((head.strip(), parse_stack(ls[1:])))
        if len(stacks) < 2:
            continue
        a, b = stacks[0], stacks[1]
        ra, rb = repo_frames(a[1]), repo_frames(b[1])
        if not ra or not rb:
            continue  # a race with no repository frame on one side is not the plugin's
        site = sorted([ra[0], rb[0]])
        entry = sorted([ra[-1], rb[-1]])
        reports.append({"site": " <-> ".join(site), "entry": " <-> ".join(entry),
                        "kinds": a[0].split(" at ")[0] + " / " + b[0].split(" at ")[0], "text": block.strip()[:6000]})
    return reports


def collect(pattern):
    reps, nblocks = [], 0
    for f in glob.glob(pattern):
        nblocks += open(f, errors="replace").read().count("WARNING: DATA RACE")
        reps += parse_file(f)
    distinct = {}
    for r in reps:
        distinct.setdefault(r["site"], []).append(r)
    return nblocks, reps, distinct
