#!/usr/bin/env python3
"""Regenerates /verif/MANIFEST.json from the table below (single source of truth for the interface)."""
import json, os

VERIF = os.path.dirname(os.path.dirname(os.path.abspath(__file__)))

RM_NOTE = ("Trusted base: the Go toolchain; the harness overlay (starts the real resmgr by the steps of resmgr.start minus the "
           "NRI/ttrpc connection and pid file, recorder in place of the ttrpc stub); the runtime model that plays containerd; the machine "
           "generator (monitors take topology from the generating model, never from the code under test). Says nothing about request "
           "histories, machines or configurations the generators do not reach; coverage floors turn 'did not get there' into inconclusive (exit 2).")

CLAIMS = {
    "C01": dict(engine="rm", technique="runtime monitoring: set-relation oracle over policy snapshot + runtime shadow after every request of generated histories",
                text="Exploration: the real topology-aware pipeline is driven with thousands of generated request histories (create/start/update/stop/remove, synchronize, reconfigure) on a catalogue of synthetic machines under random accepted configurations; after every request an oracle checks exclusive-set disjointness, absence from other containers' told cpusets and from every pool's shared set, containment in the available CPUs and the reserved-CPU class rule. Held on K executions, not verified.",
                ref="DESIGN.md §4 C01"),
    "C02": dict(engine="rm", technique="runtime monitoring: partition/confinement/idle-sharing/limits/CPU-class oracle after every request",
                text="Exploration: the real balloons pipeline under random balloon-type configurations; after every request the oracle checks balloon disjointness, membership, told cpuset = balloon + shared idle CPUs (one thread per core when hidden), idle-sharing scope from the machine model, min/max CPUs and instances, sizing vs requests and CPU classes.",
                ref="DESIGN.md §4 C02"),
    "C03": dict(engine="rm", technique="runtime monitoring: capacity ledger + doc-derived eligibility table + kubelet shares formula",
                text="Exploration with fill-biased histories: per-pool promised shared/reserved milli-CPU vs remaining CPUs, ledger equality, non-empty cpusets, exclusive CPU count vs an eligibility table transcribed from the documentation, isolated-CPU rules, cpu.shares = kubelet encoding of the granted capacity, grant amount = request.",
                ref="DESIGN.md §4 C03"),
    "C04": dict(engine="rm", technique="runtime monitoring: shadow mems = allocator zone; Hall-condition fit over all node subsets",
                text="Exploration with memory-pressure histories under both policies on machines with PMEM/HBM/CPU-less/movable-only/memory-less nodes: told cpuset.mems equals the allocator's assigned zone, is non-empty and only has nodes with memory; after every successful request every node subset holds no more confined allocations than its capacity.",
                ref="DESIGN.md §4 C04"),
    "C05": dict(engine="rm", technique="runtime monitoring: runtime shadow vs cache getters, pending set, addressing rules on every reply/push",
                text="Exploration under both policies: after every request the resources the runtime was told (adjustment + updates + pushes) equal the cache's, nothing is pending, no duplicate update, no update to the container being created or to a stopped/removed one.",
                ref="DESIGN.md §4 C05"),
    "C09": dict(engine="rm", technique="runtime monitoring: per-step holder check + end-of-history comparison with a fresh twin instance",
                text="Exploration: after every request no stopped/removed/uncached container holds a grant, balloon membership or memory allocation; at the end of every history everything is stopped and removed and the policy snapshot is compared with a fresh instance configured with the last accepted configuration.",
                ref="DESIGN.md §4 C09"),
    "C12": dict(engine="rm", technique="runtime monitoring: per-message field check for opted-out recipients",
                text="Exploration with opt-out-biased histories: every adjustment, update and push addressed to a CPU-opted-out container must not change its cpuset, and to a memory-opted-out container must not change its mems (annotations in three forms, balloons preserve rules, pinCPU/pinMemory off globally or per balloon type).",
                ref="DESIGN.md §4 C12"),
}

NOT_YET = {}

ALL = ["C%02d" % i for i in range(1, 21)]


def main():
    checks = []
    for pid in ALL:
        c = CLAIMS.get(pid)
        if not c:
            continue
        checks.append({
            "property_id": pid,
            "quick_cmd": "./check %s --tier quick" % pid,
            "thorough_cmd": "./check %s --tier thorough" % pid,
            "evidence_file": "/verif/evidence/%s.json" % pid,
            "replay_cmd_template": "./check %s --replay {path}" % pid,
            "engine": c["engine"],
            "level_claimed": {"category": c.get("category", "exploration"), "text": c["text"], "design_ref": c["ref"]},
            "level_note": c.get("note", RM_NOTE),
            "technique": c["technique"],
        })
    na = []
    for pid in ALL:
        if pid not in CLAIMS:
            na.append({"property_id": pid, "reason": NOT_YET.get(pid, "check not built yet in this revision of /verif; planned per DESIGN.md §4 (runtime monitoring applies), not claimed until its monitor exists and is silent on the unchanged tree")})
    man = {
        "version": 1,
        "setup_cmd": "./check setup",
        "hooks": {
            "guard": "verif",
            "enable": "go build -tags verif -overlay /verif/.build/overlay.json (all hook/accessor files live under /verif/overlay with //go:build verif and are injected at build time; /repo carries no hook code)",
            "baseline_off_cmd": "cd /repo && go test -mod=mod -json -vet=off -count=1 -timeout 25m ./... ; cd /repo/pkg/topology && go test -json -vet=off -count=1 -timeout 25m ./...",
            "source_commits": [],
            "add_only": True,
        },
        "engines": [
            {"name": "rm", "path": "/verif/harness/cmd/rm", "serves_properties": sorted([p for p, c in CLAIMS.items() if c["engine"] == "rm"]),
             "kind_free_text": "real resmgr (cache + policy + controllers + either policy backend) driven through the real nriPlugin handlers by a runtime model; online monitors after every request"},
        ],
        "checks": checks,
        "notes": "Runtime monitoring only. Exit codes: 0 held / 1 VIOLATION / 2 INCONCLUSIVE (never a VIOLATION line). Known findings: /verif/known-findings.jsonl. See DESIGN.md.",
        "not_applicable": na,
    }
    with open(os.path.join(VERIF, "MANIFEST.json"), "w") as fh:
        json.dump(man, fh, indent=1)
    print("wrote MANIFEST.json with %d checks, %d not claimed" % (len(checks), len(na)))


if __name__ == "__main__":
    main()
