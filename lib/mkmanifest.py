#!/usr/bin/env python3
"""Regenerates /verif/MANIFEST.json from the table below (single source of truth for the interface)."""
import json, os

VERIF = os.path.dirname(os.path.dirname(os.path.abspath(__file__)))

RM_NOTE = ("Trusted base: the Go toolchain; the harness overlay (starts the real resmgr by the steps of resmgr.start minus the "
           "NRI/ttrpc connection and pid file, recorder in place of the ttrpc stub); the runtime model that plays containerd; the machine "
           "generator (monitors take topology from the generating model, never from the code under test). Says nothing about request "
           "histories, machines or configurations the generators do not reach; coverage floors turn 'did not get there' into inconclusive (exit 2).")

CLAIMS = {
    "C01": dict(engine="rm", technique="runtime monitoring: set-relation oracle over policy snapshot + runtime shadow after every request of generated histories",
                text="Exploration: the real topology-aware pipeline is driven with thousands of generated request histories (create/start/update/stop/remove, synchronize, reconfigure) on a catalogue of synthetic machines under random accepted configurations (biases: capacity-boundary requests, kernel-isolated CPUs, opt-outs, memory pressure, out-of-order and lost events); after every request an oracle checks exclusive-set disjointness, absence from other containers' told cpusets and from every pool's shared set, containment in the available CPUs and the reserved-CPU class rule. Held on K executions, not verified.",
                ref="DESIGN.md §4 C01"),
    "C02": dict(engine="rm", technique="runtime monitoring: partition/confinement/idle-sharing/limits/CPU-class oracle after every request",
                text="Exploration: the real balloons pipeline under random balloon-type configurations; after every request the oracle checks balloon disjointness, membership, told cpuset = balloon + shared idle CPUs (one thread per core when hidden), idle-sharing scope from the machine model, min/max CPUs and instances, sizing vs requests and CPU classes.",
                ref="DESIGN.md §4 C02"),
    "C03": dict(engine="rm", technique="runtime monitoring: capacity ledger + doc-derived eligibility table + kubelet shares formula",
                text="Exploration with fill-biased histories: per-pool promised shared/reserved milli-CPU vs remaining CPUs, ledger equality, non-empty cpusets, exclusive CPU count vs an eligibility table transcribed from the documentation, isolated-CPU rules, cpu.shares = kubelet encoding of the granted capacity, grant amount = request, and conservation of every pool's CPU supply (free CPUs belong to the supply they are free in; a CPU that is not free is held exclusively by some grant).",
                ref="DESIGN.md §4 C03"),
    "C04": dict(engine="rm", technique="runtime monitoring: shadow mems = allocator zone; Hall-condition fit over all node subsets",
                text="Exploration with memory-pressure histories under both policies on machines with PMEM/HBM/CPU-less/movable-only/memory-less nodes: told cpuset.mems equals the allocator's assigned zone, is non-empty and only has nodes with memory; after every successful request every node subset holds no more confined allocations than its capacity - by the allocator's own records and, independently, by lower bounds of the containers' requests taken from the runtime model.",
                ref="DESIGN.md §4 C04"),
    "C05": dict(engine="rm", technique="runtime monitoring: runtime shadow vs cache getters, pending set, addressing rules on every reply/push",
                text="Exploration under both policies: after every request the resources the runtime was told (adjustment + updates + pushes) equal the cache's, nothing is pending, no duplicate update, no update to the container being created or to a stopped/removed one; histories include out-of-order deliveries (RemoveContainer without StopContainer, StopPodSandbox before its containers' events) and periods in which events are lost until the next Synchronize.",
                ref="DESIGN.md §4 C05"),
    "C09": dict(engine="rm", technique="runtime monitoring: per-step holder check + end-of-history comparison with a fresh twin instance",
                text="Exploration: after every request no stopped/removed/uncached container holds a grant, balloon membership or memory allocation; at the end of every history everything is stopped and removed and the policy snapshot is compared with a fresh instance configured with the last accepted configuration.",
                ref="DESIGN.md §4 C09"),
    "C12": dict(engine="rm", technique="runtime monitoring: per-message field check for opted-out recipients",
                text="Exploration with opt-out-biased histories: every adjustment, update and push addressed to a CPU-opted-out container must not change its cpuset, and to a memory-opted-out container must not change its mems (annotations in three forms, balloons preserve rules, pinCPU/pinMemory off globally or per balloon type).",
                ref="DESIGN.md §4 C12"),
}

LIB_NOTE = ("Trusted base: the Go toolchain; the driver (generator + oracle) in /verif/harness/libdrv; the synthetic machine generator where machines are involved. "
            "Oracles are written from the property statement, documentation and API comments. Says nothing about inputs the generators do not reach; coverage floors turn that into inconclusive.")

CLAIMS.update({
    "C06": dict(engine="lib", note=LIB_NOTE, technique="runtime monitoring: public-observer state snapshot before/after every libmem call; lock-step twin allocator for offer-vs-allocate; pooled offers committed late for staleness",
                text="Exploration: about a hundred thousand generated allocator histories (2-8 nodes, DRAM/PMEM/HBM/memory-less/movable nodes, seven distance shapes, custom expand/overcommit functions) of Allocate/GetOffer/Commit/Realloc/Release; every failed call and every GetOffer must leave the observable state (requests, assigned zones, usage of all 2^n node sets) unchanged and must not change the result of an identical later request; fresh commits must equal the offer and a direct allocation on a lock-step twin; offers pooled across later successful operations must be refused; a release removes exactly one allocation.",
                ref="DESIGN.md §4 C06, §10.7"),
    "C07": dict(engine="lib", note=LIB_NOTE, technique="runtime monitoring: Hall-condition fit over all node subsets, type/normal-memory/superset/reservation/exact-update oracles after every successful libmem call",
                text="Exploration on the C06 workload: after every successful Allocate/Realloc/Commit every node subset holds no more confined allocations than its capacity (known finding KF5 for unions of overlapping zones), strict requests only get nodes of the requested types, new zones contain normal memory, other allocations only move to supersets, reservations never move, Realloc never removes nodes, and the returned update map is exactly the set of changed assignments.",
                ref="DESIGN.md §4 C07, §10.7"),
    "C08": dict(engine="lib", note=LIB_NOTE, technique="runtime monitoring: set-algebra oracle on real AllocateCpus/ReleaseCpus calls over generated machines, subsets, counts and options; repeat-call determinism",
                text="Exploration: hundreds of thousands of real allocator calls on generated machines (hybrid, L2 clusters, offline CPUs, cpufreq/EPP priority classes), every result checked for exact count, subset, bookkeeping of the mutated set, failure on too-large counts and determinism (same allocator, twin allocator); thorough enumerates small machines completely.",
                ref="DESIGN.md §4 C08"),
    "C10": dict(engine="lib", category="fault_enumeration", note=LIB_NOTE + " Faults are injected with strace (SIGKILL or an errno at the n-th matching syscall of the pinned saving thread); strace kills at call entry, so partial writes of the temporary file are covered by planting every prefix of a snapshot instead. Says nothing about durability across power loss (no fsync in the code; out of scope).",
                technique="runtime monitoring with fault injection: strace-injected SIGKILL/errno at every write/rename/open/close of the cache file and its temp file, load-after-crash vs pre/post state hashes; getter fingerprint round trip; refusal matrix",
                text="Fault enumeration: (1) thousands of generated caches are saved and reloaded, and a fingerprint over every public getter (identity, state, resources, requirements and updates, tags, hints, affinities, policy entries) must be equal; (2) child processes performing K saving operations are killed at every system call touching the cache file or its temporary file, and get ENOSPC/EIO/EDQUOT/EACCES injected at the same points: the state directory must load without error and equal the state before or after the interrupted operation; (3) every prefix of a snapshot planted as the temporary file must be ignored; (4) the cache file is only ever replaced by rename; (5) a cache file, state directory or container directory that is a symlink, of the wrong type or group/other-writable must be refused with nothing changed, and valid set-ups accepted.",
                ref="DESIGN.md §4 C10, §10.9"),
    "C11": dict(engine="rm", category="fault_enumeration", technique="runtime monitoring with fault injection: plugin restarts on current/stale state directories with runtime drift, reference (cache-less) plugin as oracle",
                text="Fault enumeration: histories with 1-2 restarts; the state directory is snapshotted at a PRNG-chosen request boundary, the plugin is taken down, the runtime drifts (containers created/started/stopped/removed), the plugin restarts on the current or the stale directory and is synchronized; (incl. whole pods vanishing and pods re-created under the same name), the oracle checks that exactly the runtime's live containers hold allocations (capacity decided against a cache-less reference plugin synchronized with the same lists under unique pod names), that gone pods/containers are purged, and the clauses of C01-C05/C09/C12 on the restart and on every later request, reported under C11.",
                ref="DESIGN.md §4 C11"),
    "C13": dict(engine="rm", technique="runtime monitoring: before/after observation around every reconfiguration (incl. policy-internal state) + differential twins with self-twin calibration",
                text="Exploration: every reconfiguration inside generated histories is bracketed by observations (per-container cache resources, runtime view, advertised zones, policy assignments, policy-internal state steering later decisions): identical configs and rejected configs of every rejection kind (half of them derived from a fresh random configuration, so that anything applied before the rejection shows) must change nothing - including the cache's implicit-affinity registry and the policies' own copies of the available/reserved sets -, accepted ones must leave every live container allocated and satisfy the clauses of C01-C05/C12 on that request; differential twins replay a deterministic history with a rejected update injected at a PRNG-chosen boundary and compare every later request.",
                ref="DESIGN.md §4 C13"),
    "C14": dict(engine="rm", note=RM_NOTE + " Side plugins: in-package test drivers (overlay) set the plugin struct up as main() does and call the NRI handlers directly; log.Fatal is turned into a panic via logrus' ExitFunc; a child process that dies is attributed to the call logged before it.",
                technique="runtime monitoring: hostile well-formed NRI requests through the real handlers under recover(), canary lifecycles / differential canaries against a fresh instance, process-death attribution",
                text="Exploration: (a) resource-policy pipeline, both policies: hostile histories (unknown/duplicate/out-of-order IDs, containers of unknown pods, Synchronize with dangling references, every interpreted annotation key x hostile values, absent sub-messages, extreme resource values); every handler call must return without panicking and a benign reserved-class canary lifecycle must succeed afterwards (a refusal for exhausted capacity is accepted); (b) memory-qos, memtierd, sgx-epc: tens of thousands of event sequences on fresh plugin instances (missing/hostile configuration, absent sub-messages, 13 hostile value classes per annotation key); after every refused or panicked call and at the end of every case a benign sequence must answer exactly like a fresh instance.",
                ref="DESIGN.md §4 C14, §10.8"),
    "C15": dict(engine="rm", note=RM_NOTE + " Race reports come from the Go race detector (happens-before: reports real races on executed paths only, never false ones).",
                technique="runtime monitoring: Go race detector over concurrent handler bursts; porcupine linearizability check of cache membership; state-invariant monitors at quiescence; watchdog for deadlocks",
                text="Exploration: a -race build of the real pipeline (both policies) receives bursts of 2-6 concurrent requests (container and pod lifecycle, updates, Synchronize, reconfigure, policy events) plus a fake kubelet pod-resources server with PRNG delays; the race detector must stay silent (reports are deduplicated by site pair), the recorded call/return history must be linearizable against a sequential membership model, all order-independent C01-C05/C09 clauses are checked at quiescence, a watchdog flags bursts that never return (the fake kubelet also fails and answers after the client's timeout; the first instance of each process runs with the metrics exporter and its lock), a hook asserts that unsolicited updates are sent with the pipeline lock held, every fourth history races reconfigurations that are rejected after the policy started applying them against creates (no reply may pin to CPUs outside the accepted configurations' available sets), and a pod inserted with a pending resource fetch - also one already known from a Synchronize, also one answered late - must see its result.",
                ref="DESIGN.md §4 C15, §10.2"),
    "C16": dict(engine="lib", note=LIB_NOTE, technique="runtime monitoring: discovered sysfs.System vs generating machine model; topology-aware pool tree vs shape computed from model + configuration",
                text="Exploration: thousands of generated machines written as sysfs trees (one in six with the pre-5.3 attribute names only); every accessor of the discovered system is compared with the generating model; for several configurations per machine the real topology-aware backend is set up (directly, or by Reconfigure() on a backend set up with the previous configuration) and its pool tree (root, levels, CPU splits, memory attachment incl. CPU-less PMEM/HBM nodes) is compared with the documented shape.",
                ref="DESIGN.md §4 C16"),
    "C17": dict(engine="agent", note="Trusted base: the Go toolchain; the in-package test driver (fake ConfigInterface, recorder callback). Precedence engine: events are fed to the agent's two update functions exactly as the select loop of Agent.Start calls them. Event-delivery engine: the real ObjectWatch runs against a scripted fake API server (CreateFn and inner watch); its bounded-progress verdict uses a wall-clock bound of 4 x the code's reopen delay.",
                technique="runtime monitoring: exhaustive event-sequence enumeration to depth 5/7 with trace invariants and a doc-derived reference state machine; bounded-progress and exactly-once delivery monitor on the real ObjectWatch under injected watch expiry / API faults",
                text="Exploration, exhaustive up to the stated depth: every sequence of watch events over a 15-event alphabet is fed to a fresh Agent; after every event the notify/patch trace is checked against precedence, fallback, re-delivery suppression and validation invariants. Event-delivery layer: the real ObjectWatch is driven through every sequence of 2 (thorough 3) phases over {watch expires, Error event} x {0..3 refused re-creations}: the watch must keep retrying (next attempt within 4 x reopenDelay), and events must flow again exactly once, in order.",
                ref="DESIGN.md §4 C17"),
    "C18": dict(engine="lib", note=LIB_NOTE + " Side plugins: in-package test drivers (overlay) calling the real CreateContainer/StartContainer/parseEpcLimit; reference resolvers written from docs/memory/*.md.",
                technique="runtime monitoring: doc-derived reference resolver vs real lookups under shuffled map insertion orders; reduced-map equivalence (annotations for other containers have no effect); explicit parameter vs class-derived value",
                text="Exploration: annotation maps with container names that are prefixes/suffixes of each other and look-alike keys; for the resource-policy cache every policy annotation key is resolved through the real cache pod/container lookups in 4 insertion orders x 16 repetitions; for memory-qos, memtierd and sgx-epc every map is evaluated 16 times through the real handlers with shuffled map order and once reduced to the effective annotations; results are compared with the documented precedence (container-specific > pod-wide > bare key) and, in memory-qos/memtierd, explicit cgroup parameters must override class-derived values.",
                ref="DESIGN.md §4 C18, §10.8"),
    "C19": dict(engine="lib", note=LIB_NOTE, technique="runtime monitoring: operator duality, doc-derived reference evaluator, joint keys, weight clamping, balloon-type selection through the real policy",
                text="Exploration: hundreds of thousands of expressions evaluated on real cache pods/containers against dual-operator laws and a reference evaluator written from the documentation; affinity weights parsed from real annotations; balloon type observed in the real balloons policy against the documented selection order (random allocator priorities, pre-created instances, types re-ordered by a reconfiguration).",
                ref="DESIGN.md §4 C19"),
    "C20": dict(engine="lib", note=LIB_NOTE, technique="runtime monitoring: exhaustive CPU encode/decode laws (default and 15 other CFS periods); sampled + structured memory capacities with full adjustment round trips",
                text="Exploration (CPU part exhaustive): all milli-CPU values 0..256000, all shares 2..262144 and all quotas are checked for tolerance, exactness and monotonicity; the memory estimate table is built under recover for >100k capacities >= 1 MiB and every Burstable adjustment is round-tripped; containers of the three QoS classes go through the real cache.",
                ref="DESIGN.md §4 C20"),
})

NOT_YET = {}

ALL = ["C%02d" % i for i in range(1, 21)]


def main():
    checks = []
    for pid in ALL:
        c = CLAIMS.get(pid)
        if not c:
            continue
        checks.append({
            "property_id": pid,
            "quick_cmd": "./check %s --tier quick" % pid,
            "thorough_cmd": "./check %s --tier thorough" % pid,
            "evidence_file": "/verif/evidence/%s.json" % pid,
            "replay_cmd_template": "./check %s --replay {path}" % pid,
            "engine": c["engine"],
            "level_claimed": {"category": c.get("category", "exploration"), "text": c["text"], "design_ref": c["ref"]},
            "level_note": c.get("note", RM_NOTE),
            "technique": c["technique"],
        })
    na = []
    for pid in ALL:
        if pid not in CLAIMS:
            na.append({"property_id": pid, "reason": NOT_YET.get(pid, "check not built yet in this revision of /verif; planned per DESIGN.md §4 (runtime monitoring applies), not claimed until its monitor exists and is silent on the unchanged tree")})
    man = {
        "version": 1,
        "setup_cmd": "./check setup",
        "hooks": {
            "guard": "verif",
            "enable": "go build -tags verif -overlay /verif/.build/overlay.json (all hook/accessor files live under /verif/overlay with //go:build verif and are injected at build time; /repo carries no hook code). Files: overlay/pkg/resmgr/verif_harness.go, overlay/pkg/resmgr/cache/verif_access.go, overlay/pkg/resmgr/control/cpu/verif_access.go, overlay/pkg/agent/verif_access.go, overlay/pkg/agent/verif_agent_test.go, overlay/pkg/agent/watch/verif_watch_test.go, overlay/cmd/plugins/topology-aware/policy/verif_snapshot.go, overlay/cmd/plugins/topology-aware/policy/verif_prefs.go, overlay/cmd/plugins/balloons/policy/verif_snapshot.go, overlay/cmd/plugins/{memory-qos,memtierd,sgx-epc}/verif_side_test.go",
            "baseline_off_cmd": "cd /repo && go test -mod=mod -json -vet=off -count=1 -timeout 25m ./... ; cd /repo/pkg/topology && go test -json -vet=off -count=1 -timeout 25m ./...",
            "source_commits": [],
            "add_only": True,
        },
        "engines": [
            {"name": "rm", "path": "/verif/harness/cmd/rm", "serves_properties": sorted([p for p, c in CLAIMS.items() if c["engine"] == "rm"]),
             "kind_free_text": "real resmgr (cache + policy + controllers + either policy backend) driven through the real nriPlugin handlers by a runtime model; online monitors after every request"},
            {"name": "lib", "path": "/verif/harness/cmd/lib", "serves_properties": sorted([p for p, c in CLAIMS.items() if c["engine"] == "lib"]),
             "kind_free_text": "direct calls of public package APIs on generated inputs with independent oracles"},
            {"name": "agent", "path": "/verif/overlay/pkg/agent/verif_agent_test.go", "serves_properties": ["C17"],
             "kind_free_text": "in-package test driver of pkg/agent built with go test -c -overlay"},
            {"name": "side", "path": "/verif/overlay/cmd/plugins", "serves_properties": ["C14", "C18"],
             "kind_free_text": "in-package test drivers of cmd/plugins/{memory-qos,memtierd,sgx-epc} built with go test -c -overlay; run next to the rm (C14) and lib (C18) jobs of the same check"},
        ],
        "checks": checks,
        "notes": "Runtime monitoring only. Exit codes: 0 held / 1 VIOLATION / 2 INCONCLUSIVE (never a VIOLATION line). Known findings: /verif/known-findings.jsonl. See DESIGN.md.",
        "not_applicable": na,
    }
    with open(os.path.join(VERIF, "MANIFEST.json"), "w") as fh:
        json.dump(man, fh, indent=1)
    print("wrote MANIFEST.json with %d checks, %d not claimed" % (len(checks), len(na)))


if __name__ == "__main__":
    main()
