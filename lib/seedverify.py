#!/usr/bin/env python3
"""Independent confirmation of a seeded change delivered by a mutation sub-agent, in that agent's scratch worktree:
  1. the patch applies to a clean checkout and `go build ./...` succeeds,
  2. the pinned suite (both modules, guard off) still passes every stable test of /root/.vp/BASELINE.json with the patch,
  3. the demonstration fails with the patch and passes without it.
On success the change is copied to /verif/seeded/<name>/ (patch.diff, demo/, meta.json extended by what was run here).

usage: lib/seedverify.py <worktree> <change-dir-name> <name> [--demo-dir <pkg dir>] [--skip-suite]"""
import argparse, glob, json, os, re, shutil, subprocess, sys, time

VERIF = os.path.dirname(os.path.dirname(os.path.abspath(__file__)))
ENV = dict(os.environ, GOFLAGS="-mod=mod", GOPROXY="off", GOSUMDB="off", GOTOOLCHAIN="local")


def sh(cmd, cwd, timeout=3600):
    p = subprocess.run(cmd, cwd=cwd, env=ENV, stdout=subprocess.PIPE, stderr=subprocess.STDOUT, text=True, shell=isinstance(cmd, str), timeout=timeout)
    return p.returncode, p.stdout


def main():
    ap = argparse.ArgumentParser()
    ap.add_argument("wt"); ap.add_argument("change"); ap.add_argument("name")
    ap.add_argument("--demo-dir", default="")
    ap.add_argument("--skip-suite", action="store_true")
    a = ap.parse_args()
    wt, d = a.wt, os.path.join(a.wt, "_deliver", a.change)
    meta = json.load(open(os.path.join(d, "meta.json")))
    patch = os.path.join(d, "patch.diff")
    rep = {"worktree_commit": sh("git rev-parse HEAD", wt)[1].strip(), "steps": []}

    def step(name, ok, detail=""):
        rep["steps"].append({"step": name, "ok": bool(ok), "detail": detail[-1500:]})
        print("%-34s %s" % (name, "ok" if ok else "FAILED"), flush=True)
        return ok

    rc, out = sh("git status --porcelain", wt)
    dirty = [l for l in out.splitlines() if not l.endswith("_deliver/") and not l.endswith("/testdata/")]  # TestCache leaves pkg/resmgr/cache/testdata behind
    if not step("worktree clean", not dirty, out):
        return finish(a, rep, False)
    touched = [l[6:] for l in open(patch) if l.startswith("+++ b/")]
    if not step("patch touches no test files", all(not t.strip().endswith("_test.go") for t in touched), str(touched)):
        return finish(a, rep, False)
    rc, out = sh(["git", "apply", patch], wt)
    if not step("patch applies", rc == 0, out):
        return finish(a, rep, False)
    ok = True
    try:
        rc, out = sh("go build ./... && (cd pkg/topology && go build ./...)", wt)
        ok = step("go build ./...", rc == 0, out) and ok
        if ok and not a.skip_suite:
            t0 = time.time()
            js = os.path.join(wt, "_deliver", a.change, "suite.json")
            rc, out = sh("(go test -json -vet=off -count=1 -timeout 25m $(go list ./... | grep -v -e /pkg/http -e /pkg/metrics) ; "
                         "flock /tmp/verif-ports.lock go test -json -vet=off -count=1 ./pkg/http/ ./pkg/metrics/ ; "
                         "cd pkg/topology && go test -json -vet=off -count=1 -timeout 25m ./...) > %s 2>/dev/null" % js, wt, timeout=4000)
            rc, out = sh(["python3", os.path.join(VERIF, "lib", "baseline.py"), js], wt)
            for attempt in range(4):
                # pkg/http and pkg/metrics bind fixed TCP ports: they collide with any other suite running on this machine
                miss = re.findall(r"^\s+(github\S+)::", out, re.M)
                if rc == 0 or not miss or any("/pkg/http" not in m and "/pkg/metrics" not in m for m in miss):
                    break
                time.sleep(20)
                sh("flock /tmp/verif-ports.lock go test -json -vet=off -count=1 ./pkg/http/ ./pkg/metrics/ >> %s 2>/dev/null" % js, wt)
                rc, out = sh(["python3", os.path.join(VERIF, "lib", "baseline.py"), js], wt)
            os.remove(js)
            ok = step("pinned suite with patch (%ds)" % (time.time() - t0), rc == 0, out) and ok
            rep["suite"] = out.strip().splitlines()[:3]
        # demonstration
        demos = sorted(glob.glob(os.path.join(d, "demo", "*_test.go")))
        if not demos:
            ok = step("demonstration is a go test file", False, "no *_test.go under demo/ - confirm by hand") and ok
        else:
            ddir = a.demo_dir or os.path.dirname(touched[0].strip())
            readme = os.path.join(d, "demo", "README.md")
            if not a.demo_dir and os.path.exists(readme):
                m = re.search(r"cp\s+\S*demo/\S+\s+(\S+)", open(readme).read())
                if m:
                    ddir = m.group(1).rstrip("/")
                    if ddir.endswith(".go"):
                        ddir = os.path.dirname(ddir)
            ddir = ddir.replace(wt + "/", "")
            tests, dirs, placed = [], [], []
            rd = open(readme).read() if os.path.exists(readme) else ""
            for f in demos:
                tests += re.findall(r"^func (Test\w+)\(", open(f).read(), re.M)
                fd = ddir
                m = None
                for line in rd.splitlines():  # per-file destination named in the README: last word of the cp command that names the file
                    w = line.strip().split()
                    if len(w) >= 3 and w[0] == "cp" and any(x.endswith(os.path.basename(f)) for x in w[1:-1]):
                        m = w[-1]
                        break
                if m and not a.demo_dir:
                    fd = m.rstrip("/").replace(wt + "/", "")
                    if fd.endswith(".go"):
                        fd = os.path.dirname(fd)
                shutil.copy(f, os.path.join(wt, fd))
                placed.append(os.path.join(wt, fd, os.path.basename(f)))
                if "./" + fd + "/" not in dirs:
                    dirs.append("./" + fd + "/")
            run = "^(" + "|".join(tests) + ")$"
            cmd = ["go", "test", "-vet=off", "-count=1", "-timeout", "20m", "-run", run] + dirs
            rep["demo_cmd"] = " ".join(cmd)
            rc1, out1 = sh(cmd, wt)
            ok = step("demo FAILS with patch", rc1 != 0 and "FAIL" in out1 and "[build failed]" not in out1, out1) and ok
            sh(["git", "apply", "-R", patch], wt)
            rc2, out2 = sh(cmd, wt)
            ok = step("demo PASSES without patch", rc2 == 0, out2) and ok
            for f in placed:
                os.remove(f)
    finally:
        sh(["git", "apply", "-R", patch], wt)
        sh("git checkout -- .", wt)
    rc, out = sh(["git", "-C", "/repo", "apply", "--check", patch], wt)
    ok = step("patch applies to /repo HEAD", rc == 0, out) and ok
    return finish(a, rep, ok, meta, d)


def finish(a, rep, ok, meta=None, d=None):
    rep["confirmed"] = ok
    print("CONFIRMED" if ok else "NOT CONFIRMED", a.name)
    if ok:
        dst = os.path.join(VERIF, "seeded", a.name)
        shutil.rmtree(dst, ignore_errors=True)
        os.makedirs(dst)
        shutil.copy(os.path.join(d, "patch.diff"), dst)
        shutil.copytree(os.path.join(d, "demo"), os.path.join(dst, "demo"))
        meta = dict(meta, confirmed_by_lead=rep)
        json.dump(meta, open(os.path.join(dst, "meta.json"), "w"), indent=1)
    else:
        json.dump(rep, open(os.path.join(a.wt, "_deliver", a.change, "verify-failed.json"), "w"), indent=1)
    return 0 if ok else 1


if __name__ == "__main__":
    sys.exit(main())
