#!/usr/bin/env python3
"""Compare a `go test -json` run of /repo (guard off) with /root/.vp/BASELINE.json: every stable_pass test must pass."""
import json, sys
base = json.load(open('/root/.vp/BASELINE.json'))
stable = set(base['stable_pass'])
res = {}
for line in open(sys.argv[1], errors='replace'):
    line = line.strip()
    if not line.startswith('{'):
        continue
    try:
        ev = json.loads(line)
    except Exception:
        continue
    if ev.get('Action') in ('pass', 'fail', 'skip') and ev.get('Test'):
        res[ev['Package'] + '::' + ev['Test']] = ev['Action']
missing = sorted(t for t in stable if res.get(t) != 'pass')
print("stable tests: %d, passing now: %d, not passing: %d" % (len(stable), len(stable) - len(missing), len(missing)))
for t in missing[:40]:
    print("  ", t, res.get(t))
newfail = sorted(t for t, a in res.items() if a == 'fail' and t not in stable and t not in set(base['always_fail']) and t not in set(base['flaky']))
print("failing tests outside baseline lists:", newfail[:20])
sys.exit(1 if missing else 0)
