#!/usr/bin/env python3
"""Prints the seeded-change detection table (markdown) from /verif/seeded/*/meta.json and detection.json."""
import glob, json, os, re
VERIF = os.path.dirname(os.path.dirname(os.path.abspath(__file__)))
FIRST_PASS_MISSED = {"C01-change2", "C03-change2", "C04-change1", "C05-change1", "C05-change2", "C09-change1", "C09-change2", "C11-change2",
                     "C12-change1", "C13-change1", "C13-change2", "C14-change1", "C15-change1", "C15-change2", "C19-change2",
                     "C05-r2-change2", "C12-r2-change1", "C13-r2-change1", "C15-r2-change2", "C16-r2-change1", "C16-r2-change2",
                     "C08-r5-change1", "C06-r4-change1", "C16-r4-change1", "C17-r4-change1", "C18-r4-change1", "C20-r4-change1",
                     "C02-r3-change2", "C05-r3-change1", "C05-r3-change2", "C12-r3-change1", "C14-r3-change1", "C15-r3-change1", "C15-r3-change2", "C19-r3-change2"}
rows = []
for d in sorted(glob.glob(os.path.join(VERIF, "seeded", "*"))):
    name = os.path.basename(d)
    meta = json.load(open(os.path.join(d, "meta.json")))
    det = json.load(open(os.path.join(d, "detection.json"))) if os.path.exists(os.path.join(d, "detection.json")) else []
    caught = sorted({r["property"] for r in det if r["exit"] == 1 and r["violations"] > 0})
    ran = sorted({r["property"] for r in det})
    missed = [p for p in ran if p not in caught]
    what = re.sub(r"\s+", " ", meta.get("summary", ""))[:150]
    first = ""
    if name in FIRST_PASS_MISSED:
        first = "missed in the first pass"
    if meta.get("neutralised"):
        first = "no longer breaks the property since " + meta["neutralised"]["since"] + " (its own demonstration passes with the patch)"
    rows.append((name, meta.get("property", ""), what, ", ".join(caught) or "-", ", ".join(missed) or "", first))
print("| seeded change | breaks | what it does (abridged) | caught by check(s) | ran silent | note |")
print("|---|---|---|---|---|---|")
for r in rows:
    print("| %s | %s | %s | %s | %s | %s |" % r)
n = len(rows); c = sum(1 for r in rows if r[3] != "-"); z = sum(1 for r in rows if "no longer breaks" in r[5])
print("\n%d of %d seeded changes are caught by at least one quick check; %d no longer break their property on the current tree." % (c, n, z))
