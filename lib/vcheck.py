import argparse, fcntl, glob, hashlib, json, os, re, shutil, subprocess, sys, tempfile, time
from concurrent.futures import ThreadPoolExecutor

VERIF = os.path.dirname(os.path.dirname(os.path.abspath(__file__)))
BUILD = os.path.join(VERIF, ".build")
BIN = os.path.join(BUILD, "bin")
HARNESS = os.path.join(VERIF, "harness")
OVERLAY_SRC = os.path.join(VERIF, "overlay")
REPO = "/repo"
NCPU = os.cpu_count() or 16

GOENV = dict(os.environ, GOFLAGS="-mod=mod", GOPROXY="off", GOSUMDB="off", GOTOOLCHAIN="local",
             CGO_ENABLED=os.environ.get("CGO_ENABLED", "1"))


def log(*a):
    print(*a, flush=True)


class Inconclusive(Exception):
    pass


# ---------------------------------------------------------------- build

def write_overlay():
    os.makedirs(BUILD, exist_ok=True)
    ov = {}
    for root, _, files in os.walk(OVERLAY_SRC):
        for f in files:
            src = os.path.join(root, f)
            rel = os.path.relpath(src, OVERLAY_SRC)
            ov[os.path.join(REPO, rel)] = src
    path = os.path.join(BUILD, "overlay.json")
    tmp = path + ".%d" % os.getpid()
    with open(tmp, "w") as fh:
        json.dump({"Replace": ov}, fh, indent=1)
    os.replace(tmp, path)
    return path


def build(engine, race=False):
    """(Re)build a driver from /repo's current working tree with the verif tag and the overlay."""
    os.makedirs(BIN, exist_ok=True)
    os.makedirs(os.path.join(BUILD, "run"), exist_ok=True)
    out = os.path.join(BIN, engine + ("-race" if race else ""))
    lock = open(os.path.join(BUILD, "build.lock"), "w")
    fcntl.flock(lock, fcntl.LOCK_EX)
    try:
        ov = write_overlay()
        gosum = os.path.join(HARNESS, "go.sum")
        if not os.path.exists(gosum) or os.path.getmtime(gosum) < os.path.getmtime(os.path.join(REPO, "go.sum")):
            shutil.copy(os.path.join(REPO, "go.sum"), gosum)
        cmd = ["go", "build", "-tags", "verif", "-overlay", ov, "-o", out]
        if race:
            cmd.append("-race")
        cmd.append("./cmd/" + engine)
        t0 = time.time()
        p = subprocess.run(cmd, cwd=HARNESS, env=GOENV, stdout=subprocess.PIPE, stderr=subprocess.STDOUT, text=True)
        if p.returncode != 0:
            raise Inconclusive("build of %s failed:\n%s" % (engine, p.stdout[-4000:]))
        log("built %s in %.1fs" % (os.path.basename(out), time.time() - t0))
        if engine == "rm":
            ensure_sysfs(out)
    finally:
        fcntl.flock(lock, fcntl.LOCK_UN)
        lock.close()
    return out


def ensure_sysfs(rmbin):
    """Materialise the machine catalogue (regenerated when the generator changes)."""
    src = os.path.join(HARNESS, "sysgen", "sysgen.go")
    h = hashlib.sha256(open(src, "rb").read()).hexdigest()
    root = os.path.join(BUILD, "sysfs")
    stamp = os.path.join(root, ".stamp")
    if os.path.exists(stamp) and open(stamp).read() == h:
        return
    shutil.rmtree(root, ignore_errors=True)
    os.makedirs(root)
    p = subprocess.run([rmbin, "--mode", "gen-sysfs", "--roots", root], stdout=subprocess.PIPE, stderr=subprocess.STDOUT, text=True)
    if p.returncode != 0:
        raise Inconclusive("sysfs generation failed: " + p.stdout[-2000:])
    open(stamp, "w").write(h)


# ---------------------------------------------------------------- jobs

def run_job(job):
    """Run one child process; output goes to files (never pipes) so goroutine dumps survive."""
    os.makedirs(job["work"], exist_ok=True)
    so = open(os.path.join(job["work"], "stdout.txt"), "w")
    se = open(os.path.join(job["work"], "stderr.txt"), "w")
    cmd = ["timeout", "-s", "QUIT", str(job.get("timeout", 900))] + job["cmd"]
    t0 = time.time()
    env = dict(os.environ)
    env.update(job.get("env", {}))
    p = subprocess.run(cmd, stdout=so, stderr=se, env=env, cwd=job.get("cwd"))
    so.close(); se.close()
    job["rc"] = p.returncode
    job["wall"] = time.time() - t0
    return job


def run_jobs(jobs, par=None):
    par = par or NCPU
    with ThreadPoolExecutor(max_workers=par) as ex:
        return list(ex.map(run_job, jobs))


# ---------------------------------------------------------------- known findings

def load_known():
    path = os.path.join(VERIF, "known-findings.jsonl")
    out = []
    if os.path.exists(path):
        for line in open(path):
            line = line.strip()
            if not line or line.startswith("#"):
                continue
            rec = json.loads(line)
            if "fixed" in rec:
                continue  # fixed entries suppress nothing
            out.append(rec)
    return out


def match_known(known, v):
    for k in known:
        if k["property"] != v["prop"]:
            continue
        if k.get("check") and k["check"] != v["check"]:
            continue
        if k.get("sig_regex") and not re.search(k["sig_regex"], v.get("sig", "")):
            continue
        return k
    return None


# ---------------------------------------------------------------- result handling

class Result:
    def __init__(self, prop, tier, seed):
        self.prop, self.tier, self.seed = prop, tier, seed
        self.stats = {}
        self.seen = set()
        self.viol = []          # dicts: prop, check, sig, msg, replay
        self.samples = []
        self.evaluations = 0
        self.notes = []
        self.inconclusive = []
        self.extra = {}
        self.t0 = time.time()

    def add_stats(self, st):
        for k, v in st.items():
            self.stats[k] = self.stats.get(k, 0) + v


def save_replay(prop, src, tag):
    d = os.path.join(os.environ.get("VERIF_REPLAY_DIR") or os.path.join(VERIF, "replays"), prop)
    os.makedirs(d, exist_ok=True)
    dst = os.path.join(d, tag + "-" + os.path.basename(src))
    try:
        shutil.copy(src, dst)
    except Exception:
        return src
    return dst


def finish(res, spec):
    """Apply floors, match known findings, write evidence, print verdict lines; return exit code."""
    known = load_known()
    if not spec.get("no_clean_floor") and ("requests_monitored_in_clean_state" in res.stats or "requests_monitored_after_known_defect" in res.stats):
        spec = dict(spec)
        spec["floors"] = dict(spec.get("floors", {}), requests_monitored_in_clean_state=5000)
    new, kf, kfsig = [], {}, {}
    for v in res.viol:
        k = match_known(known, v)
        if k:
            kf.setdefault(k["id"], [k, 0])
            kf[k["id"]][1] += 1
            key = "%s: %s | %s" % (k["id"], v["check"], v.get("sig"))
            kfsig[key] = kfsig.get(key, 0) + 1
        else:
            new.append(v)
    floors = spec.get("floors", {})
    for key, lo in floors.items():
        if res.stats.get(key, 0) < lo:
            res.inconclusive.append("coverage floor not reached: %s=%d < %d" % (key, res.stats.get(key, 0), lo))
    distinct = len(res.seen) if res.seen else res.extra.get("distinct_nontrivial", 0)
    cov = {
        "evaluations": int(res.evaluations),
        "distinct_nontrivial": int(distinct),
        "rule": spec.get("rule", ""),
        "samples": res.samples[:3] if res.samples else [{"note": "no sample recorded"}],
        "observed": {k: res.stats[k] for k in sorted(res.stats)},
        "known_findings_seen": {i: n for i, (k, n) in kf.items()},
        "known_findings_by_signature": {k: kfsig[k] for k in sorted(kfsig)},
        "jobs": res.extra.get("jobs", 0),
    }
    for k, v in res.extra.items():
        if k not in cov:
            cov[k] = v
    ev = {
        "property_id": res.prop, "tier": res.tier, "seed": int(res.seed), "level": spec.get("level", "exploration"),
        "coverage": cov, "assumptions": spec.get("assumptions", []),
        "wall_s": round(time.time() - res.t0, 1), "violations": len(new),
    }
    if res.inconclusive:
        ev["coverage"]["inconclusive"] = res.inconclusive
    evdir = os.environ.get("VERIF_EVIDENCE_DIR") or os.path.join(VERIF, "evidence")  # seedtest redirects it: runs on mutated trees must not overwrite the evidence
    os.makedirs(evdir, exist_ok=True)
    evp = os.path.join(evdir, res.prop + ".json")
    with open(evp + ".tmp", "w") as fh:
        json.dump(ev, fh, indent=1)
    os.replace(evp + ".tmp", evp)
    log("%s tier=%s seed=%s: evaluations=%d distinct_nontrivial=%d wall=%.0fs" % (res.prop, res.tier, res.seed, cov["evaluations"], cov["distinct_nontrivial"], ev["wall_s"]))
    for i, (k, n) in sorted(kf.items()):
        log("KNOWN-FINDING: property=%s %s [%s, seen %d time(s)]" % (res.prop, k["what_fails"], i, n))
    if new:
        seen = set()
        for v in new:
            key = (v["prop"], v["check"], v.get("sig"))
            if key in seen:
                continue
            seen.add(key)
            log("VIOLATION property=%s replay=%s" % (res.prop, v.get("replay", "")))
            log("   check=%s sig=%s: %s" % (v["check"] if v["prop"] == res.prop else v["prop"] + "/" + v["check"], v.get("sig"), v["msg"][:600]))
        return 1
    if res.inconclusive:
        for r in res.inconclusive:
            log("INCONCLUSIVE property=%s reason=%s" % (res.prop, r))
        return 2
    log("HELD property=%s on everything explored" % res.prop)
    return 0


# ---------------------------------------------------------------- rm engine (pipeline histories)

TA, BLN = "topology-aware", "balloons"

RM_MACHINES_QUICK = ["m04-2s4c2t", "m06-2s4c2t-iso", "m03-1s2n4c2t", "m07-1s2d2n2c2t", "m05-2s2n4c2t-pmem", "m02-1s4c2t", "m10-2s3c2t-off", "m09-1s8c-hybrid"]
RM_MACHINES_MORE = ["m01-1s4c", "m08-2s2n2c-hbm", "m11-2s2n3c2t-memless", "m12-4s2n4c2t", "m13-1s2c", "m14-2s2n4c2t-pmem-mov", "m15-4s2n8c2t"]
MEM_MACHINES = ["m05-2s2n4c2t-pmem", "m08-2s2n2c-hbm", "m11-2s2n3c2t-memless", "m14-2s2n4c2t-pmem-mov", "m03-1s2n4c2t", "m07-1s2d2n2c2t", "m12-4s2n4c2t", "m04-2s4c2t"]

RM_SPECS = {
    "C01": dict(policies=[TA], bias="mix", machines=RM_MACHINES_QUICK, floors={"c01_states_with_exclusive": 200, "c03_grants_isolated": 300},
                rule="histories of lifecycle-valid NRI requests generated from VERIF_SEED on catalogue machines under random accepted topology-aware configurations; monitors run after every request; non-trivial = post-request state with >=2 live containers and >=1 exclusive grant, distinct by (machine, config generation, sorted exclusive-grant shapes, live count)"),
    "C02": dict(policies=[BLN], bias="mix", machines=RM_MACHINES_QUICK, floors={"c02_states_nonempty": 200, "c02_idle_scope_checked": 100, "c02_hidden_ht_checked": 20},
                rule="histories under random balloons configurations; non-trivial = post-request state with >=2 live containers and >=1 non-empty balloon, distinct by (machine, config generation, sorted (type, #cpus, #shared idle, #members))"),
    "C03": dict(policies=[TA], bias="fill", machines=RM_MACHINES_QUICK, floors={"c03_tight_states": 200, "c03_grants_mixed": 20, "c03_grants_multi": 20, "create_failed": 200, "c03_grants_isolated": 50},
                rule="fill-biased histories; non-trivial = state where some pool has <1000m allocatable shared CPU or a request already failed for capacity; distinct by (machine, config generation, live container shapes incl. told cpusets)"),
    "C04": dict(policies=[TA, BLN], bias="mem", machines=MEM_MACHINES, floors={"c04_states_with_widened_zones": 100, "c04_pinned_checked": 500},
                rule="memory-pressure histories on machines with DRAM/PMEM/HBM, CPU-less, movable-only and memory-less nodes; non-trivial = state in which some allocation spans >1 node (zone widened); distinct by (machine, #allocations, multiset of (zone mask, size MiB))"),
    "C05": dict(policies=[TA, BLN], bias="mix", machines=RM_MACHINES_QUICK, floors={"c05_replies_changing_others": 200},
                rule="histories under both policies; non-trivial = a reply/push that changed >=1 container other than its subject; distinct by (machine, op, #others, state shape)"),
    "C09": dict(policies=[TA, BLN], bias="mix", machines=RM_MACHINES_QUICK, floors={"c09_nontrivial_histories": 50},
                rule="whole histories followed by stop/remove of everything and comparison with a fresh twin instance; non-trivial = history with >=1 failed request, reconfiguration or resynchronisation before quiescence; distinct by history"),
    "C12": dict(policies=[TA, BLN], bias="optout-mix", machines=RM_MACHINES_QUICK, floors={"c12_msgs_to_cpu_optout": 20, "c12_msgs_to_mem_optout": 50},
                rule="opt-out-biased histories; every adjustment/update/push addressed to an opted-out container is checked; evaluations = requests; distinct = distinct (machine, op, #others, state shape) of replies changing other containers"),
}
RM_SEEN_KEY = {"C12": "C05"}

C13_KINDS_TA = ["unparsable-available", "unparsable-reserved", "reserved-outside-available", "available-quantity", "missing-reserved"]
C13_KINDS_BLN = ["unparsable-available", "reserved-outside-available", "duplicate-type", "min-gt-max-cpus", "min-gt-max-balloons", "undefined-load", "bad-memory-type", "unsatisfiable"]

MODE_SPECS = {
    "C13": dict(policies=[TA, BLN], bias="mix", machines=RM_MACHINES_QUICK, modes=["seq", "twin"], props="C01,C02,C03,C04,C05,C12,C13,C14",
                # C13: "after an accepted update every created or running container still holds an allocation that satisfies all
                # invariants under the new configuration ... and every changed resource is pushed to the runtime": the clauses of
                # C01-C05/C12 count for C13 when the request they fire on is a reconfiguration
                report=["C13", "C01", "C02", "C03", "C04", "C05", "C12"], report_ops=["reconf"],
                floors=dict({"c13_identical_checked": 100, "c13_rejected_checked": 60, "c13_accepted_checked": 100, "c13_twin_injected": 100,
                             "c13_identical_checked_in_clean_state": 40, "c13_rejected_checked_in_clean_state": 25, "c13_twin_injected_in_clean_state": 40},
                            **{"c13_twin_rejected_" + k: 1 for k in set(C13_KINDS_TA + C13_KINDS_BLN)}),
                rule="(a) every reconfiguration inside generated histories is bracketed by a before/after observation (per-container cache resources, advertised zones, policy assignments, pushed updates): identical configs must change nothing, rejected ones must change nothing; (b) differential twins: a deterministic (self-twin calibrated) history is replayed with a rejected update of a PRNG-chosen kind injected at a PRNG-chosen request boundary and must be indistinguishable from the twin at every later request; after accepted updates every live container must still hold an allocation. distinct = distinct (kind, machine, state shape) brackets + injected twin cases"),
    "C11": dict(policies=[TA, BLN], bias="mix", machines=RM_MACHINES_QUICK, modes=["restart"], props="C01,C02,C03,C04,C05,C09,C11,C12",
                # C11: "... every allocation invariant (C01-C04) holds; the returned updates bring the runtime's view in line with the
                # cache": in restart histories the clauses of the other pipeline properties are reported under C11
                report=["C11", "C01", "C02", "C03", "C04", "C05", "C09", "C12"],
                floors={"c11_restart_checked_fresh-cache": 100, "c11_restart_checked_stale-cache": 100, "c11_down_create": 50, "c11_down_stop": 50},
                level="fault_enumeration",
                rule="histories with 1-2 plugin restarts: state-directory snapshot at a PRNG-chosen request boundary, plugin down, runtime drift (containers created/started/stopped/removed, pods added/removed while down), restart on the current or on the stale snapshot directory, Synchronize with the runtime's lists; then membership equalities (live <=> holds allocation, decided against a cache-less reference plugin synchronized with the same lists; gone => purged) and all C01-C05/C09/C12 monitors, on the restart and on every later request; distinct = distinct (machine, fresh|stale, restart number, post-sync state shape, policy)"),
}


MODE_SPECS["C14"] = dict(policies=[TA, BLN], bias="mix", machines=RM_MACHINES_QUICK, modes=["hostile"], props="C14", no_clean_floor=True,
    floors={"hostile_CreateContainer": 1000, "hostile_UpdateContainer": 500, "hostile_Synchronize": 300, "hostile_StopPodSandbox": 200, "hostile_RemovePodSandbox": 200, "hostile_refused": 300, "c14_canaries_ok": 500},
    rule="hostile histories: a short benign prefix, then well-formed but hostile NRI requests (known/unknown/duplicate IDs, out-of-order lifecycle, containers of unknown pods, Synchronize with dangling references and duplicates, every interpreted annotation key x hostile values, absent optional sub-messages, zero/negative/huge resource values) through the real handlers under recover(); after a third of them a benign canary lifecycle must succeed; distinct by (policy, handler, refused?, request size class)")


def check_modes(prop, tier, seed):
    spec = MODE_SPECS[prop]
    res = Result(prop, tier, seed)
    rmbin = build("rm")
    rundir = os.path.join(BUILD, "run", "%s-%d" % (prop, os.getpid()))
    shutil.rmtree(rundir, ignore_errors=True)
    jobs = []
    for mode in spec["modes"]:
        sub = os.path.join(rundir, mode)
        js = rm_jobs(prop, tier, seed, rmbin, sub, mode=mode, spec=spec)
        jobs += js
    jobs = run_jobs(jobs)
    collect_rm(res, jobs, prop, props=spec.get("report", [prop]), report_ops=spec.get("report_ops"))
    rc = finish(res, dict(spec, level=spec.get("level", "exploration"), assumptions=RM_ASSUMPTIONS))
    if rc == 0:
        shutil.rmtree(rundir, ignore_errors=True)
    return rc


def rm_jobs(prop, tier, seed, rmbin, rundir, mode="seq", extra_args=None, spec=None):
    spec = spec or RM_SPECS[prop]
    machines = list(spec["machines"])
    hists, steps = 40, 40
    if tier == "thorough":
        machines = machines + [m for m in RM_MACHINES_MORE if m not in machines]
        hists, steps = 400, 50
    jobs = []
    shard = 0
    for pol in spec["policies"]:
        for mname in machines:
            nsh = 2 if tier == "quick" else 3
            for s in range(nsh):
                work = os.path.join(rundir, "j%03d" % shard)
                out = os.path.join(work, "out.json")
                cmd = [rmbin, "--mode", mode, "--policy", pol, "--machine", mname, "--roots", os.path.join(BUILD, "sysfs"),
                       "--seed", str(seed), "--shard", str(shard), "--hists", str(hists), "--steps", str(steps),
                       "--props", spec.get("props", prop), "--bias", spec.get("bias", "mix"), "--out", out, "--work", work]
                cmd += extra_args or []
                jobs.append(dict(cmd=cmd, work=work, out=out, name="%s/%s/%d" % (pol, mname, shard), timeout=1800 if tier == "quick" else 7200))
                shard += 1
    return jobs


def collect_rm(res, jobs, prop, props=None, report_ops=None):
    props = props or [prop]
    for j in jobs:
        if not os.path.exists(j["out"]):
            res.inconclusive.append("job %s produced no result (rc=%s); see %s" % (j["name"], j.get("rc"), j["work"]))
            continue
        try:
            bo = json.load(open(j["out"]))
        except Exception as e:
            res.inconclusive.append("job %s: unreadable result: %s" % (j["name"], e))
            continue
        if not bo.get("done"):
            fv = fatal_violation(j, prop, res) if j.get("fatal_is_violation") else None
            if fv:
                res.viol.append(fv)
            else:
                res.inconclusive.append("job %s did not finish (rc=%s, watchdog or crash); see %s" % (j["name"], j.get("rc"), j["work"]))
        res.add_stats(bo.get("stats", {}))
        for p in [RM_SEEN_KEY.get(prop, prop)]:
            for h in bo.get("seen", {}).get(p, []) or []:
                res.seen.add(h)
        for v in bo.get("violations") or []:
            if v["prop"] not in props:
                continue
            if v["prop"] != prop and report_ops and v.get("op") not in report_ops:
                continue  # another property's clause counts here only where this property's statement includes it
            w = bo.get("witness", {}).get("%s/%s/%s" % (v["prop"], v["check"], v["sig"]), "")
            v = dict(v)
            v["replay"] = save_replay(prop, w, "s%s" % res.seed) if w else ""
            res.viol.append(v)
        for s in bo.get("samples") or []:
            if len(res.samples) < 3:
                res.samples.append(s)
    res.evaluations = sum(v for k, v in res.stats.items() if k.startswith("req_"))
    res.extra["jobs"] = len(jobs)
    res.extra["histories"] = res.stats.get("histories", 0)


def check_rm(prop, tier, seed):
    spec = RM_SPECS[prop]
    res = Result(prop, tier, seed)
    rmbin = build("rm")
    rundir = os.path.join(BUILD, "run", "%s-%d" % (prop, os.getpid()))
    shutil.rmtree(rundir, ignore_errors=True)
    jobs = run_jobs(rm_jobs(prop, tier, seed, rmbin, rundir))
    collect_rm(res, jobs, prop)
    rc = finish(res, dict(spec, level="exploration", assumptions=RM_ASSUMPTIONS))
    if rc == 0:
        shutil.rmtree(rundir, ignore_errors=True)
    return rc


RM_ASSUMPTIONS = [
    "the harness starts the real resmgr (cache, policy, controllers) by the steps of resmgr.start minus the NRI/ttrpc connection and pid file; the ttrpc stub is replaced by a recorder",
    "topology comes from generated sysfs trees; monitors take topology from the generating machine model, never from the code under test",
    "state is inspected only between requests",
]

# ---------------------------------------------------------------- C15: race detector + linearizability

C15_SPEC = dict(
    floors={"c15_bursts": 1000, "c15_overlapping_call_pairs": 5000, "c15_linearizable_bursts": 1000, "c15_fetches_checked": 2000, "c15_kubelet_calls": 300,
            "c15_kubelet_calls_failed": 200, "c15_kubelet_calls_hung": 30, "c15_rejected_reconfs_raced": 100, "c15_create_replies_checked_against_accepted_configs": 300},
    rule="the rm driver built with -race; bursts of 2-6 goroutines calling the real handlers concurrently (RunPodSandbox, CreateContainer, Start/Update/Stop/RemoveContainer, Stop/RemovePodSandbox racing with creates in the same pod, Synchronize, reconfigure; every fourth history also races reconfigurations that the policy rejects only after it has started to apply them against creates, and no CreateContainer reply may then pin to CPUs outside the available sets of the accepted configurations) while a fake kubelet pod-resources gRPC server answers with PRNG-chosen delays, injected errors and answers later than the client's timeout; oracles: (1) race reports with a repository frame on both stacks, deduplicated by the pair of racing repository functions, (2) porcupine linearizability of the recorded call/return history against a sequential model of cache membership with final cache contents appended as reads, (3) state-invariant monitors (C01-C05/C09 clauses that do not depend on reply order) at quiescence, (4) 65 s watchdog with two goroutine dumps, (5) InsertPod/GetPodResources fetch visibility. distinct = distinct (policy, burst size, completion order) of bursts",
    assumptions=["a clean -race run says nothing about pairs of accesses that never both executed",
                 "the order in which concurrent replies reach the runtime is unknown, so runtime-view clauses are not evaluated after bursts"],
)


def check_c15(prop, tier, seed):
    res = Result(prop, tier, seed)
    rmbin = build("rm", race=True)
    build("rm")  # keeps the sysfs catalogue fresh
    rundir = os.path.join(BUILD, "run", "%s-%d" % (prop, os.getpid()))
    shutil.rmtree(rundir, ignore_errors=True)
    machines = ["m04-2s4c2t", "m03-1s2n4c2t", "m06-2s4c2t-iso", "m05-2s2n4c2t-pmem"]
    hists, steps, nsh = (24, 60, 2) if tier == "quick" else (150, 80, 4)
    jobs, shard = [], 0
    for pol in (TA, BLN):
        for mname in machines:
            for _ in range(nsh):
                work = os.path.join(rundir, "r%03d" % shard)
                out = os.path.join(work, "out.json")
                cmd = [rmbin, "--mode", "race", "--policy", pol, "--machine", mname, "--roots", os.path.join(BUILD, "sysfs"),
                       "--seed", str(seed), "--shard", str(shard), "--hists", str(hists), "--steps", str(steps),
                       "--props", "C15,C14,C01,C02,C03,C04,C05,C09", "--out", out, "--work", work]
                jobs.append(dict(cmd=cmd, work=work, out=out, name="race/%s/%s/%d" % (pol, mname, shard),
                                 env={"GORACE": "halt_on_error=0 log_path=%s" % os.path.join(work, "race")}, timeout=3600 if tier == "quick" else 14400))
                shard += 1
    jobs = run_jobs(jobs)
    collect_rm(res, jobs, prop, props=["C15", "C14", "C01", "C02", "C03", "C04", "C05", "C09"])
    for v in res.viol:
        v["prop"] = "C15"  # invariants failing after concurrent delivery are C15's "all state invariants hold afterwards"
    import racelog
    nblocks, reps, distinct = racelog.collect(os.path.join(rundir, "r*", "race.*"))
    res.stats["race_report_blocks"] = nblocks
    res.stats["race_reports_with_repo_frames_on_both_stacks"] = len(reps)
    res.stats["distinct_racing_function_pairs"] = len(distinct)
    for site, rs in sorted(distinct.items()):
        d = os.path.join(VERIF, "replays", prop)
        os.makedirs(d, exist_ok=True)
        wf = os.path.join(d, "s%s-race-%s.txt" % (seed, hashlib.sha1(site.encode()).hexdigest()[:10]))
        open(wf, "w").write("racing functions: %s\nentry points: %s\nseen %d time(s)\n\n%s\n" % (site, rs[0]["entry"], len(rs), rs[0]["text"]))
        res.viol.append(dict(prop=prop, check="data-race", sig=site, msg="data race between %s (entry points %s; %s; %d report(s))" % (site, rs[0]["entry"], rs[0]["kinds"], len(rs)), replay=wf))
    res.evaluations = res.stats.get("c15_burst_ops", 0) + res.stats.get("c15_fetches_checked", 0)
    rc = finish(res, dict(C15_SPEC, level="exploration", no_clean_floor=True))
    if rc == 0:
        shutil.rmtree(rundir, ignore_errors=True)
    return rc


# ---------------------------------------------------------------- lib engine (direct API drivers)

LIB_ASSUMPTIONS = [
    "drivers call the real package APIs built from /repo's working tree; oracles are written from the property statement, the documentation and API comments, never from the implementation",
    "cases are a function of (VERIF_SEED, shard, tier) only",
]

LIB_SPECS = {
    "C10": dict(shards=16, n=dict(quick=300, thorough=5000), level="fault_enumeration",
                floors={"roundtrips": 3000, "roundtrips_second_generation": 1000, "kill_points_hit": 600, "kills_during_temp_write": 250, "kills_during_rename": 100,
                        "loads_after_kill": 600, "error_injections": 300, "refusal_cases": 300, "refusals_observed": 200, "valid_setups_accepted": 80,
                        "truncated_prefixes": 5000, "renames_onto_cache_file": 100, "policy_entries_compared": 2000, "topology_hints_compared": 1000},
                rule="per shard: N generated caches (pods with/without pod-resources, containers with partial/absent Linux resources, tags, hints, affinities, resource updates, policy entries of 11 types) saved, reloaded (also second generation) and compared through a fingerprint over every public getter; child histories of K saving operations run under strace with SIGKILL injected at the n-th write/renameat/openat/close touching the cache file or its temp file for every n until the child survives (quick 1 history x K=10, thorough 8 x K=8), the state directory loaded after every kill and compared with the pre/post hash of the unfinished operation; ENOSPC/EIO/EDQUOT/EACCES injected into the same calls; every prefix (<4 KiB, else ~200 sampled) of the next snapshot and garbage planted as the temp file; an uninjected run traced for in-place writes (rename-only); refusal matrix {cache file, state dir, containers dir} x {symlink, wrong type, fifo, g+w, o+w, both} plus 7 valid set-ups; distinct by (clause, kind, outcome class)"),
    "C06": dict(shards=16, n=dict(quick=6000, thorough=60000),
                floors={"histories_nontrivial": 20000, "failed_ops": 200000, "offers_taken": 100000, "offers_committed_fresh": 20000, "stale_commits_attempted": 30000, "twin_compared": 30000, "releases": 100000, "reallocs_changed": 20000, "resets_with_allocations": 10000},
                rule="N allocator histories per shard: a generated node set (2-8 nodes, DRAM/PMEM/HBM profiles, memory-less/movable/CPU-less nodes, 7 distance shapes, 37% with custom ExpandZone/HandleOvercommit) driven through 36-56 generated Allocate/GetOffer/Commit/Realloc/Release operations (and Reset() with offers outstanding, 4% of the steps: pristine state afterwards, offers taken before a releasing Reset are stale) (sizes up to > capacity, unknown nodes, unavailable types, all priorities, every public request constructor) plus a final sweep committing every pooled offer; a public-observer snapshot (requests, AssignedZone of every id ever used, ZoneUsage of all 2^n masks) before and after every call; a lock-step twin allocator for offer-vs-direct-allocate; distinct = histories with >=1 failed op and >=1 offer"),
    "C07": dict(shards=16, n=dict(quick=6000, thorough=60000),
                floors={"histories_nontrivial": 20000, "ops_that_moved_others": 20000, "ops_allocate_ok": 200000, "ops_commit_ok": 30000, "reallocs_changed": 20000},
                rule="same workload as C06; after every successful Allocate/Realloc/Commit: Hall fit over all 2^n node subsets, strict types, normal memory in every new zone, superset-only moves, reservations never moved, Realloc never removes nodes, returned updates = exactly the changed assignments; distinct = operations that moved other allocations"),
    "C08": dict(shards=16, n=dict(quick=5, thorough=40), tmpfs=True,
                floors={"machines": 40, "calls_alloc": 50000, "calls_release": 20000, "hybrid_machines": 3, "error_expected_and_got": 1000, "machines_with_cpus_offlined_after_discovery": 4},
                rule="N synthetic machines per shard (<=64 CPUs, hybrid/L2-cluster/offline/cpufreq variety; on every fourth machine one or two CPUs are taken offline after discovery through System.SetCpusOnline, so the topology still names them as siblings), <=3000 checked AllocateCpus/ReleaseCpus calls each over biased subsets S of the online CPUs, counts 0..|S|+1, 5 priorities x 17 flag masks; thorough: machines with <=10 online CPUs are enumerated completely; non-trivial = call with 0<n<|S|, distinct by (machine shape, |S|, n, priority, flags)"),
    "C16": dict(shards=16, n=dict(quick=150, thorough=1500), tmpfs=True,
                floors={"machines": 500, "setups_accepted": 1000, "pools_checked": 4000, "machines_pmem": 50, "machines_hbm": 30, "machines_memless": 30, "machines_offline": 30, "machines_isolated": 50, "machines_hybrid": 30, "machines_multi_die": 50, "special_nodes_attached": 500, "machines_legacy_attribute_names": 100, "setups_via_reconfigure": 500, "machines_with_movable_only_cpu_node": 60},
                rule="catalogue + N random machines per shard written as sysfs trees; every accessor of the discovered sysfs.System compared with the generating model; 3 (quick) / 5 (thorough) topology-aware configurations per machine set up through the real backend, pool tree compared with the shape computed from model + configuration; distinct = machine shape x config class for machines with >=2 pools"),
    "C19": dict(shards=16, n=dict(quick=8000, thorough=300000),
                floors={"reference_compared": 50000, "joint_keys": 20000, "weights_compared": 2000, "balloon_placements": 1500, "balloon_order_decided": 500},
                rule="N expression cases per shard on real cache pods/containers (duality, doc-derived reference evaluator, joint keys, validated-never-panics), N/20 affinity-weight cases, N/200 balloon-type selection cases through the real balloons policy; distinct by case hash"),
    "C20": dict(shards=16, n=dict(quick=8000, thorough=400000),
                floors={"cpu_values_checked": 256001, "capacities_checked": 100000, "adj_roundtrips": 10000000, "cache_containers_checked": 1000, "cfs_periods_checked": 15},
                rule="CPU part exhaustive in every shard (all m in 0..256000, all shares 2..262144, all quotas at the default period, all m at 15 other CFS periods 2 ms..1 s); memory part: fixed list of 4511 capacities + N PRNG-drawn capacities per shard in [1MiB,64TiB], table build under recover and all Burstable adjustments round-tripped; containers of the three QoS classes through the cache"),
    "C18lib": dict(prop="C18", shards=16, n=dict(quick=800, thorough=8000),
                floors={"maps_typed": 3000},
                rule="N annotation maps per shard on real cache pods (names that are prefixes/suffixes of each other, look-alike keys), 4 insertion orders x 16 repetitions per query, doc-derived resolver; typed helpers of cache and topology-aware policy"),
}


def lib_jobs(key, tier, seed, libbin, rundir, tag=""):
    spec = LIB_SPECS[key]
    prop = spec.get("prop", key)
    jobs = []
    for sh in range(spec["shards"]):
        work = os.path.join(rundir, "%s%03d" % (tag, sh))
        wdir = work
        if spec.get("tmpfs") and os.path.isdir("/dev/shm"):
            wdir = "/dev/shm/verif-%s-%d-%d" % (key, os.getpid(), sh)
        out = os.path.join(work, "out.json")
        cmd = [libbin, "--prop", prop, "--seed", str(seed), "--shard", str(sh), "--shards", str(spec["shards"]),
               "--n", str(spec["n"][tier]), "--tier", tier, "--out", out, "--work", wdir]
        jobs.append(dict(cmd=cmd, work=work, out=out, name="%s/%d" % (key, sh), scratch=wdir, timeout=1800 if tier == "quick" else 10800))
    return jobs


def fatal_violation(j, prop, res):
    """A child that died by itself (not by our timeout) without finishing: for C14 that is the process-fatal form of
    'a handler never panics' (Go fatal error, os.Exit, log.Fatal). The call is named by what the child wrote to disk
    before making it. A timeout (rc 124/137) stays inconclusive."""
    rc = j.get("rc")
    if rc in (0, 124, 137, None):
        return None
    try:
        err = open(os.path.join(j["work"], "stderr.txt"), errors="replace").read()
    except Exception:
        err = ""
    m = re.search(r"^(fatal error: .*|panic: .*|runtime: .*)$", err, re.M)
    first = m.group(1)[:160] if m else "exit status %s" % rc
    if m:
        # blame: the first non-runtime frame of the first goroutine dumped must be code under test, not the driver
        tail = err[m.end():]
        fr = re.findall(r"^([A-Za-z0-9_./\-]+(?:\.\([^)]*\))?[A-Za-z0-9_.\[\]]*)\(.*\)\n\t(\S+?):\d+", tail, re.M)
        for fn, path in fr:
            if fn.startswith(("runtime.", "runtime/", "panic", "testing.", "sync.", "internal/")):
                continue
            if not fn.startswith("github.com/containers/nri-plugins/") or "/verif_" in path or path.startswith(VERIF):
                return None
            break
    step = ""
    for d in (j.get("scratch"), j["work"]):
        f = os.path.join(d or "", "current-step.txt")
        if d and os.path.exists(f):
            lines = open(f, errors="replace").read().strip().splitlines()
            step = lines[-1] if lines else ""
            break
    w = ""
    for d in (j.get("scratch"), j["work"]):
        f = os.path.join(d or "", "current-case.json")
        if d and os.path.exists(f):
            w = save_replay(prop, f, "s%s-fatal-%s" % (res.seed, j["name"].replace("/", "_")))
            break
    sig = re.sub(r"[0-9a-fx]{6,}", "N", first)
    return dict(prop=prop, check="process-fatal", sig="%s:%s" % (j["name"].split("/")[0], sig),
                msg="child process died (rc=%s) during %s: %s" % (rc, step or "a call", first), replay=w)


def collect_out(res, jobs, prop):
    """Merge libdrv.Out-shaped results."""
    for j in jobs:
        if j.get("scratch") and j["scratch"] != j["work"]:
            # witnesses live in the scratch dir: move them next to the result before removing it
            if os.path.isdir(j["scratch"]):
                for w in glob.glob(os.path.join(j["scratch"], "witness-*.json")) + glob.glob(os.path.join(j["scratch"], "observation-*.json")):
                    try:
                        shutil.copy(w, j["work"])
                    except Exception:
                        pass
                shutil.rmtree(j["scratch"], ignore_errors=True)
        if not os.path.exists(j["out"]):
            res.inconclusive.append("job %s produced no result (rc=%s); see %s" % (j["name"], j.get("rc"), j["work"]))
            continue
        try:
            o = json.load(open(j["out"]))
        except Exception as e:
            res.inconclusive.append("job %s: unreadable result: %s" % (j["name"], e))
            continue
        if not o.get("done"):
            fv = fatal_violation(j, prop, res) if j.get("fatal_is_violation") else None
            if fv:
                res.viol.append(fv)
            else:
                res.inconclusive.append("job %s did not finish (rc=%s)" % (j["name"], j.get("rc")))
        st = o.get("stats") or {}
        if j.get("stat_prefix"):
            st = {j["stat_prefix"] + k: v for k, v in st.items()}
        res.add_stats(st)
        res.evaluations += o.get("evaluations", 0)
        for h in o.get("seen") or []:
            res.seen.add(h)
        res.extra["distinct_sum_of_shards"] = res.extra.get("distinct_sum_of_shards", 0) + o.get("distinct", 0)
        if o.get("exhaustive"):
            res.extra["exhaustive"] = True
        for v in o.get("violations") or []:
            if v.get("prop") != prop:
                continue
            w = v.get("witness", "")
            if w and not os.path.exists(w):
                w2 = os.path.join(j["work"], os.path.basename(w))
                w = w2 if os.path.exists(w2) else ""
            v = dict(v)
            v.pop("case", None)
            v["replay"] = save_replay(prop, w, "s%s" % res.seed) if w else ""
            res.viol.append(v)
        for smp in o.get("samples") or []:
            if len(res.samples) < 3:
                res.samples.append(smp)
    res.extra["jobs"] = res.extra.get("jobs", 0) + len(jobs)


def check_lib(prop, tier, seed):
    spec = LIB_SPECS[prop]
    res = Result(prop, tier, seed)
    libbin = build("lib")
    rundir = os.path.join(BUILD, "run", "%s-%d" % (prop, os.getpid()))
    shutil.rmtree(rundir, ignore_errors=True)
    jobs = run_jobs(lib_jobs(prop, tier, seed, libbin, rundir))
    collect_out(res, jobs, prop)
    if not res.seen:
        res.extra["distinct_nontrivial"] = res.extra.get("distinct_sum_of_shards", 0)
    rc = finish(res, dict(spec, level=spec.get("level", "exploration"), assumptions=LIB_ASSUMPTIONS))
    if rc == 0:
        shutil.rmtree(rundir, ignore_errors=True)
    return rc


def replay_lib(prop, path):
    libbin = build("lib")
    p = subprocess.run([libbin, "--prop", prop, "--replay", path], stderr=subprocess.DEVNULL)
    return p.returncode


# ---------------------------------------------------------------- agent engine (C17)

def build_gotest(pkg, outname):
    """Build an in-package test driver (overlay _test.go files) of a /repo package."""
    os.makedirs(BIN, exist_ok=True)
    out = os.path.join(BIN, outname)
    lock = open(os.path.join(BUILD, "build.lock"), "w") if os.path.isdir(BUILD) else None
    if lock is None:
        os.makedirs(BUILD, exist_ok=True)
        lock = open(os.path.join(BUILD, "build.lock"), "w")
    fcntl.flock(lock, fcntl.LOCK_EX)
    try:
        ov = write_overlay()
        cmd = ["go", "test", "-c", "-tags", "verif", "-vet=off", "-overlay", ov, "-o", out, pkg]
        p = subprocess.run(cmd, cwd=REPO, env=GOENV, stdout=subprocess.PIPE, stderr=subprocess.STDOUT, text=True)
        if p.returncode != 0:
            raise Inconclusive("build of %s failed:\n%s" % (outname, p.stdout[-4000:]))
    finally:
        fcntl.flock(lock, fcntl.LOCK_UN)
        lock.close()
    return out


C17_SPEC = dict(
    floors={"notifies": 100000, "redeliveries_suppressed": 10000, "invalid_suppressed": 10000, "fallbacks": 1000, "rejects": 10000,
            "watch:reopens_observed": 100, "watch:reopens_after_repeated_refusal": 40, "watch:events_delivered": 500},
    rule="EXHAUSTIVE enumeration of all event sequences of length L (quick 5, thorough 7) over a 15-event alphabet (node/group add v1, add v2, re-deliver, invalid, rejected-by-callback, delete, recreated-UID, generation-0 file object) on a fresh Agent each, driving updateNodeConfig/updateGroupConfig exactly as Agent.Start's select loop does; trace invariants + doc-derived reference state machine after every event; plus fatal-callback sequences and the topology-aware config type at depth min(L,4); event-delivery layer: ObjectWatch reopen/delivery scenarios (see assumptions); distinct = distinct (reference state, last delivered, event) transitions",
    assumptions=["precedence engine: events are fed to the two update functions directly, in one goroutine, as the select loop does; node-label driven group switches are not driven",
                 "event-delivery engine (watch:* counters): the real pkg/agent/watch.ObjectWatch against a scripted fake API server, all sequences of 2 (thorough 3) phases over {inner watch expires, Error event} x {0..3 refused re-creations}; bounded progress: the next creation attempt must come within 4 x reopenDelay (20 s wall-clock) of the previous refusal, then events must flow again exactly once and in order"],
)


def check_c17(prop, tier, seed):
    res = Result(prop, tier, seed)
    tb = build_gotest("./pkg/agent/", "agent.test")
    rundir = os.path.join(BUILD, "run", "%s-%d" % (prop, os.getpid()))
    shutil.rmtree(rundir, ignore_errors=True)
    depth, shards = (5, 8) if tier == "quick" else (7, 16)
    jobs = []
    for sh in range(shards):
        work = os.path.join(rundir, "a%02d" % sh)
        out = os.path.join(work, "out.json")
        env = {"VERIF_SEED": str(seed), "VERIF_DEPTH": str(depth), "VERIF_SHARD": str(sh), "VERIF_SHARDS": str(shards),
               "VERIF_OUT": out, "VERIF_WORK": work, "GOMAXPROCS": "2"}
        jobs.append(dict(cmd=[tb, "-test.run", "^TestVerifAgent$"], env=env, work=work, out=out, name="agent/%d" % sh, cwd=work, timeout=3600))
    # event-delivery layer: the real ObjectWatch against a scripted fake API server (expiry / error x refused re-creations)
    wb = build_gotest("./pkg/agent/watch/", "watch.test")
    work = os.path.join(rundir, "watch")
    out = os.path.join(work, "out.json")
    env = {"VERIF_SEED": str(seed), "VERIF_DEPTH": "2" if tier == "quick" else "3", "VERIF_OUT": out, "VERIF_WORK": work, "VERIF_TIER": tier}
    jobs.insert(0, dict(cmd=[wb, "-test.run", "^TestVerifWatch$", "-test.timeout", "30m"], env=env, work=work, out=out, name="watch", cwd=work, timeout=2400, stat_prefix="watch:"))
    jobs = run_jobs(jobs)
    collect_out(res, jobs, prop)
    res.extra["exhaustive"] = True
    res.extra["depth"] = depth
    rc = finish(res, dict(C17_SPEC, level="exploration"))
    if rc == 0:
        shutil.rmtree(rundir, ignore_errors=True)
    return rc


def replay_c17(prop, path):
    try:
        is_watch = (json.load(open(path)).get("case") or {}).get("engine") == "watch"
    except Exception:
        is_watch = False
    if is_watch:
        wb = build_gotest("./pkg/agent/watch/", "watch.test")
        p = subprocess.run([wb, "-test.run", "^TestVerifWatch$"], env=dict(os.environ, VERIF_REPLAY=os.path.abspath(path)), stderr=subprocess.DEVNULL)
        return p.returncode
    tb = build_gotest("./pkg/agent/", "agent.test")
    p = subprocess.run([tb, "-test.run", "^TestVerifAgent$"], env=dict(os.environ, VERIF_REPLAY=path), stderr=subprocess.DEVNULL)
    return p.returncode


# ---------------------------------------------------------------- side engine (memory-qos, memtierd, sgx-epc: C14, C18)

SIDE_PLUGINS = ["memory-qos", "memtierd", "sgx-epc"]
# (shards, N per shard) per plugin: N = event sequences (C14) / annotation maps (C18)
SIDE_N = {
    "C14": {"quick": {"memory-qos": (4, 1500), "memtierd": (6, 500), "sgx-epc": (6, 500)},
            "thorough": {"memory-qos": (4, 15000), "memtierd": (6, 5000), "sgx-epc": (6, 5000)}},
    "C18": {"quick": {"memory-qos": (4, 8000), "memtierd": (8, 600), "sgx-epc": (4, 5000)},
            "thorough": {"memory-qos": (4, 120000), "memtierd": (8, 6000), "sgx-epc": (4, 75000)}},
}


def side_jobs(prop, tier, seed, rundir):
    jobs = []
    for pl in SIDE_PLUGINS:
        tb = build_gotest("./cmd/plugins/%s/" % pl, "side-%s.test" % pl)
        shards, n = SIDE_N[prop][tier][pl]
        for sh in range(shards):
            work = os.path.join(rundir, "side-%s-%02d" % (pl, sh))
            out = os.path.join(work, "out.json")
            env = {"VERIF_PROP": prop, "VERIF_SEED": str(seed), "VERIF_SHARD": str(sh), "VERIF_N": str(n), "VERIF_TIER": tier,
                   "VERIF_OUT": out, "VERIF_WORK": work, "GOMAXPROCS": "2"}
            jobs.append(dict(cmd=[tb, "-test.run", "^TestVerifSide$"], env=env, work=work, out=out, name="%s/%d" % (pl, sh), cwd=work,
                             stat_prefix=pl + ":", fatal_is_violation=(prop == "C14"), timeout=1800 if tier == "quick" else 10800))
    return jobs


SIDE_ASSUMPTIONS = [
    "side plugins: the plugin struct is set up as main() does and its NRI handlers are called directly (no ttrpc); memtierd runs against a fake memtierd binary, cgroup and run directories under the job's work directory",
    "container/pod/namespace names containing '/', '.' or '..' are not generated for memtierd (it builds file-system paths from them; Kubernetes rejects such names)",
]


def check_c14(prop, tier, seed):
    spec = MODE_SPECS["C14"]
    res = Result(prop, tier, seed)
    rmbin = build("rm")
    rundir = os.path.join(BUILD, "run", "%s-%d" % (prop, os.getpid()))
    shutil.rmtree(rundir, ignore_errors=True)
    rj = rm_jobs(prop, tier, seed, rmbin, os.path.join(rundir, "hostile"), mode="hostile", spec=spec)
    for j in rj:
        j["fatal_is_violation"] = True
    sj = side_jobs(prop, tier, seed, rundir)
    jobs = run_jobs(rj + sj)
    collect_rm(res, [j for j in jobs if "stat_prefix" not in j], prop)
    ev = res.evaluations
    collect_out(res, [j for j in jobs if "stat_prefix" in j], prop)
    res.evaluations += ev
    floors = dict(spec["floors"])
    for pl in SIDE_PLUGINS:
        floors[pl + ":call_CreateContainer_ok"] = 1500
        floors[pl + ":call_CreateContainer_refused"] = 800
        floors[pl + ":canary_after_refused"] = 1500
        floors[pl + ":canary_final"] = 2000
    floors["memory-qos:call_CreateContainer_without_configuration"] = 500
    floors["memtierd:call_StartContainer_prepared_memtierd"] = 20
    rule = spec["rule"] + " || side plugins: N event sequences per shard on a fresh memory-qos / memtierd / sgx-epc plugin instance each (1-8 handler calls: missing or hostile configuration, absent resource sub-messages, 13 classes of hostile annotation values for every interpreted key, unknown/duplicate/out-of-order containers), every call under recover with log.Fatal turned into a panic; after every refused or panicked call and at the end of every case a benign canary sequence must answer exactly like a fresh instance; a child process that dies is attributed to the call logged before it"
    rc = finish(res, dict(spec, floors=floors, rule=rule, level="exploration", assumptions=RM_ASSUMPTIONS + SIDE_ASSUMPTIONS))
    if rc == 0:
        shutil.rmtree(rundir, ignore_errors=True)
    return rc


C18_SPEC = dict(
    floors={"maps_typed": 3000, "memtierd:predecessor_incarnations": 1000, "memory-qos:target_form_ctr-over-pod": 2000, "memtierd:target_form_ctr-over-pod": 300, "memory-qos:maps_with_other_container_annotations": 5000,
            "memory-qos:explicit_param_vs_class_conflict": 1000, "memtierd:explicit_param_vs_class_conflict": 100},
    rule="resource-policy cache: N annotation maps per shard on real cache pods (container names that are prefixes/suffixes of each other, look-alike keys), 4 insertion orders x 16 repetitions per query against a doc-derived resolver, plus the typed helpers of cache and topology-aware policy || side plugins: N annotation maps per shard per plugin, each evaluated 16 times through the real CreateContainer (memtierd also StartContainer, sgx-epc also parseEpcLimit) with the Go map rebuilt in a shuffled insertion order, and once on the map reduced to the effective annotations; memtierd: in half of the cases earlier incarnations of the same namespace/pod/container names (created, started, stopped with other classes) precede the evaluations and must change no answer; reference resolvers written from docs/memory/*.md; explicit cgroup parameters vs class-derived values; distinct = (name-relation class, forms present per key, look-alike count, class kind, outcome class)",
)


def check_c18(prop, tier, seed):
    res = Result(prop, tier, seed)
    libbin = build("lib")
    rundir = os.path.join(BUILD, "run", "%s-%d" % (prop, os.getpid()))
    shutil.rmtree(rundir, ignore_errors=True)
    lj = lib_jobs("C18lib", tier, seed, libbin, os.path.join(rundir, "lib"))
    sj = side_jobs(prop, tier, seed, rundir)
    jobs = run_jobs(lj + sj)
    collect_out(res, jobs, prop)
    rc = finish(res, dict(C18_SPEC, level="exploration", assumptions=LIB_ASSUMPTIONS + SIDE_ASSUMPTIONS))
    if rc == 0:
        shutil.rmtree(rundir, ignore_errors=True)
    return rc


def replay_side(prop, path):
    """Witnesses of the side engine name their plugin; everything else goes to the engine that wrote it."""
    try:
        w = json.load(open(path))
    except Exception:
        w = {}
    pl = w.get("plugin") if isinstance(w, dict) else None
    if pl in SIDE_PLUGINS:
        tb = build_gotest("./cmd/plugins/%s/" % pl, "side-%s.test" % pl)
        work = tempfile.mkdtemp(prefix="replay-", dir=os.path.join(BUILD, "run"))
        try:
            p = subprocess.run([tb, "-test.run", "^TestVerifSide$"], env=dict(os.environ, VERIF_PROP=prop, VERIF_REPLAY=os.path.abspath(path), VERIF_WORK=work), cwd=work, stderr=subprocess.DEVNULL)
        finally:
            shutil.rmtree(work, ignore_errors=True)
        return 1 if p.returncode != 0 else 0
    if prop == "C18":
        return replay_lib(prop, path)
    return replay(prop, path)


# ---------------------------------------------------------------- dispatch

CHECKS = {}
for _p in RM_SPECS:
    CHECKS[_p] = check_rm
for _p in MODE_SPECS:
    CHECKS[_p] = check_modes
for _p in ("C06", "C07", "C08", "C10", "C16", "C19", "C20"):
    CHECKS[_p] = check_lib
CHECKS["C17"] = check_c17
CHECKS["C14"] = check_c14
CHECKS["C18"] = check_c18
CHECKS["C15"] = check_c15


def replay(prop, path):
    rmbin = build("rm")
    p = subprocess.run([rmbin, "--replay", path, "--roots", os.path.join(BUILD, "sysfs")], stderr=subprocess.DEVNULL)
    return p.returncode


def main(argv):
    ap = argparse.ArgumentParser()
    ap.add_argument("prop")
    ap.add_argument("--tier", default=os.environ.get("VERIF_TIER", "quick"))
    ap.add_argument("--seed", type=int, default=int(os.environ.get("VERIF_SEED", "1") or 1))
    ap.add_argument("--replay")
    a = ap.parse_args(argv)
    if a.prop == "setup":
        try:
            build("rm")
            build("rm", race=True)
            build("lib")
            build_gotest("./pkg/agent/", "agent.test")
            build_gotest("./pkg/agent/watch/", "watch.test")
            for pl in SIDE_PLUGINS:
                build_gotest("./cmd/plugins/%s/" % pl, "side-%s.test" % pl)
        except Inconclusive as e:
            log("setup failed: %s" % e)
            return 2
        return 0
    if a.prop not in CHECKS:
        log("unknown property %s" % a.prop)
        return 2
    if a.tier not in ("quick", "thorough"):
        a.tier = "quick"
    try:
        if a.replay:
            return REPLAYS.get(a.prop, replay)(a.prop, a.replay)
        return CHECKS[a.prop](a.prop, a.tier, a.seed)
    except Inconclusive as e:
        log("INCONCLUSIVE property=%s reason=%s" % (a.prop, str(e).replace("\n", " | ")[:1500]))
        # an inconclusive run still has to leave a (valid) evidence file describing what happened
        return 2


REPLAYS = {"C10": replay_lib, "C14": replay_side, "C18": replay_side, "C06": replay_lib, "C07": replay_lib, "C08": replay_lib, "C16": replay_lib, "C19": replay_lib, "C20": replay_lib, "C17": replay_c17}
