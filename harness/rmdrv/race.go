package rmdrv

import (
	"context"
	"fmt"
	"net"
	"os"
	"path/filepath"
	"runtime"
	"sort"
	"strings"
	"sync"
	"sync/atomic"
	"time"

	"github.com/anishathalye/porcupine"
	"github.com/containerd/nri/pkg/api"
	"github.com/containers/nri-plugins/pkg/agent"
	"github.com/containers/nri-plugins/pkg/agent/podresapi"
	cfgpolicy "github.com/containers/nri-plugins/pkg/apis/config/v1alpha1/resmgr/policy"
	blncfg "github.com/containers/nri-plugins/pkg/apis/config/v1alpha1/resmgr/policy/balloons"
	"github.com/containers/nri-plugins/pkg/resmgr/cache"
	"google.golang.org/grpc"
	"google.golang.org/grpc/codes"
	"google.golang.org/grpc/status"
	podres "k8s.io/kubelet/pkg/apis/podresources/v1"

	"verif/harness/sysgen"
)

// ---- fake kubelet pod-resources server: keeps fetch goroutines alive during handlers ----

type fakeKubelet struct {
	podres.UnimplementedPodResourcesListerServer
	delay   atomic.Int64 // microseconds
	failPct atomic.Int64 // percentage of calls answered with an error
	hang    atomic.Int64 // microseconds; > the client's timeout: the call ends by deadline on the client side
	calls   atomic.Int64
	failed  atomic.Int64
	hung    atomic.Int64
	srv     *grpc.Server
	sock    string
}

// wait delays the answer and decides, from the call number alone, whether this call fails.
func (k *fakeKubelet) wait(ctx context.Context) error {
	n := k.calls.Add(1)
	if d := k.delay.Load(); d > 0 {
		time.Sleep(time.Duration(d) * time.Microsecond)
	}
	if h := k.hang.Load(); h > 0 {
		k.hung.Add(1)
		select {
		case <-ctx.Done():
		case <-time.After(time.Duration(h) * time.Microsecond):
		}
	}
	if pct := k.failPct.Load(); pct > 0 && int64((uint64(n)*0x9E3779B97F4A7C15>>33)%100) < pct {
		k.failed.Add(1)
		return status.Error(codes.Unavailable, "fake kubelet: injected failure")
	}
	return nil
}

func (k *fakeKubelet) List(ctx context.Context, r *podres.ListPodResourcesRequest) (*podres.ListPodResourcesResponse, error) {
	if err := k.wait(ctx); err != nil {
		return nil, err
	}
	return &podres.ListPodResourcesResponse{}, nil
}

func (k *fakeKubelet) Get(ctx context.Context, r *podres.GetPodResourcesRequest) (*podres.GetPodResourcesResponse, error) {
	if err := k.wait(ctx); err != nil {
		return nil, err
	}
	return &podres.GetPodResourcesResponse{PodResources: &podres.PodResources{Name: r.PodName, Namespace: r.PodNamespace,
		Containers: []*podres.ContainerResources{{Name: "c0"}, {Name: "c1"}}}}, nil
}

func startFakeKubelet(dir string) (*fakeKubelet, error) {
	k := &fakeKubelet{sock: filepath.Join(dir, "kubelet.sock")}
	os.Remove(k.sock)
	l, err := net.Listen("unix", k.sock)
	if err != nil {
		return nil, err
	}
	k.srv = grpc.NewServer()
	podres.RegisterPodResourcesListerServer(k.srv, k)
	go k.srv.Serve(l)
	return k, nil
}

// ---- recorded concurrent history ----

type raceOp struct {
	Op     string // runpod removepod stoppod create start update stop remove sync reconf
	Pod    string
	Ctr    string
	Pods   []string // sync: pod ids listed
	Ctrs   []string // sync: container ids listed
	Out    string   // ok | nopod | fail
	Call   int64
	Return int64
	Client int
	Read   bool // final read of cache contents
	Found  bool
}

type lzState struct {
	Pods map[string]bool
	Ctrs map[string]string // ctr id -> pod id
}

func (s lzState) clone() lzState {
	n := lzState{Pods: map[string]bool{}, Ctrs: map[string]string{}}
	for k, v := range s.Pods {
		n.Pods[k] = v
	}
	for k, v := range s.Ctrs {
		n.Ctrs[k] = v
	}
	return n
}

func (s lzState) key() string {
	var p, c []string
	for k := range s.Pods {
		p = append(p, k)
	}
	for k, v := range s.Ctrs {
		c = append(c, k+"@"+v)
	}
	sort.Strings(p)
	sort.Strings(c)
	return strings.Join(p, ",") + "|" + strings.Join(c, ",")
}

// lifecycleModel is the sequential specification of cache membership.
func lifecycleModel(init lzState) porcupine.Model {
	return porcupine.Model{
		Init: func() interface{} { return init.clone() },
		Step: func(state, input, output interface{}) (bool, interface{}) {
			st := state.(lzState)
			op := input.(raceOp)
			out := output.(raceOp)
			switch op.Op {
			case "runpod":
				n := st.clone()
				n.Pods[op.Pod] = true
				return true, n
			case "removepod":
				n := st.clone()
				delete(n.Pods, op.Pod)
				return true, n
			case "create":
				if out.Out == "nopod" {
					return !st.Pods[op.Pod], st
				}
				if !st.Pods[op.Pod] {
					return false, st
				}
				n := st.clone()
				n.Ctrs[op.Ctr] = op.Pod
				return true, n
			case "remove":
				n := st.clone()
				delete(n.Ctrs, op.Ctr)
				return true, n
			case "sync":
				// Synchronize makes the cache exactly what the runtime lists: listed pods, and
				// listed containers whose pod is listed (unknown ones are inserted, others purged)
				n := lzState{Pods: map[string]bool{}, Ctrs: map[string]string{}}
				for _, p := range op.Pods {
					n.Pods[p] = true
				}
				for _, cp := range op.Ctrs {
					i := strings.Index(cp, "@")
					c, p := cp[:i], cp[i+1:]
					if n.Pods[p] {
						n.Ctrs[c] = p
					}
				}
				return true, n
			case "readpod":
				return out.Found == st.Pods[op.Pod], st
			case "readctr":
				_, ok := st.Ctrs[op.Ctr]
				return out.Found == ok, st
			}
			// start / update / stop / stoppod / reconf do not change membership
			return true, st
		},
		Equal: func(a, b interface{}) bool { return a.(lzState).key() == b.(lzState).key() },
		DescribeOperation: func(input, output interface{}) string {
			op := input.(raceOp)
			out := output.(raceOp)
			return fmt.Sprintf("%s(%s %s) -> %s found=%v", op.Op, op.Pod, op.Ctr, out.Out, out.Found)
		},
	}
}

// RunRaceHistory issues bursts of concurrent handler calls (the driver is built with -race),
// records the call/return history, checks it for linearizability, checks state invariants at
// quiescence and watches for handlers that never return.
func RunRaceHistory(o HistOpts) *HistResult {
	rng := sysgen.NewRNG(o.Seed)
	mach := Machine()
	g := NewGen(rng, mach, o.Policy)
	g.MaxPods, g.MaxCtrs = 4, 8
	res := &HistResult{Hist: o.Hist, Seed: o.Seed, Machine: mach.Name, Policy: o.Policy, Stats: map[string]int{}, Seen: map[string][]string{}}
	var cfg *Config
	var inst *Inst
	var err error
	stateDir := filepath.Join(o.WorkDir, fmt.Sprintf("state-%d", o.Hist))
	// Every fourth history races REJECTED reconfigurations against container creation: the configuration in force
	// confines the plugin to one half (A) of the CPUs, the rejected one - refused only after the policy has started to
	// apply it - to two CPUs of the other half. In any sequential order a rejected update has no effect, so no
	// CreateContainer reply may pin to CPUs outside the available sets of the configurations accepted so far.
	var halfA, halfB []int
	if o.Hist%4 == 3 {
		iso := SetOf(mach.Isolated)
		var cand []int
		for _, c := range mach.OnlineCPUs() {
			if !iso.Has(c) {
				cand = append(cand, c)
			}
		}
		if len(cand) >= 8 {
			halfA, halfB = cand[:len(cand)/2], cand[len(cand)/2:]
		}
	}
	for try := 0; try < 8; try++ {
		cfg = g.Config()
		if o.Hist == 0 {
			// with the exporter on, handlers and reconfigure() also take the process-wide metrics gatherer lock
			if cfg.Common == nil {
				cfg.Common = &CommonCfg{}
			}
			cfg.Common.PrometheusExport = true
		}
		if halfA != nil {
			av := cfgpolicy.Constraints{"cpu": cfgpolicy.Amount("cpuset:" + sysgen.CPUList(halfA))}
			rs := cfgpolicy.Constraints{"cpu": cfgpolicy.Amount(fmt.Sprintf("cpuset:%d", halfA[0]))}
			if cfg.Policy == PolTA {
				cfg.TA.AvailableResources, cfg.TA.ReservedResources = av, rs
			} else {
				cfg.Bln.AvailableResources, cfg.Bln.ReservedResources = av, rs
			}
		}
		os.RemoveAll(stateDir)
		if inst, err = NewInst(stateDir, cfg); err == nil {
			break
		}
	}
	if err != nil {
		res.StartErr = err.Error()
		return res
	}
	defer os.RemoveAll(stateDir)
	res.Cfg = cfg.Clone()
	if cfg.Common != nil && cfg.Common.PrometheusExport {
		res.Stats["c15_histories_with_metrics_exporter"]++
	}
	kub, kerr := startFakeKubelet(o.WorkDir)
	if kerr == nil {
		defer kub.srv.Stop()
		if err := agent.VerifSetPodResSocket(inst.Agent, kub.sock); err == nil {
			res.Stats["c15_fake_kubelet"] = 1
		}
	}
	model := NewModel(mach.TotalMemBytes())
	r := NewRunner(inst, model, o.Hist)
	r.Props = map[string]bool{"C15": true, "C14": true}
	r.NoShadow = true
	defer func() { r.Inst.Close() }()
	if halfA != nil {
		bad := cfg.Clone()
		av := cfgpolicy.Constraints{"cpu": cfgpolicy.Amount("cpuset:" + sysgen.CPUList(halfB[:2]))}
		rs := cfgpolicy.Constraints{"cpu": cfgpolicy.Amount(fmt.Sprintf("cpuset:%d", halfB[0]))}
		if cfg.Policy == PolTA {
			bad.TA.AvailableResources, bad.TA.ReservedResources = av, rs
		} else {
			bad.Bln.AvailableResources, bad.Bln.ReservedResources = av, rs
			bad.Bln.BalloonDefs = append(bad.Bln.BalloonDefs, &blncfg.BalloonDef{Name: "toobig", MinCpus: 4, MinBalloons: 1})
		}
		bad.Note = "race:infeasible"
		r.RaceBadCfg = bad
		r.RaceAllowed = SetOf(halfA)
		// an anchor the two CPUs of the rejected configuration cannot hold
		r.Do(&Step{Op: "runpod", Pod: "anchor", NS: "default", QoS: "Guaranteed"})
		r.Do(&Step{Op: "create", Pod: "anchor", Ctr: "anchor.c", Name: "c0", Req: 2000, Lim: 2000, MemLim: 64 << 20, MemReq: 64 << 20})
		r.Do(&Step{Op: "start", Pod: "anchor", Ctr: "anchor.c"})
		res.Stats["c15_rejected_reconf_race_histories"]++
	}
	// benign sequential prefix
	for i := 0; i < 8 && !r.Broken; i++ {
		s := g.NextStep(r)
		if s.Op == "reconf" || s.Op == "sync" {
			continue
		}
		if s.Op == "create" && s.Req > 1000 {
			s.Req, s.Lim = 500, 500
		}
		r.Do(s)
	}
	var stamp atomic.Int64
	hungOnce := false
	bursts := o.Steps / 4
	for b := 0; b < bursts && !r.Broken; b++ {
		if kub != nil {
			kub.delay.Store(int64(rng.Intn(3000)))
			// the fetch may fail or run into the client's timeout (1 s for Get, 2 s for List): nobody may wait for it for ever
			kub.failPct.Store(int64(sysgen.Pick(rng, []int{0, 0, 0, 30, 100})))
			kub.hang.Store(0)
			if !hungOnce && rng.Chance(1, 12) {
				hungOnce = true
				kub.hang.Store(1200000)
			}
		}
		k := rng.Range(2, 6)
		ops := r.pickBurst(g, k)
		if len(ops) < 2 {
			continue
		}
		// initial membership as the cache has it
		init := lzState{Pods: map[string]bool{}, Ctrs: map[string]string{}}
		for _, p := range inst.RM.Cache().GetPods() {
			init.Pods[p.GetID()] = true
		}
		for _, c := range inst.RM.Cache().GetContainers() {
			init.Ctrs[c.GetID()] = c.GetPodID()
		}
		var wg sync.WaitGroup
		done := make(chan struct{})
		results := make([]raceOp, len(ops))
		replies := make([]*Reply, len(ops))
		for i := range ops {
			wg.Add(1)
			go func(i int) {
				defer wg.Done()
				op := ops[i]
				op.op.Client = i
				op.op.Call = stamp.Add(1)
				rep := op.call()
				op.op.Return = stamp.Add(1)
				op.op.Out = "ok"
				if rep.Panic != "" {
					op.op.Out = "panic"
				} else if rep.Err != "" {
					op.op.Out = "fail"
					if strings.Contains(rep.Err, "can't find cached pod") {
						op.op.Out = "nopod"
					}
				}
				results[i] = *op.op
				replies[i] = rep
			}(i)
		}
		go func() { wg.Wait(); close(done) }()
		select {
		case <-done:
		case <-time.After(60 * time.Second):
			d1 := allStacks()
			time.Sleep(5 * time.Second)
			select {
			case <-done:
				res.Stats["c15_slow_bursts"]++
			default:
				d2 := allStacks()
				if blockedHandlers(d1) != "" && blockedHandlers(d1) == blockedHandlers(d2) {
					res.Viol = append(res.Viol, Violation{Prop: "C15", Check: "deadlock", Sig: o.Policy, Hist: o.Hist,
						Msg: "handlers of a burst did not return within 65 s and are parked in the same lock/channel waits in two dumps 5 s apart:\n" + blockedHandlers(d2)})
				} else {
					res.Stats["c15_watchdog_inconclusive"]++
				}
				res.Steps = r.Steps
				collectStats(r, res)
				return res
			}
		}
		res.Stats["c15_bursts"]++
		res.Stats["c15_burst_ops"] += len(ops)
		// overlapping pairs and completion order actually observed
		order := make([]int, len(results))
		for i := range order {
			order[i] = i
		}
		sort.Slice(order, func(a, b int) bool { return results[order[a]].Return < results[order[b]].Return })
		sigOrder := ""
		for _, i := range order {
			sigOrder += fmt.Sprintf("%s%d>", results[i].Op[:2], i)
		}
		for i := range results {
			for j := i + 1; j < len(results); j++ {
				if results[i].Call < results[j].Return && results[j].Call < results[i].Return {
					res.Stats["c15_overlapping_call_pairs"]++
				}
			}
		}
		res.Seen["C15"] = append(res.Seen["C15"], fmt.Sprintf("%s|%d|%s", o.Policy, len(ops), sigOrder))
		for i, rep := range replies {
			if rep != nil && rep.Panic != "" {
				res.Viol = append(res.Viol, Violation{Prop: "C14", Check: "panic", Sig: "concurrent:" + results[i].Op, Msg: rep.Panic, Hist: o.Hist})
				r.Broken = true
			}
		}
		if r.Broken {
			break
		}
		// linearizability of cache membership
		var pops []porcupine.Operation
		for _, op := range results {
			pops = append(pops, porcupine.Operation{ClientId: op.Client, Input: op, Call: op.Call, Output: op, Return: op.Return})
		}
		cid := len(results)
		seenPods, seenCtrs := map[string]bool{}, map[string]bool{}
		for _, op := range results {
			if op.Pod != "" && !seenPods[op.Pod] {
				seenPods[op.Pod] = true
				_, found := inst.RM.Cache().LookupPod(op.Pod)
				t := stamp.Add(1)
				ro := raceOp{Op: "readpod", Pod: op.Pod, Found: found, Call: t, Return: stamp.Add(1), Client: cid}
				pops = append(pops, porcupine.Operation{ClientId: cid, Input: ro, Call: ro.Call, Output: ro, Return: ro.Return})
			}
			if op.Ctr != "" && !seenCtrs[op.Ctr] {
				seenCtrs[op.Ctr] = true
				_, found := inst.RM.Cache().LookupContainer(op.Ctr)
				t := stamp.Add(1)
				ro := raceOp{Op: "readctr", Ctr: op.Ctr, Found: found, Call: t, Return: stamp.Add(1), Client: cid}
				pops = append(pops, porcupine.Operation{ClientId: cid, Input: ro, Call: ro.Call, Output: ro, Return: ro.Return})
			}
		}
		switch porcupine.CheckOperationsTimeout(lifecycleModel(init), pops, 2*time.Minute) {
		case porcupine.Illegal:
			var desc []string
			for _, op := range results {
				desc = append(desc, fmt.Sprintf("%s(%s %s)->%s [%d,%d]", op.Op, op.Pod, op.Ctr, op.Out, op.Call, op.Return))
			}
			for _, p := range pops[len(results):] {
				ro := p.Input.(raceOp)
				desc = append(desc, fmt.Sprintf("%s(%s%s)=%v", ro.Op, ro.Pod, ro.Ctr, ro.Found))
			}
			res.Viol = append(res.Viol, Violation{Prop: "C15", Check: "not-linearizable", Sig: o.Policy, Hist: o.Hist,
				Msg: "the recorded call/return history of a burst has no sequential explanation (cache membership): initial " + init.key() + " ops " + strings.Join(desc, "; ")})
		case porcupine.Unknown:
			res.Stats["c15_checker_timeouts"]++
		default:
			res.Stats["c15_linearizable_bursts"]++
		}
		// A rejected reconfiguration whose revert fails leaves the policy on the rejected configuration's CPUs (known
		// finding KF3/KF6, sequential code): requests after it then legitimately see those CPUs. That is not what the
		// saw-rejected-config clause is about; stop checking it in this history.
		if r.RaceAllowed != nil {
			eff := IntSet{}
			if sn := r.Inst.TASnap(); sn != nil {
				eff = SetOf(sn.Allowed)
			} else if sn := r.Inst.BlnSnap(); sn != nil {
				eff = SetOf(sn.FreeCpus)
				for i := range sn.Balloons {
					eff = eff.Union(SetOf(sn.Balloons[i].Cpus))
				}
			}
			if !eff.SubsetOf(r.RaceAllowed) {
				r.RaceAllowed = nil
				r.RaceBadCfg = nil
				r.Count("c15_rejected_reconf_not_reverted")
			}
		}
		// fold results into the runtime model, then run the state-invariant monitors
		for i, op := range ops {
			op.fold(replies[i])
		}
		// reconcile: what a concurrent Synchronize / RemovePodSandbox purged is gone for the runtime model too
		for _, key := range r.M.CtrKeys() {
			c := r.M.Ctrs[key]
			if c.State == StRemoved || c.State == StNone {
				continue
			}
			if _, ok := inst.RM.Cache().LookupContainer(c.ID); !ok {
				c.State = StRemoved
				res.Stats["c15_model_reconciled"]++
			}
		}
		for _, key := range r.M.PodKeys() {
			p := r.M.Pods[key]
			if p.State != StRemoved {
				if _, ok := inst.RM.Cache().LookupPod(p.ID); !ok {
					p.State = StRemoved
				}
			}
		}
		for _, c := range r.LiveCtrs() {
			// a Synchronize in the burst re-allocated everything under the current configuration
			r.AllocCfg[c.Key] = append(r.AllocCfg[c.Key], r.Inst.Cfg)
		}
		r.LastFailed = false
		r.runMonitors(&Step{Op: "burst"}, &Reply{})
		if kub != nil {
			res.Stats["c15_kubelet_calls"] = int(kub.calls.Load())
			res.Stats["c15_kubelet_calls_failed"] = int(kub.failed.Load())
			res.Stats["c15_kubelet_calls_hung"] = int(kub.hung.Load())
		}
	}
	// fetch visibility at cache level (the statement's last sentence)
	fetchVisibility(r, rng, res)
	for _, v := range r.Viol {
		res.Viol = append(res.Viol, v)
	}
	res.Steps = r.Steps
	collectStats(r, res)
	res.Stats["histories"]++
	return res
}

func collectStats(r *Runner, res *HistResult) {
	for k, v := range r.Stats {
		res.Stats[k] += v
	}
}

// fetchVisibility: once InsertPod has started the asynchronous fetch, every later
// GetPodResources() must return what the fetch delivers.
func fetchVisibility(r *Runner, rng *sysgen.RNG, res *HistResult) {
	cch := r.Inst.RM.Cache()
	for i := 0; i < 40; i++ {
		ch := make(chan *podresapi.PodResources, 1)
		want := &podresapi.PodResources{PodResources: &podres.PodResources{Name: fmt.Sprintf("fetch%d", i), Namespace: "default"}}
		pod := &api.PodSandbox{Id: fmt.Sprintf("fetchpod-%d-%d", r.Hist, i), Name: want.Name, Namespace: "default", Uid: "u",
			Linux: &api.LinuxPodSandbox{CgroupParent: "/kubepods/besteffort/podx"}}
		d := time.Duration(rng.Intn(300)) * time.Microsecond
		if i == 7 || i == 23 {
			// a kubelet that answers late but within the fetch's own timeout (1 s): the reader has to wait for it
			d = time.Duration(300+rng.Intn(450)) * time.Millisecond
			res.Stats["c15_fetches_answered_late"]++
		}
		r.Inst.RM.Lock()
		if i%2 == 1 {
			// the pod is already known (a Synchronize listed it just before its RunPodSandbox arrives, with a pod-resources
			// list that did not have it yet): the fetch started by RunPodSandbox must still reach every later reader
			cch.InsertPod(pod, nil)
			res.Stats["c15_fetches_for_known_pods"]++
		}
		p := cch.InsertPod(pod, ch)
		r.Inst.RM.Unlock()
		go func() {
			time.Sleep(d)
			ch <- want
			close(ch)
		}()
		if rng.Chance(1, 2) {
			runtime.Gosched()
		}
		got := p.GetPodResources()
		if lp, ok := cch.LookupPod(pod.Id); ok && got != nil && got.GetName() == want.Name {
			got = lp.GetPodResources() // and through the cache's own copy of the pod
		}
		res.Stats["c15_fetches_checked"]++
		if got == nil || got.GetName() != want.Name {
			res.Viol = append(res.Viol, Violation{Prop: "C15", Check: "fetch-missed", Sig: "pod.GetPodResources", Hist: r.Hist,
				Msg: fmt.Sprintf("GetPodResources() right after InsertPod() returned %v although the fetch it started delivers %q", got, want.Name)})
			break
		}
		r.Inst.RM.Lock()
		cch.DeletePod(pod.Id)
		r.Inst.RM.Unlock()
	}
	_ = cache.CPU
}

type burstOp struct {
	op   *raceOp
	call func() *Reply
	fold func(rep *Reply)
}

// pickBurst chooses k operations on distinct containers (pod-level and container-level
// operations may conflict: that is what the linearizability check is for).
func (r *Runner) pickBurst(g *Gen, k int) []burstOp {
	var out []burstOp
	usedCtr := map[string]bool{}
	usedPod := map[string]bool{}
	rm := r.Inst.RM
	cfg := r.Inst.Cfg
	for tries := 0; len(out) < k && tries < 40; tries++ {
		var created, live, stopped []*MCtr
		var runningPods, allPods []string
		for _, key := range r.M.CtrKeys() {
			c := r.M.Ctrs[key]
			if usedCtr[c.Key] {
				continue
			}
			switch c.State {
			case StCreated:
				created = append(created, c)
				live = append(live, c)
			case StRunning:
				live = append(live, c)
			case StStopped:
				stopped = append(stopped, c)
			}
		}
		for _, key := range r.M.PodKeys() {
			p := r.M.Pods[key]
			if p.State == StRemoved {
				continue
			}
			allPods = append(allPods, key)
			if p.State == StRunning {
				runningPods = append(runningPods, key)
			}
		}
		switch g.R.Intn(12) {
		case 11:
			if usedPod["*sync*"] {
				continue
			}
			usedPod["*sync*"] = true
			pods, ctrs := r.RuntimeLists()
			op := &raceOp{Op: "sync"}
			for _, p := range pods {
				op.Pods = append(op.Pods, p.Id)
			}
			for _, c := range ctrs {
				op.Ctrs = append(op.Ctrs, c.Id+"@"+c.PodSandboxId)
			}
			out = append(out, burstOp{op: op, call: func() *Reply {
				rep := &Reply{}
				var err error
				rep.Panic = r.guardQuiet("sync", func() { rep.Updates, err = rm.Synchronize(pods, ctrs) })
				rep.Err = errStr(err)
				return rep
			}, fold: func(*Reply) {}})
		case 0:
			s := g.RunPodStep(cfg)
			id, uid := r.newPodIDs()
			p := &MPod{Key: s.Pod, ID: id, UID: uid, Name: "pod-" + s.Pod, NS: s.NS, QoS: s.QoS, Ann: s.Ann, Labels: s.Labels, State: StRunning}
			r.M.Pods[s.Pod] = p
			ap := r.M.APIPod(p)
			out = append(out, burstOp{op: &raceOp{Op: "runpod", Pod: p.ID}, call: func() *Reply {
				rep := &Reply{}
				rep.Panic = r.guardQuiet("runpod", func() { rep.Err = errStr(rm.RunPodSandbox(ap)) })
				return rep
			}, fold: func(*Reply) {}})
		case 1, 2, 3:
			if len(runningPods) == 0 {
				continue
			}
			s := g.CreateStep(r, sysgen.Pick(g.R, runningPods))
			if s.Req > 1000 {
				s.Req, s.Lim = 500, 500
			}
			p := r.M.Pods[s.Pod]
			c := &MCtr{Key: s.Ctr, ID: r.newCtrID(), Pod: s.Pod, Name: s.Name, ReqMilli: s.Req, LimMilli: s.Lim, MemLim: s.MemLim, MemReq: s.MemReq}
			c.OomAdj = r.M.OomAdj(p.QoS, s.MemReq)
			c.Shadow = r.M.SpecRes(c)
			r.M.Ctrs[s.Ctr] = c
			usedCtr[c.Key] = true
			ap, ac := r.M.APIPod(p), r.M.APICtr(c, false)
			out = append(out, burstOp{op: &raceOp{Op: "create", Pod: p.ID, Ctr: c.ID}, call: func() *Reply {
				rep := &Reply{}
				var err error
				rep.Panic = r.guardQuiet("create", func() { rep.Adjust, rep.Updates, err = rm.CreateContainer(ap, ac) })
				rep.Err = errStr(err)
				return rep
			}, fold: func(rep *Reply) {
				if rep.Err != "" {
					c.State = StFailed
				} else {
					c.State = StCreated
					r.AllocCfg[c.Key] = []*Config{r.Inst.Cfg}
				}
				if cpus := rep.Adjust.GetLinux().GetResources().GetCpu().GetCpus(); r.RaceAllowed != nil && cpus != "" {
					r.Count("c15_create_replies_checked_against_accepted_configs")
					if got := SetOf(MustList(cpus)); !got.SubsetOf(r.RaceAllowed) {
						r.Violate("C15", "saw-rejected-config", r.Inst.Policy, "a CreateContainer reply pins %s to CPUs %s, outside the available CPUs %s of every configuration accepted so far: it ran between a rejected reconfiguration and its revert (no sequential order of the requests explains it)", c.Key, got.Minus(r.RaceAllowed), r.RaceAllowed)
					}
				}
			}})
		case 4:
			if len(created) == 0 {
				continue
			}
			c := sysgen.Pick(g.R, created)
			usedCtr[c.Key] = true
			ap, ac := r.M.APIPod(r.M.Pods[c.Pod]), r.M.APICtr(c, true)
			out = append(out, burstOp{op: &raceOp{Op: "start", Pod: ap.Id, Ctr: c.ID}, call: func() *Reply {
				rep := &Reply{}
				rep.Panic = r.guardQuiet("start", func() { rep.Err = errStr(rm.StartContainer(ap, ac)) })
				return rep
			}, fold: func(rep *Reply) {
				if rep.Err == "" {
					c.State = StRunning
				}
			}})
		case 5:
			if len(live) == 0 {
				continue
			}
			c := sysgen.Pick(g.R, live)
			usedCtr[c.Key] = true
			ap, ac := r.M.APIPod(r.M.Pods[c.Pod]), r.M.APICtr(c, true)
			lr := resToAPI(Res{Shares: MilliCPUToShares(int64(c.ReqMilli)), MemLim: c.MemLim})
			out = append(out, burstOp{op: &raceOp{Op: "update", Pod: ap.Id, Ctr: c.ID}, call: func() *Reply {
				rep := &Reply{}
				var err error
				rep.Panic = r.guardQuiet("update", func() { rep.Updates, err = rm.UpdateContainer(ap, ac, lr) })
				rep.Err = errStr(err)
				return rep
			}, fold: func(*Reply) {}})
		case 6, 7:
			if len(live) == 0 {
				continue
			}
			c := sysgen.Pick(g.R, live)
			usedCtr[c.Key] = true
			ap, ac := r.M.APIPod(r.M.Pods[c.Pod]), r.M.APICtr(c, true)
			out = append(out, burstOp{op: &raceOp{Op: "stop", Pod: ap.Id, Ctr: c.ID}, call: func() *Reply {
				rep := &Reply{}
				var err error
				rep.Panic = r.guardQuiet("stop", func() { rep.Updates, err = rm.StopContainer(ap, ac) })
				rep.Err = errStr(err)
				return rep
			}, fold: func(*Reply) { c.State = StStopped }})
		case 8:
			if len(stopped) == 0 {
				continue
			}
			c := sysgen.Pick(g.R, stopped)
			usedCtr[c.Key] = true
			ap, ac := r.M.APIPod(r.M.Pods[c.Pod]), r.M.APICtr(c, true)
			out = append(out, burstOp{op: &raceOp{Op: "remove", Pod: ap.Id, Ctr: c.ID}, call: func() *Reply {
				rep := &Reply{}
				rep.Panic = r.guardQuiet("remove", func() { rep.Err = errStr(rm.RemoveContainer(ap, ac)) })
				return rep
			}, fold: func(*Reply) { c.State = StRemoved }})
		case 9:
			// stop / remove an EMPTY pod (containers all removed), possibly racing with a create in it
			var empty []string
			for _, key := range allPods {
				if usedPod[key] {
					continue
				}
				n := 0
				for _, c := range r.M.PodCtrs(key) {
					if c.State != StRemoved && c.State != StFailed {
						n++
					}
				}
				if n == 0 {
					empty = append(empty, key)
				}
			}
			if len(empty) == 0 {
				continue
			}
			key := sysgen.Pick(g.R, empty)
			usedPod[key] = true
			p := r.M.Pods[key]
			ap := r.M.APIPod(p)
			if p.State == StRunning && g.R.Chance(1, 2) {
				out = append(out, burstOp{op: &raceOp{Op: "stoppod", Pod: p.ID}, call: func() *Reply {
					rep := &Reply{}
					rep.Panic = r.guardQuiet("stoppod", func() { rep.Err = errStr(rm.StopPodSandbox(ap)) })
					return rep
				}, fold: func(*Reply) { p.State = StStopped }})
			} else {
				out = append(out, burstOp{op: &raceOp{Op: "removepod", Pod: p.ID}, call: func() *Reply {
					rep := &Reply{}
					rep.Panic = r.guardQuiet("removepod", func() { rep.Err = errStr(rm.RemovePodSandbox(ap)) })
					return rep
				}, fold: func(*Reply) {
					p.State = StRemoved
					for _, c := range r.M.PodCtrs(key) {
						if c.State != StRemoved {
							c.State = StRemoved // created concurrently in a pod that is being removed
						}
					}
				}})
			}
		case 10:
			same := cfg.Clone()
			same.Gen = cfg.Gen + 1000 + int64(tries)
			same.Note = "same"
			bad := false
			if r.RaceBadCfg != nil && !usedPod["*bad*"] {
				usedPod["*bad*"] = true
				same = r.RaceBadCfg.Clone()
				same.Gen = cfg.Gen + 5000 + int64(tries)
				bad = true
			}
			rc := same.ResmgrConfig()
			out = append(out, burstOp{op: &raceOp{Op: "reconf"}, call: func() *Reply {
				rep := &Reply{}
				rep.Panic = r.guardQuiet("reconf", func() { rep.Err = errStr(rm.Reconfigure(rc)) })
				return rep
			}, fold: func(rep *Reply) {
				if !bad {
					return
				}
				if rep.Err != "" {
					r.Count("c15_rejected_reconfs_raced")
					return
				}
				// the policy took it after all: from now on its CPUs are legitimate too
				r.Count("c15_infeasible_config_accepted")
				r.RaceAllowed = nil
				r.RaceBadCfg = nil
				r.Inst.Cfg = same
			}})
		}
	}
	return out
}

// guardQuiet converts a panic into a string without touching runner state (called concurrently).
func (r *Runner) guardQuiet(op string, fn func()) (p string) {
	defer func() {
		if e := recover(); e != nil {
			buf := make([]byte, 8192)
			n := runtime.Stack(buf, false)
			p = fmt.Sprintf("handler %s panicked under concurrent delivery: %v\n%s", op, e, buf[:n])
		}
	}()
	fn()
	return ""
}

func allStacks() string {
	buf := make([]byte, 4<<20)
	n := runtime.Stack(buf, true)
	return string(buf[:n])
}

// blockedHandlers extracts the goroutines that are inside a handler and parked on a lock or channel.
func blockedHandlers(dump string) string {
	var out []string
	for _, g := range strings.Split(dump, "\n\n") {
		if !strings.Contains(g, "nriPlugin)") && !strings.Contains(g, "resmgr).reconfigure") {
			continue
		}
		if strings.Contains(g, "sync.(*Mutex).Lock") || strings.Contains(g, "sync.(*RWMutex).Lock") || strings.Contains(g, "chan receive") || strings.Contains(g, "semacquire") {
			lines := strings.Split(g, "\n")
			var fn []string
			for _, l := range lines {
				if strings.HasPrefix(l, "github.com/containers/nri-plugins/") || strings.HasPrefix(l, "sync.") {
					fn = append(fn, strings.SplitN(l, "(", 2)[0])
				}
			}
			out = append(out, strings.Join(fn, " < "))
		}
	}
	sort.Strings(out)
	return strings.Join(out, "\n")
}
