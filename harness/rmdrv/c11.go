package rmdrv

import (
	"fmt"
	"os"
	"os/exec"
	"path/filepath"
	"sort"
	"strings"

	"verif/harness/sysgen"
)

// doLifecycle handles the plugin-lifecycle steps (snapshot / down / up) and, while the plugin
// is down, applies runtime-only transitions to the model. It returns true if the step was
// fully handled here.
func (r *Runner) doLifecycle(s *Step, rep *Reply) bool {
	switch s.Op {
	case "snapshot":
		r.SnapDir = r.Inst.StateDir + ".snap"
		os.RemoveAll(r.SnapDir)
		if out, err := exec.Command("cp", "-a", r.Inst.StateDir, r.SnapDir).CombinedOutput(); err != nil {
			rep.Err = fmt.Sprintf("snapshot failed: %v %s", err, out)
			r.SnapDir = ""
		}
		r.Count("c11_snapshots")
		return true
	case "down":
		r.Inst.Close()
		r.Down = true
		r.Count("c11_downs")
		return true
	case "deaf":
		// The plugin stays up but the runtime's events do not reach it until the next Synchronize (C05/C09 quantify over all
		// request sequences with resynchronisations): the runtime-only transitions of "down", without a restart.
		r.Down, r.Deaf = true, true
		r.Count("deaf_periods")
		return true
	case "up":
		dir := r.Inst.StateDir
		if s.Stale && r.SnapDir != "" {
			// the plugin comes back with an older cache than the runtime's truth
			os.RemoveAll(dir)
			if out, err := exec.Command("cp", "-a", r.SnapDir, dir).CombinedOutput(); err != nil {
				rep.Err = fmt.Sprintf("restore failed: %v %s", err, out)
			}
			r.Count("c11_stale_restarts")
			r.StaleRestarted = true
		}
		inst, err := NewInst(dir, r.Inst.Cfg)
		if err != nil {
			rep.Err = "restart failed: " + err.Error()
			r.Violate("C11", "restart-failed", r.Inst.Policy, "plugin failed to start on its own state directory: %v", err)
			r.Broken = true
			return true
		}
		r.Inst = inst
		r.Down = false
		r.Restarts++
		r.Count("c11_restarts")
		for _, c := range r.LiveCtrs() {
			r.AllocCfg[c.Key] = []*Config{r.Inst.Cfg}
		}
		// the runtime synchronizes right after the plugin registered
		r.Count("req_sync")
		r.doSync(s, rep)
		r.LastFailed = rep.Err != "" || rep.Panic != ""
		if !r.Broken {
			r.runMonitors(&Step{Op: "sync"}, rep)
			r.monC11(s)
		}
		return true
	}
	if !r.Down {
		return false
	}
	if r.Deaf && s.Op == "sync" {
		r.Down, r.Deaf = false, false
		return false // the real Synchronize, on the instance that missed the events
	}
	// runtime-only transitions while the plugin is down
	r.Count("c11_down_" + s.Op)
	switch s.Op {
	case "runpod":
		if r.M.Pods[s.Pod] == nil {
			id, uid := r.newPodIDs()
			r.M.Pods[s.Pod] = &MPod{Key: s.Pod, ID: id, UID: uid, Name: "pod-" + s.Pod, NS: s.NS, QoS: s.QoS, Ann: s.Ann, Labels: s.Labels, State: StRunning}
			if s.Name != "" {
				r.M.Pods[s.Pod].Name = s.Name
			}
		}
	case "create":
		p := r.M.Pods[s.Pod]
		if p == nil || r.M.Ctrs[s.Ctr] != nil {
			break
		}
		c := &MCtr{Key: s.Ctr, ID: r.newCtrID(), Pod: s.Pod, Name: s.Name, ReqMilli: s.Req, LimMilli: s.Lim,
			MemLim: s.MemLim, MemReq: s.MemReq, Swap: s.Swap, InitCpus: s.InitCpus, InitMems: s.InitMems, State: StCreated}
		c.OomAdj = r.M.OomAdj(p.QoS, s.MemReq)
		c.Shadow = r.M.SpecRes(c)
		r.M.Ctrs[s.Ctr] = c
	case "start":
		if c := r.M.Ctrs[s.Ctr]; c != nil && c.State == StCreated {
			c.State = StRunning
		}
	case "stop":
		if c := r.M.Ctrs[s.Ctr]; c != nil && (c.Live() || c.State == StFailed) {
			c.State = StStopped
		}
	case "remove":
		if c := r.M.Ctrs[s.Ctr]; c != nil {
			c.State = StRemoved
		}
	case "stoppod":
		if p := r.M.Pods[s.Pod]; p != nil && p.State == StRunning {
			p.State = StStopped
		}
	case "removepod":
		if p := r.M.Pods[s.Pod]; p != nil {
			p.State = StRemoved
		}
	case "killpod":
		// the whole pod is gone: its containers and the sandbox
		if p := r.M.Pods[s.Pod]; p != nil {
			for _, c := range r.M.PodCtrs(s.Pod) {
				if c.State != StRemoved {
					c.State = StRemoved
				}
			}
			p.State = StRemoved
		}
	}
	return true
}

// monC11 runs right after the Synchronize that follows a restart.
func (r *Runner) monC11(s *Step) {
	kind := "fresh-cache"
	if s.Stale {
		kind = "stale-cache"
	}
	h := r.holders()
	live := r.LiveCtrs()
	r.See("C11", fmt.Sprintf("%s|%s|%d|%s|%s", Machine().Name, kind, r.Restarts, r.stateShape(), r.Inst.Policy))
	var missing []*MCtr
	for _, c := range live {
		if r.Inst.Policy == PolBalloons && (r.cpuPreserveAnn(c) || r.blnPreserveRule(c)) {
			continue
		}
		if _, ok := h[c.ID]; !ok {
			missing = append(missing, c)
		}
	}
	if len(missing) > 0 {
		// A node whose memory or CPU is (nearly) over-committed by what the runtime runs on it is a capacity question whatever
		// the order in which Synchronize re-allocates: whether everything fits then depends on map iteration order in the
		// plugin and in the reference alike. Such restarts are counted, not judged.
		var memDemand int64
		cpuDemand := 0
		for _, c := range live {
			amt := c.MemLim
			if c.MemReq > amt {
				amt = c.MemReq
			}
			memDemand += amt
			cpuDemand += c.ReqMilli
		}
		if memDemand > Machine().TotalMemBytes()*8/10 || cpuDemand > 900*len(Machine().OnlineCPUs()) {
			r.Count("c11_unallocated_on_overcommitted_node")
			missing = nil
		}
	}
	if len(missing) > 0 {
		// Reference: a plugin started WITHOUT any cache and synchronized with the same runtime
		// lists. Only if that one gives every live container an allocation (so neither capacity
		// nor an invalid annotation is the reason) is the restarted plugin's omission a violation.
		r.Count("c11_reference_syncs")
		if all, _ := r.referenceSyncAllocatesAll(); all {
			for _, c := range missing {
				sg := r.Inst.Policy + ":" + kind
				_, mt := EffAnn(r.M.Pods[c.Pod], c.Name, "memory-type."+nsKey)
				_, cs := EffAnn(r.M.Pods[c.Pod], c.Name, "cold-start."+nsKey)
				if r.Inst.Policy == PolTA && (mt || cs) {
					// KF10: only some pools have the memory types this container is restricted to; pool selection ranks
					// affinity above a failed memory offer, so whether it can be (re-)allocated depends on where its
					// siblings were put first - the reference run may succeed where the restarted plugin did not
					sg += ":memory-type-restricted"
				} else if s.Stale && r.cachedCPURequestDiffers(c) {
					// KF7: the stale cache's (older, different) CPU request of this container was kept instead of
					// what the runtime reports, and that older request does not fit any more
					sg += ":stale-requirements"
				} else if c.UpdFailed {
					sg += ":after-failed-update"
				} else {
					// e.g. another container's rejected resource update is still cached (KF1) and
					// eats the capacity this one needs
					sg += r.BrokenStateSuffix()
				}
				r.Violate("C11", "live-without-allocation", sg, "after restart (%s) + Synchronize the runtime reports %s container %s but it holds no allocation (a cache-less plugin synchronized with the same lists allocates every container)", kind, c.State, c.Key)
			}
		} else {
			r.Count("c11_unallocated_also_in_reference")
		}
	}
	var ids []string
	for id := range h {
		ids = append(ids, id)
	}
	sort.Strings(ids)
	for _, id := range ids {
		c := r.M.CtrByID(id)
		switch {
		case c == nil:
			r.Violate("C11", "unknown-holds", r.Inst.Policy+":"+kind, "after restart + Synchronize %s is held for container %s which the runtime does not report", h[id], id)
		case !c.Live():
			r.Violate("C11", "dead-holds", r.Inst.Policy+":"+kind+":"+c.State, "after restart (%s) + Synchronize the runtime reports container %s as %s but it still holds %s", kind, c.Key, c.State, h[id])
		}
	}
	// purged: the cache must not know pods/containers the runtime no longer knows
	cch := r.Inst.RM.Cache()
	for _, cc := range cch.GetContainers() {
		c := r.M.CtrByID(cc.GetID())
		if c == nil || c.State == StRemoved || c.State == StFailed || c.State == StNone {
			st := "unknown"
			if c != nil {
				st = c.State
			}
			r.Violate("C11", "container-not-purged", r.Inst.Policy+":"+kind, "after restart + Synchronize the cache still has container %s (%s) which the runtime no longer knows", cc.GetID(), st)
		}
	}
	for _, cp := range cch.GetPods() {
		found := false
		for _, p := range r.M.Pods {
			if p.ID == cp.GetID() && p.State != StRemoved {
				found = true
			}
		}
		if !found {
			r.Violate("C11", "pod-not-purged", r.Inst.Policy+":"+kind, "after restart + Synchronize the cache still has pod %s which the runtime no longer knows", cp.GetID())
		}
	}
	for _, c := range live {
		if _, ok := cch.LookupContainer(c.ID); !ok {
			r.Violate("C11", "live-not-cached", r.Inst.Policy+":"+kind, "after restart + Synchronize %s container %s is not in the cache", c.State, c.Key)
		}
	}
	r.Count("c11_restart_checked_" + kind)
}

// RunRestartHistory: history, state-directory snapshot at a random boundary, plugin down,
// runtime drift, restart (fresh or stale cache) + Synchronize, C11 + C01–C05 monitors,
// continued history, possibly further restarts, teardown and leak check.
func RunRestartHistory(o HistOpts) *HistResult {
	rng := sysgen.NewRNG(o.Seed)
	mach := Machine()
	g := NewGen(rng, mach, o.Policy)
	g.applyBias(o.Bias)
	g.NoSync = true
	res := &HistResult{Hist: o.Hist, Seed: o.Seed, Machine: mach.Name, Policy: o.Policy, Stats: map[string]int{}, Seen: map[string][]string{}}
	var cfg *Config
	var inst *Inst
	var err error
	stateDir := filepath.Join(o.WorkDir, fmt.Sprintf("state-%d", o.Hist))
	for try := 0; try < 8; try++ {
		cfg = g.Config()
		os.RemoveAll(stateDir)
		if inst, err = NewInst(stateDir, cfg); err == nil {
			break
		}
	}
	if err != nil {
		res.StartErr = err.Error()
		return res
	}
	defer os.RemoveAll(stateDir)
	defer os.RemoveAll(stateDir + ".snap")
	res.Cfg = cfg.Clone()
	r := NewRunner(inst, NewModel(mach.TotalMemBytes()), o.Hist)
	r.Props = o.Props
	r.LogF = o.LogF
	defer func() { r.Inst.Close() }()
	nrestarts := 1 + rng.Intn(2)
	phase := o.Steps / (nrestarts + 1)
	if phase < 6 {
		phase = 6
	}
	for ri := 0; ri <= nrestarts && !r.Broken; ri++ {
		snapAt := rng.Intn(phase)
		for i := 0; i < phase && !r.Broken; i++ {
			if ri < nrestarts && i == snapAt {
				r.Do(&Step{Op: "snapshot"})
			}
			r.Do(g.NextStep(r))
		}
		if ri == nrestarts || r.Broken {
			break
		}
		r.Do(&Step{Op: "down"})
		// runtime drift while the plugin is down
		nd := rng.Intn(6)
		for i := 0; i < nd; i++ {
			s := g.NextStep(r)
			if s.Op == "reconf" || s.Op == "sync" || s.Op == "update" || s.Op == "coldstart-done" {
				continue
			}
			if s.Op == "create" {
				// a pod whose annotations make every allocation fail (unknown balloon type,
				// memory type the machine lacks) cannot tell us anything about Synchronize
				bad := false
				if p := r.M.Pods[s.Pod]; p != nil {
					for k := range p.Ann {
						if strings.HasPrefix(k, "balloon.") || strings.HasPrefix(k, "memory-type.") {
							bad = true
						}
					}
				}
				if bad {
					continue
				}
				// what the runtime creates while the plugin is down must not be a capacity
				// question: keep it small so that a missing allocation is never "did not fit",
				// and create nothing on a node whose CPUs are already (nearly) all requested -
				// no scheduler would place a pod there
				total := 0
				for _, c := range r.LiveCtrs() {
					total += c.ReqMilli
				}
				if total > 800*len(Machine().OnlineCPUs())-2000 {
					continue
				}
				p := r.M.Pods[s.Pod]
				if p != nil && p.QoS != "BestEffort" {
					s.Req, s.Lim = 100, 100
					if p.QoS == "Burstable" {
						s.Lim = 200
					}
					s.MemLim, s.MemReq = 64<<20, 64<<20
				}
			}
			r.Do(s)
		}
		if rng.Chance(1, 4) {
			// a whole pod vanished while the plugin was down: its containers and the sandbox are gone from the runtime's
			// lists, the cache still has all of them
			var cands []string
			for _, k := range r.M.PodKeys() {
				if p := r.M.Pods[k]; p.State == StRunning {
					for _, c := range r.M.PodCtrs(k) {
						if c.Live() {
							cands = append(cands, k)
							break
						}
					}
				}
			}
			if len(cands) > 0 {
				k := sysgen.Pick(rng, cands)
				for _, c := range r.M.PodCtrs(k) {
					if c.State != StRemoved {
						r.Do(&Step{Op: "remove", Pod: k, Ctr: c.Key})
					}
				}
				r.Do(&Step{Op: "removepod", Pod: k})
				r.Count("c11_pod_vanished_with_live_containers")
			}
		}
		if rng.Chance(1, 4) {
			// A pod re-created under the same name while the plugin was down, its old sandbox still terminating: the
			// runtime then lists two live containers with the same namespace/pod/container name and different IDs.
			var cands []string
			for _, k := range r.M.PodKeys() {
				if p := r.M.Pods[k]; p.State == StRunning && !strings.HasSuffix(k, "r") {
					for _, c := range r.M.PodCtrs(k) {
						if c.Live() {
							cands = append(cands, k)
							break
						}
					}
				}
			}
			if len(cands) > 0 {
				k := sysgen.Pick(rng, cands)
				old := r.M.Pods[k]
				nk := k + "r"
				if r.M.Pods[nk] == nil {
					r.Do(&Step{Op: "runpod", Pod: nk, Name: old.Name, NS: old.NS, QoS: old.QoS, Ann: old.Ann, Labels: old.Labels})
					for _, c := range r.M.PodCtrs(k) {
						if !c.Live() {
							continue
						}
						cs := &Step{Op: "create", Pod: nk, Ctr: c.Key + "r", Name: c.Name}
						if old.QoS != "BestEffort" {
							cs.Req, cs.Lim, cs.MemLim, cs.MemReq = 100, 100, 64<<20, 64<<20
							if old.QoS == "Burstable" {
								cs.Lim = 200
							}
						}
						r.Do(cs)
						r.Do(&Step{Op: "start", Pod: nk, Ctr: cs.Ctr})
					}
					old.State = StStopped // terminating: it gets no new containers, its old ones are still reported as live
					r.Count("c11_same_name_pod_recreated")
				}
			}
		}
		r.Do(&Step{Op: "up", Stale: rng.Chance(1, 2)})
	}
	if !r.Broken {
		Teardown(r)
		if !r.Broken {
			LeakCheck(r, filepath.Join(o.WorkDir, fmt.Sprintf("twin-%d", o.Hist)))
		}
	}
	collect(r, res)
	res.Stats["histories"]++
	return res
}

// referenceSyncAllocatesAll starts a cache-less twin, synchronizes it with the runtime's lists
// and tells whether every live (manageable) container got an allocation there.
func (r *Runner) referenceSyncAllocatesAll() (bool, error) {
	dir := r.Inst.StateDir + ".c11ref"
	os.RemoveAll(dir)
	defer os.RemoveAll(dir)
	twin, err := NewInst(dir, r.Inst.Cfg)
	if err != nil {
		return false, err
	}
	defer twin.Close()
	tr := NewRunner(twin, r.M, r.Hist)
	pods, ctrs := r.RuntimeLists()
	// The reference answers one question only: is there room for all of them? Pods that share a name with another pod
	// (re-created while the old sandbox terminates) get unique names here, so that what the plugin does with
	// same-name containers - part of what is being checked - cannot influence the answer.
	seenName := map[string]int{}
	for _, p := range pods {
		k := p.Namespace + "/" + p.Name
		if n := seenName[k]; n > 0 {
			p.Name = fmt.Sprintf("%s-ref%d", p.Name, n)
		}
		seenName[k]++
	}
	ok := true
	if p, _ := Guard2(func() { _, err = twin.RM.Synchronize(pods, ctrs) }); p != "" || err != nil {
		return false, err
	}
	h := tr.holders()
	for _, c := range r.LiveCtrs() {
		if r.Inst.Policy == PolBalloons && (r.cpuPreserveAnn(c) || r.blnPreserveRule(c)) {
			continue
		}
		if _, has := h[c.ID]; !has {
			ok = false
		}
	}
	return ok, nil
}

// Guard2 runs fn and reports a panic as a string.
func Guard2(fn func()) (p string, site string) {
	defer func() {
		if e := recover(); e != nil {
			p = fmt.Sprint(e)
		}
	}()
	fn()
	return "", ""
}

// cachedCPURequestDiffers: the CPU request the cache holds for the container (requirements, or the last resource update)
// is not the one the runtime has (KF7: a stale cache keeps its older requirements for containers it already knows).
func (r *Runner) cachedCPURequestDiffers(c *MCtr) bool {
	cc, ok := r.Inst.RM.Cache().LookupContainer(c.ID)
	if !ok {
		return false
	}
	res, upd := cc.GetResourceUpdates()
	if !upd {
		res = cc.GetResourceRequirements()
	}
	q, ok := res.Requests["cpu"]
	if !ok {
		return c.ReqMilli > 2
	}
	d := int(q.MilliValue()) - c.ReqMilli
	return d > 2 || d < -2
}
