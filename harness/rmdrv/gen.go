package rmdrv

import (
	"fmt"
	"sort"
	"strings"

	cfgpolicy "github.com/containers/nri-plugins/pkg/apis/config/v1alpha1/resmgr/policy"
	blncfg "github.com/containers/nri-plugins/pkg/apis/config/v1alpha1/resmgr/policy/balloons"
	tacfg "github.com/containers/nri-plugins/pkg/apis/config/v1alpha1/resmgr/policy/topologyaware"
	resmgrapi "github.com/containers/nri-plugins/pkg/apis/resmgr/v1alpha1"

	"verif/harness/sysgen"
)

// Gen generates configurations and history steps from a PRNG.
type Gen struct {
	R       *sysgen.RNG
	M       *sysgen.Machine
	Policy  string
	MaxPods int
	MaxCtrs int
	// Bias knobs
	FillBias    bool // prefer creating until capacity is exhausted
	MemPressure bool // memory limits near node/pool capacity
	OptOuts     bool // generate opted-out containers more often
	IsoBias     bool // machines with kernel-isolated CPUs: steer towards isolated exclusive grants
	OutOfOrder  bool // lifecycle events the runtime may deliver out of order: remove without stop, pod stop/removal before its containers' events
	NoReconf    bool
	NoSync      bool
	nPod, nCtr  int
	gen         int64
}

func NewGen(r *sysgen.RNG, m *sysgen.Machine, policy string) *Gen {
	return &Gen{R: r, M: m, Policy: policy, MaxPods: 5, MaxCtrs: 9}
}

func bp(b bool) *bool { return &b }

func (g *Gen) optBool() *bool {
	switch g.R.Intn(3) {
	case 0:
		return nil
	case 1:
		return bp(true)
	}
	return bp(false)
}

func (g *Gen) nonIsolatedOnline() []int {
	iso := SetOf(g.M.Isolated)
	var r []int
	for _, c := range g.M.OnlineCPUs() {
		if !iso.Has(c) {
			r = append(r, c)
		}
	}
	return r
}

func (g *Gen) subset(xs []int, n int) []int {
	if n >= len(xs) {
		return append([]int(nil), xs...)
	}
	idx := make([]int, len(xs))
	for i := range idx {
		idx[i] = i
	}
	for i := 0; i < n; i++ {
		j := i + g.R.Intn(len(idx)-i)
		idx[i], idx[j] = idx[j], idx[i]
	}
	out := make([]int, n)
	for i := 0; i < n; i++ {
		out[i] = xs[idx[i]]
	}
	sort.Ints(out)
	return out
}

// availableAndReserved picks an available set (possibly absent) and a reservation.
func (g *Gen) availableAndReserved() (avail string, availSet []int, reserved string) {
	online := g.M.OnlineCPUs()
	availSet = online
	if g.R.Chance(3, 10) && len(online) > 2 {
		n := g.R.Range((len(online)+1)/2, len(online))
		availSet = g.subset(online, n)
		avail = "cpuset:" + sysgen.CPUList(availSet)
	}
	iso := SetOf(g.M.Isolated)
	var cand []int
	for _, c := range availSet {
		if !iso.Has(c) {
			cand = append(cand, c)
		}
	}
	if len(cand) == 0 {
		// available set only has isolated CPUs: fall back to everything
		availSet, avail = online, ""
		cand = g.nonIsolatedOnline()
	}
	if g.R.Chance(1, 2) {
		n := 1
		if len(cand) > 3 && g.R.Chance(1, 2) {
			n = 2
		}
		reserved = "cpuset:" + sysgen.CPUList(g.subset(cand, n))
	} else {
		q := []string{"750m", "1", "1"}
		if len(cand) > 3 {
			q = append(q, "1500m", "2")
		}
		reserved = sysgen.Pick(g.R, q)
	}
	return
}

func (g *Gen) TAConfig() *Config {
	g.gen++
	avail, _, reserved := g.availableAndReserved()
	pi := g.optBool()
	if g.IsoBias && g.R.Chance(3, 4) {
		pi = bp(true)
	}
	c := &tacfg.Config{
		PinCPU:             !g.R.Chance(1, 10),
		PinMemory:          !g.R.Chance(1, 7),
		PreferIsolated:     pi,
		PreferShared:       nil,
		ColocatePods:       g.R.Chance(1, 3),
		ColocateNamespaces: g.R.Chance(1, 4),
		ReservedResources:  cfgpolicy.Constraints{"cpu": cfgpolicy.Amount(reserved)},
		DefaultCPUPriority: tacfg.CPUPriority(sysgen.Pick(g.R, []string{"none", "none", "low", "normal", "high"})),
	}
	if g.R.Chance(1, 4) {
		c.PreferShared = bp(g.R.Chance(1, 2))
	}
	if avail != "" {
		c.AvailableResources = cfgpolicy.Constraints{"cpu": cfgpolicy.Amount(avail)}
	}
	if g.R.Chance(1, 2) {
		c.ReservedPoolNamespaces = []string{"reserved-*"}
		if g.R.Chance(1, 2) {
			c.ReservedPoolNamespaces = append(c.ReservedPoolNamespaces, "monitoring")
		}
	}
	return &Config{Policy: PolTA, TA: c, Gen: g.gen}
}

var blnLevels = []string{"", "", "system", "package", "die", "numa", "l2cache", "core"}

func (g *Gen) BlnConfig() *Config {
	g.gen++
	avail, availSet, reserved := g.availableAndReserved()
	c := &blncfg.Config{
		ReservedResources:           cfgpolicy.Constraints{"cpu": cfgpolicy.Amount(reserved)},
		AllocatorTopologyBalancing:  g.R.Chance(1, 3),
		PreferSpreadOnPhysicalCores: g.R.Chance(1, 4),
	}
	if avail != "" {
		c.AvailableResources = cfgpolicy.Constraints{"cpu": cfgpolicy.Amount(avail)}
	}
	if g.R.Chance(1, 3) {
		c.IdleCpuClass = "idle"
	}
	if g.R.Chance(1, 4) {
		c.PinCPU = bp(!g.R.Chance(1, 4))
	}
	if g.R.Chance(1, 3) {
		c.PinMemory = bp(g.R.Chance(2, 3))
	}
	if g.R.Chance(1, 2) {
		c.ShowContainersInNrt = bp(true)
	}
	if g.R.Chance(1, 3) {
		c.ReservedPoolNamespaces = []string{"reserved-*"}
	}
	if g.R.Chance(1, 4) || g.OptOuts {
		c.Preserve = &blncfg.ContainerMatchConfig{MatchExpressions: []resmgrapi.Expression{
			{Key: "name", Op: resmgrapi.In, Values: []string{"keep", "keep2"}},
		}}
		if g.R.Chance(1, 2) {
			c.Preserve.MatchExpressions = append(c.Preserve.MatchExpressions,
				resmgrapi.Expression{Key: "pod/labels/preserve", Op: resmgrapi.Exists})
		}
	}
	budget := len(availSet) - 2 // leave room for reserved + default
	names := []string{"perf", "batch", "misc"}
	ntypes := g.R.Range(0, 3)
	useLoads := g.R.Chance(1, 5)
	for i := 0; i < ntypes; i++ {
		d := &blncfg.BalloonDef{Name: names[i]}
		if g.R.Chance(1, 2) && budget > 0 {
			d.MinCpus = g.R.Range(1, min(2, budget))
		}
		if g.R.Chance(1, 2) {
			d.MaxCpus = d.MinCpus + g.R.Range(0, 3)
			if d.MaxCpus == 0 {
				d.MaxCpus = g.R.Range(1, 4)
			}
		}
		if g.R.Chance(1, 3) && budget >= max(1, d.MinCpus) {
			d.MinBalloons = g.R.Range(1, min(2, max(1, budget/max(1, d.MinCpus))))
			budget -= d.MinBalloons * d.MinCpus
		}
		if g.R.Chance(1, 2) {
			d.MaxBalloons = d.MinBalloons + g.R.Range(0, 2)
			if d.MaxBalloons == 0 {
				d.MaxBalloons = g.R.Range(1, 3)
			}
		}
		switch g.R.Intn(4) {
		case 0:
			d.Namespaces = []string{"ns-a"}
		case 1:
			d.Namespaces = []string{"ns-*"}
		case 2:
			d.MatchExpressions = []resmgrapi.Expression{{Key: "name", Op: resmgrapi.In, Values: []string{"c0", "c2"}}}
		case 3:
			d.MatchExpressions = []resmgrapi.Expression{{Key: "pod/labels/tier", Op: resmgrapi.Equals, Values: []string{names[i]}}}
		}
		if g.R.Chance(1, 4) {
			d.GroupBy = "${pod/namespace}"
		}
		d.PreferNewBalloons = g.R.Chance(1, 3)
		d.PreferSpreadingPods = g.R.Chance(1, 3)
		d.PreferPerNamespaceBalloon = g.R.Chance(1, 4)
		d.ShareIdleCpusInSame = blncfg.CPUTopologyLevel(sysgen.Pick(g.R, blnLevels))
		d.HideHyperthreads = g.optBool()
		if g.R.Chance(1, 3) {
			d.CpuClass = sysgen.Pick(g.R, []string{"fast", "slow"})
		}
		if g.R.Chance(1, 4) {
			d.PinMemory = bp(g.R.Chance(1, 2))
		}
		if g.R.Chance(1, 5) {
			d.MemoryTypes = []string{"DRAM"}
		}
		d.AllocatorPriority = blncfg.CPUPriority(sysgen.Pick(g.R, []string{"", "high", "normal", "low", "none"}))
		if g.R.Chance(1, 6) {
			d.PreferSpreadOnPhysicalCores = bp(g.R.Chance(1, 2))
		}
		if g.R.Chance(1, 8) {
			d.PreferIsolCpus = true
		}
		if useLoads && g.R.Chance(1, 2) {
			d.Loads = []string{"avx"}
		}
		c.BalloonDefs = append(c.BalloonDefs, d)
	}
	if useLoads {
		c.LoadClasses = []blncfg.LoadClass{{Name: "avx", Level: sysgen.Pick(g.R, []blncfg.CPUTopologyLevel{"core", "l2cache"}), OverloadsLevelInBalloon: g.R.Chance(1, 2)}}
	}
	// sometimes configure the built-in types explicitly
	if g.R.Chance(1, 3) {
		d := &blncfg.BalloonDef{Name: "default", ShareIdleCpusInSame: blncfg.CPUTopologyLevel(sysgen.Pick(g.R, blnLevels)), HideHyperthreads: g.optBool()}
		if g.R.Chance(1, 2) {
			d.MaxCpus = g.R.Range(1, 4)
		}
		c.BalloonDefs = append(c.BalloonDefs, d)
	}
	if g.R.Chance(1, 4) {
		d := &blncfg.BalloonDef{Name: "reserved", ShareIdleCpusInSame: blncfg.CPUTopologyLevel(sysgen.Pick(g.R, blnLevels))}
		if g.R.Chance(1, 2) {
			d.CpuClass = "slow"
		}
		c.BalloonDefs = append([]*blncfg.BalloonDef{d}, c.BalloonDefs...)
	}
	return &Config{Policy: PolBalloons, Bln: c, Gen: g.gen}
}

func (g *Gen) Config() *Config {
	var c *Config
	if g.Policy == PolTA {
		c = g.TAConfig()
	} else {
		c = g.BlnConfig()
	}
	// rarely used policy-independent options: class control with the pod QoS class as default class makes the pipeline
	// decorate every adjustment/update. (The Prometheus exporter is only switched on by the race mode, for the first
	// instance of a process: policies register their collectors in a process-wide registry, a second instance in the same
	// process makes the gatherer refuse to start - an artefact of running many instances per process.)
	if g.R.Chance(1, 6) {
		c.Common = &CommonCfg{RDTQoSDefault: g.R.Chance(1, 2), BlockIOQoSDefault: g.R.Chance(1, 2)}
	}
	return c
}

// ---------- pods / containers ----------

func (g *Gen) namespace(cfg *Config) string {
	ns := []string{"default", "default", "ns-a", "ns-b", "kube-system", "reserved-x", "monitoring"}
	return sysgen.Pick(g.R, ns)
}

func (g *Gen) annKey(short, ctr string) string {
	k := short + "." + nsKey
	switch g.R.Intn(3) {
	case 0:
		return k + "/container." + ctr
	case 1:
		return k + "/pod"
	}
	return k
}

// podAnnotations draws valid annotations from the dictionary of keys the policies interpret.
func (g *Gen) podAnnotations(cfg *Config) map[string]string {
	ann := map[string]string{}
	tf := func() string { return sysgen.Pick(g.R, []string{"true", "false"}) }
	ctr := func() string { return fmt.Sprintf("c%d", g.R.Intn(3)) }
	p := func(n, d int) bool { return g.R.Chance(n, d) }
	optW := 12
	if g.OptOuts {
		optW = 3
	}
	if p(1, 10) {
		// class annotations are interpreted by the cache itself (it queues a class for the container when it is inserted),
		// whether or not RDT / block I/O control is enabled
		ann[g.annKey(sysgen.Pick(g.R, []string{"rdtclass", "blockioclass"}), ctr())] = sysgen.Pick(g.R, []string{"gold", "silver", "besteffort"})
	}
	if p(1, optW) {
		ann[g.annKey("cpu.preserve", ctr())] = "true"
	}
	if p(1, optW) {
		ann[g.annKey("memory.preserve", ctr())] = "true"
	}
	if p(1, 6) {
		ann[g.annKey("hide-hyperthreads", ctr())] = tf()
	}
	if p(1, 8) {
		ann[g.annKey("memory-type", ctr())] = sysgen.Pick(g.R, []string{"dram", "pmem", "dram,pmem", "hbm", "dram,hbm"})
	}
	if cfg.Policy == PolTA {
		if p(1, 4) {
			ann[g.annKey("prefer-shared-cpus", ctr())] = tf()
		}
		if p(1, 4) {
			ann[g.annKey("prefer-isolated-cpus", ctr())] = tf()
		}
		if p(1, 8) {
			ann[g.annKey("prefer-reserved-cpus", ctr())] = tf()
		}
		if p(1, 10) {
			ann[g.annKey("prefer-cpu-priority", ctr())] = sysgen.Pick(g.R, []string{"high", "normal", "low", "none", "default"})
		}
		if p(1, 10) {
			c := ctr()
			ann[g.annKey("memory-type", c)] = "dram,pmem"
			ann["cold-start."+nsKey+"/container."+c] = "duration: 59m"
		}
		if p(1, 12) {
			ann["topologyhints."+nsKey] = "false"
		}
	} else {
		if p(1, 6) {
			names := []string{"default", "reserved"}
			for _, d := range cfg.Bln.BalloonDefs {
				names = append(names, d.Name)
			}
			if p(1, 6) {
				names = []string{"nonexistent"}
			}
			ann["balloon.balloons."+nsKey] = sysgen.Pick(g.R, names)
		}
	}
	return ann
}

func (g *Gen) RunPodStep(cfg *Config) *Step {
	g.nPod++
	s := &Step{Op: "runpod", Pod: fmt.Sprintf("p%d", g.nPod), NS: g.namespace(cfg),
		QoS: sysgen.Pick(g.R, []string{"Guaranteed", "Guaranteed", "Burstable", "Burstable", "BestEffort"}),
		Ann: g.podAnnotations(cfg)}
	if g.IsoBias && g.R.Chance(1, 2) {
		s.QoS = "Guaranteed"
		if s.NS == "kube-system" || strings.HasPrefix(s.NS, "reserved") || s.NS == "monitoring" {
			s.NS = "default"
		}
		if g.R.Chance(1, 3) {
			if s.Ann == nil {
				s.Ann = map[string]string{}
			}
			s.Ann["prefer-isolated-cpus."+nsKey] = "true"
		}
	}
	if g.R.Chance(1, 3) {
		s.Labels = map[string]string{"tier": sysgen.Pick(g.R, []string{"perf", "batch", "misc", "x"})}
		if g.R.Chance(1, 4) {
			s.Labels["preserve"] = "yes"
		}
	}
	return s
}

func (g *Gen) minDRAM() int64 {
	var m int64
	for _, n := range g.M.Nodes {
		if n.Type == sysgen.DRAM && n.MemKB > 0 {
			b := int64(n.MemKB) * 1024
			if m == 0 || b < m {
				m = b
			}
		}
	}
	return m
}

func (g *Gen) memLimit() int64 {
	c := g.minDRAM()
	total := g.M.TotalMemBytes()
	opts := []int64{0, 0, 64 << 20, 256 << 20, c / 4, c / 2}
	if g.FillBias && g.R.Chance(3, 4) {
		// keep memory small so that CPU capacity, not memory, is what runs out
		return sysgen.Pick(g.R, []int64{0, 32 << 20, 64 << 20, 128 << 20})
	}
	if g.MemPressure {
		opts = []int64{64 << 20, c / 2, c / 2, c * 9 / 10, c * 3 / 2, c * 2, total / 2, total + (1 << 30)}
	} else if g.R.Chance(1, 4) {
		opts = append(opts, c*9/10, c*3/2, total+(1<<30))
	}
	return sysgen.Pick(g.R, opts)
}

// boundaryReq sizes a CPU request relative to what is still free (fill bias): just below, at and
// just above the allocatable shared CPU of some pool (topology-aware) or the free CPUs
// (balloons), and - for Guaranteed - mixed requests whose full CPUs fit but whose fraction does
// not. This steers histories into the capacity-failure and undo paths; the oracles do not
// depend on it.
func (g *Gen) boundaryReq(r *Runner, qos string) (int, bool) {
	if r == nil || r.Inst == nil || qos == "BestEffort" {
		return 0, false
	}
	var free []int
	if sn := r.Inst.TASnap(); sn != nil {
		for _, p := range sn.Pools {
			free = append(free, p.AllocatableShared)
		}
	} else if sn := r.Inst.BlnSnap(); sn != nil {
		free = append(free, 1000*len(sn.FreeCpus))
		for i := range sn.Balloons {
			b := &sn.Balloons[i]
			free = append(free, 1000*len(b.Cpus)-b.RequestedMilliCpus, 1000*(len(sn.FreeCpus)+len(b.Cpus))-b.RequestedMilliCpus)
		}
	}
	if len(free) == 0 {
		return 0, false
	}
	a := sysgen.Pick(g.R, free)
	cands := []int{a - 500, a - 100, a - 1, a, a + 1, a + 100, a + 500}
	if qos == "Guaranteed" && a > 1000 {
		// full CPUs fit (a > 1000*full), the fraction does not
		full := (a - 1) / 1000
		rest := a - 1000*full
		cands = append(cands, 1000*full+rest+100, 1000*full+rest+1, 1000*full+999, 1000*full+rest, 1000*full+rest-1)
	}
	var ok []int
	for _, c := range cands {
		if c > 0 && c <= 1000*len(g.M.OnlineCPUs())+1000 {
			ok = append(ok, c)
		}
	}
	if len(ok) == 0 {
		return 0, false
	}
	return sysgen.Pick(g.R, ok), true
}

func (g *Gen) cpuReq(r *Runner, qos string) (req, lim int) {
	n := len(g.M.OnlineCPUs())
	if g.FillBias && g.R.Chance(2, 5) {
		if b, ok := g.boundaryReq(r, qos); ok {
			if qos == "Guaranteed" {
				return b, b
			}
			if g.R.Chance(1, 2) {
				lim = b * 2
			}
			return b, lim
		}
	}
	switch qos {
	case "Guaranteed":
		opts := []int{100, 500, 999, 1000, 1000, 1500, 2000, 2000, 2500, 3000, 4000}
		if g.IsoBias && g.R.Chance(2, 3) {
			opts = []int{1000, 1000, 2000, 1000, 2000, 3000}
		}
		if g.R.Chance(1, 15) {
			opts = []int{n*1000 + 1000}
		}
		req = sysgen.Pick(g.R, opts)
		return req, req
	case "Burstable":
		req = sysgen.Pick(g.R, []int{1, 2, 100, 250, 500, 900, 1500, 2000})
		if g.R.Chance(1, 2) {
			lim = req * 2
		}
		return req, lim
	}
	return 0, 0
}

func (g *Gen) CreateStep(r *Runner, podKey string) *Step {
	p := r.M.Pods[podKey]
	g.nCtr++
	used := map[string]bool{}
	for _, c := range r.M.PodCtrs(podKey) {
		if c.State != StRemoved {
			used[c.Name] = true
		}
	}
	// a pod re-created under the same name (restart drift): the plugin recognises containers by namespace/pod/container
	// name, a third instance of a name would make "which one is the stale instance" a matter of map order
	for _, k := range r.M.PodKeys() {
		if o := r.M.Pods[k]; o != p && p != nil && o.Name == p.Name && o.NS == p.NS {
			for _, c := range r.M.PodCtrs(k) {
				if c.State != StRemoved {
					used[c.Name] = true
				}
			}
		}
	}
	name := ""
	for _, cand := range []string{"c0", "c1", "c2", "keep", "c3", "c4"} {
		if !used[cand] && (cand != "keep" || g.R.Chance(1, 3)) {
			name = cand
			break
		}
	}
	if name == "" {
		name = fmt.Sprintf("x%d", g.nCtr)
	}
	req, lim := g.cpuReq(r, p.QoS)
	s := &Step{Op: "create", Pod: podKey, Ctr: fmt.Sprintf("%s.%d", podKey, g.nCtr), Name: name, Req: req, Lim: lim}
	switch p.QoS {
	case "Guaranteed":
		s.MemLim = g.memLimit()
		if s.MemLim == 0 {
			s.MemLim = 64 << 20
		}
		s.MemReq = s.MemLim
	case "Burstable":
		s.MemLim = g.memLimit()
		if s.MemLim > 0 {
			s.MemReq = s.MemLim / int64(g.R.Range(1, 4))
		} else {
			s.MemReq = int64(g.R.Range(16, 512)) << 20
		}
	}
	if s.MemLim > 0 && g.R.Chance(1, 5) {
		s.Swap = 2 * s.MemLim // swap-enabled node: the memory+swap limit differs from the memory limit
	}
	// Containers that are opted out keep a pre-existing pinning: give those a non-empty one.
	cpuPres, _ := EffAnn(p, name, "cpu.preserve."+nsKey)
	memPres, _ := EffAnn(p, name, "memory.preserve."+nsKey)
	online := g.M.OnlineCPUs()
	if cpuPres == "true" || name == "keep" || !pinCPUOf(r.Inst.Cfg) {
		s.InitCpus = sysgen.CPUList(g.subset(online, g.R.Range(1, min(4, len(online)))))
	}
	if memPres == "true" || name == "keep" || cpuPres == "true" || g.R.Chance(1, 6) {
		var mems []int
		for _, n := range g.M.Nodes {
			if n.MemKB > 0 {
				mems = append(mems, n.ID)
			}
		}
		s.InitMems = sysgen.CPUList(g.subset(mems, g.R.Range(1, len(mems))))
	}
	return s
}

func pinCPUOf(c *Config) bool {
	if c.Policy == PolTA {
		return c.TA.PinCPU
	}
	return c.Bln.PinCPU == nil || *c.Bln.PinCPU
}

// NextStep picks the next lifecycle-valid step for the current model state.
func (g *Gen) NextStep(r *Runner) *Step {
	type cand struct {
		w int
		f func() *Step
	}
	var cands []cand
	add := func(w int, f func() *Step) {
		if w > 0 {
			cands = append(cands, cand{w, f})
		}
	}
	cfg := r.Inst.Cfg
	var runningPods, emptyPods []string
	livePods := 0
	for _, k := range r.M.PodKeys() {
		p := r.M.Pods[k]
		if p.State == StRemoved {
			continue
		}
		livePods++
		n := 0
		for _, c := range r.M.PodCtrs(k) {
			if c.State != StRemoved {
				n++
			}
		}
		if p.State == StRunning {
			runningPods = append(runningPods, k)
		}
		if n == 0 {
			emptyPods = append(emptyPods, k)
		}
	}
	var created, live, stopped, failed []*MCtr
	present := 0
	for _, k := range r.M.CtrKeys() {
		c := r.M.Ctrs[k]
		switch c.State {
		case StCreated:
			created = append(created, c)
			live = append(live, c)
			present++
		case StRunning:
			live = append(live, c)
			present++
		case StStopped:
			stopped = append(stopped, c)
			present++
		case StFailed:
			failed = append(failed, c)
		}
	}
	wCreate := 10
	if g.FillBias {
		wCreate = 18
	}
	if livePods < g.MaxPods {
		add(5, func() *Step { return g.RunPodStep(cfg) })
	}
	if len(runningPods) > 0 && present < g.MaxCtrs {
		add(wCreate, func() *Step { return g.CreateStep(r, sysgen.Pick(g.R, runningPods)) })
	}
	if len(created) > 0 {
		add(6, func() *Step { c := sysgen.Pick(g.R, created); return &Step{Op: "start", Ctr: c.Key, Pod: c.Pod} })
	}
	if len(live) > 0 {
		wStop := 5
		if present >= g.MaxCtrs {
			wStop = 12
		}
		add(wStop, func() *Step { c := sysgen.Pick(g.R, live); return &Step{Op: "stop", Ctr: c.Key, Pod: c.Pod} })
		add(4, func() *Step {
			c := sysgen.Pick(g.R, live)
			p := r.M.Pods[c.Pod]
			s := &Step{Op: "update", Ctr: c.Key, Pod: c.Pod}
			// balloons does not implement resource updates (C02 quantifies over
			// create/stop/remove/synchronize/reconfigure): only identical updates there
			if g.R.Chance(1, 3) || cfg.Policy == PolBalloons {
				s.Same = true
				return s
			}
			s.Req, s.Lim = g.cpuReq(r, p.QoS)
			s.MemLim = c.MemLim
			if g.R.Chance(1, 3) {
				s.MemLim = g.memLimit()
				if s.MemLim == 0 {
					s.MemLim = c.MemLim
				}
			}
			return s
		})
	}
	if len(stopped) > 0 {
		add(6, func() *Step { c := sysgen.Pick(g.R, stopped); return &Step{Op: "remove", Ctr: c.Key, Pod: c.Pod} })
	}
	if len(failed) > 0 {
		add(4, func() *Step {
			c := sysgen.Pick(g.R, failed)
			if g.R.Chance(1, 2) {
				return &Step{Op: "stop", Ctr: c.Key, Pod: c.Pod}
			}
			return &Step{Op: "remove", Ctr: c.Key, Pod: c.Pod}
		})
	}
	if g.OutOfOrder {
		if len(live) > 0 {
			add(3, func() *Step { c := sysgen.Pick(g.R, live); return &Step{Op: "remove", Ctr: c.Key, Pod: c.Pod} })
		}
		// StopPodSandbox may overtake the StopContainer events of the pod's containers (those come from the runtime's
		// exit monitor); RemovePodSandbox cannot: the runtime removes the containers, with their events, first.
		var busy []string
		for _, k := range r.M.PodKeys() {
			if p := r.M.Pods[k]; p.State == StRunning {
				for _, c := range r.M.PodCtrs(k) {
					if c.Live() {
						busy = append(busy, k)
						break
					}
				}
			}
		}
		if len(busy) > 0 {
			add(3, func() *Step { return &Step{Op: "stoppod", Pod: sysgen.Pick(g.R, busy)} })
		}
	}
	if len(emptyPods) > 0 {
		add(3, func() *Step {
			k := sysgen.Pick(g.R, emptyPods)
			if r.M.Pods[k].State == StRunning {
				return &Step{Op: "stoppod", Pod: k}
			}
			return &Step{Op: "removepod", Pod: k}
		})
	}
	if !g.NoSync {
		add(1, func() *Step { return &Step{Op: "sync"} })
	}
	if !g.NoReconf {
		add(2, func() *Step { return g.ReconfStep(r) })
	}
	if cfg.Policy == PolTA && !r.Down {
		// The cold-start timer fires for exactly the running containers whose grant carries a cold-start period (that is
		// what the policy arms a timer for at StartContainer): read it from the policy rather than re-deriving it from the
		// annotations, so that a grant that wrongly carries one gets its event too.
		armed := map[string]bool{}
		if sn := r.Inst.TASnap(); sn != nil {
			for _, g := range sn.Grants {
				if g.ColdStart > 0 {
					armed[g.Container] = true
				}
			}
		}
		for _, c := range live {
			if c.State == StRunning && armed[c.ID] {
				cc := c
				add(3, func() *Step { return &Step{Op: "coldstart-done", Ctr: cc.Key, Pod: cc.Pod} })
				break
			}
		}
	}
	if g.OutOfOrder && !r.Deaf && !g.NoSync {
		add(2, func() *Step { return &Step{Op: "deaf"} })
	}
	if r.Deaf {
		var busy []string
		for _, k := range r.M.PodKeys() {
			if p := r.M.Pods[k]; p.State != StRemoved {
				for _, c := range r.M.PodCtrs(k) {
					if c.Live() {
						busy = append(busy, k)
						break
					}
				}
			}
		}
		if len(busy) > 0 {
			add(8, func() *Step { return &Step{Op: "killpod", Pod: sysgen.Pick(g.R, busy)} })
		}
	}
	total := 0
	for _, c := range cands {
		total += c.w
	}
	pick := func() *Step {
		x := g.R.Intn(total)
		for _, c := range cands {
			if x < c.w {
				return c.f()
			}
			x -= c.w
		}
		return cands[0].f()
	}
	s := pick()
	if r.Deaf {
		// a short period; what needs the plugin (updates, reconfiguration, timers) ends it
		if g.R.Chance(1, 4) || s.Op == "reconf" || s.Op == "update" || s.Op == "coldstart-done" || s.Op == "sync" {
			return &Step{Op: "sync"}
		}
		if s.Op == "create" {
			if p := r.M.Pods[s.Pod]; p != nil && p.QoS != "BestEffort" {
				s.Req, s.Lim, s.MemLim, s.MemReq = 100, 100, 64<<20, 64<<20
			}
		}
	}
	return s
}

// ReconfStep: identical configuration, a valid change, or an invalid one.
func (g *Gen) ReconfStep(r *Runner) *Step {
	cur := r.Inst.Cfg
	switch g.R.Intn(6) {
	case 0, 1:
		c := cur.Clone()
		g.gen++
		c.Gen = g.gen
		c.Note = "same"
		return &Step{Op: "reconf", Cfg: c, Expect: "accept"}
	case 2:
		c := g.InvalidConfig(cur)
		return &Step{Op: "reconf", Cfg: c, Expect: "reject"}
	}
	c := g.Config()
	c.Note = "change"
	return &Step{Op: "reconf", Cfg: c}
}

// InvalidConfig derives a configuration that must be rejected, of a PRNG-chosen kind.
func (g *Gen) InvalidConfig(cur *Config) *Config {
	c := cur.Clone()
	if g.R.Chance(1, 2) {
		// a rejected update usually differs from the configuration in force in more than its defect: start
		// from a fresh random configuration so that anything applied before the rejection becomes visible
		c = g.Config()
	}
	g.gen++
	c.Gen = g.gen
	online := g.M.OnlineCPUs()
	if c.Policy == PolTA {
		kinds := []string{"unparsable-available", "unparsable-reserved", "reserved-outside-available", "available-quantity", "missing-reserved", "reserved-quantity-garbage"}
		k := sysgen.Pick(g.R, kinds)
		c.Note = "invalid:" + k
		switch k {
		case "unparsable-available":
			c.TA.AvailableResources = cfgpolicy.Constraints{"cpu": "cpuset:0-x"}
		case "unparsable-reserved":
			c.TA.ReservedResources = cfgpolicy.Constraints{"cpu": "cpuset:1,,a"}
		case "reserved-outside-available":
			if len(online) < 2 {
				c.TA.AvailableResources = cfgpolicy.Constraints{"cpu": "cpuset:0-x"}
				break
			}
			c.TA.AvailableResources = cfgpolicy.Constraints{"cpu": cfgpolicy.Amount("cpuset:" + sysgen.CPUList(online[:len(online)-1]))}
			c.TA.ReservedResources = cfgpolicy.Constraints{"cpu": cfgpolicy.Amount(fmt.Sprintf("cpuset:%d", online[len(online)-1]))}
		case "available-quantity":
			c.TA.AvailableResources = cfgpolicy.Constraints{"cpu": "4"}
		case "missing-reserved":
			c.TA.ReservedResources = nil
		case "reserved-quantity-garbage":
			c.TA.ReservedResources = cfgpolicy.Constraints{"cpu": "lots"}
		}
		return c
	}
	kinds := []string{"unparsable-available", "reserved-outside-available", "available-quantity", "duplicate-type", "min-gt-max-cpus", "min-gt-max-balloons", "undefined-load", "bad-memory-type", "unsatisfiable", "empty-name", "unparsable-reserved"}
	k := sysgen.Pick(g.R, kinds)
	c.Note = "invalid:" + k
	b := c.Bln
	switch k {
	case "unparsable-available":
		b.AvailableResources = cfgpolicy.Constraints{"cpu": "cpuset:0-x"}
	case "unparsable-reserved":
		b.ReservedResources = cfgpolicy.Constraints{"cpu": "cpuset:1,,a"}
	case "reserved-outside-available":
		if len(online) < 2 {
			b.AvailableResources = cfgpolicy.Constraints{"cpu": "cpuset:0-x"}
			break
		}
		b.AvailableResources = cfgpolicy.Constraints{"cpu": cfgpolicy.Amount("cpuset:" + sysgen.CPUList(online[:len(online)-1]))}
		b.ReservedResources = cfgpolicy.Constraints{"cpu": cfgpolicy.Amount(fmt.Sprintf("cpuset:%d", online[len(online)-1]))}
	case "available-quantity":
		b.AvailableResources = cfgpolicy.Constraints{"cpu": "4"}
	case "duplicate-type":
		b.BalloonDefs = append(b.BalloonDefs, &blncfg.BalloonDef{Name: "dup"}, &blncfg.BalloonDef{Name: "dup"})
	case "min-gt-max-cpus":
		b.BalloonDefs = append(b.BalloonDefs, &blncfg.BalloonDef{Name: "bad", MinCpus: 3, MaxCpus: 2})
	case "min-gt-max-balloons":
		b.BalloonDefs = append(b.BalloonDefs, &blncfg.BalloonDef{Name: "bad", MinBalloons: 3, MaxBalloons: 2})
	case "undefined-load":
		b.BalloonDefs = append(b.BalloonDefs, &blncfg.BalloonDef{Name: "bad", Loads: []string{"nosuchload"}})
	case "bad-memory-type":
		b.BalloonDefs = append(b.BalloonDefs, &blncfg.BalloonDef{Name: "bad", MemoryTypes: []string{"SRAM"}})
	case "unsatisfiable":
		b.BalloonDefs = append(b.BalloonDefs, &blncfg.BalloonDef{Name: "bad", MinCpus: len(online), MinBalloons: 2})
	case "empty-name":
		b.BalloonDefs = append(b.BalloonDefs, &blncfg.BalloonDef{Name: ""})
	}
	return c
}

// InvalidKind extracts the rejection kind from a config note.
func InvalidKind(c *Config) string { return strings.TrimPrefix(c.Note, "invalid:") }

func min(a, b int) int {
	if a < b {
		return a
	}
	return b
}
func max(a, b int) int {
	if a > b {
		return a
	}
	return b
}
