package rmdrv

import (
	"fmt"
	"path/filepath"
	"sort"
	"strings"

	"github.com/containerd/nri/pkg/api"
	cpuctl "github.com/containers/nri-plugins/pkg/resmgr/control/cpu"
	libmem "github.com/containers/nri-plugins/pkg/resmgr/lib/memory"
)

const nsKey = "resource-policy.nri.io"

// EffAnn is the monitor's own resolver of effective annotations (container > pod > bare).
func EffAnn(p *MPod, ctrName, key string) (string, bool) {
	if p == nil {
		return "", false
	}
	if v, ok := p.Ann[key+"/container."+ctrName]; ok {
		return v, true
	}
	if v, ok := p.Ann[key+"/pod"]; ok {
		return v, true
	}
	v, ok := p.Ann[key]
	return v, ok
}

func (r *Runner) eff(c *MCtr, shortKey string) (string, bool) {
	return EffAnn(r.M.Pods[c.Pod], c.Name, shortKey+"."+nsKey)
}

func (r *Runner) cpuPreserveAnn(c *MCtr) bool {
	v, ok := r.eff(c, "cpu.preserve")
	return ok && v == "true"
}

func (r *Runner) memPreserveAnn(c *MCtr) bool {
	v, ok := r.eff(c, "memory.preserve")
	return ok && v == "true"
}

// cpuOptOut tells whether the container is opted out of CPU pinning under the current configuration.
func (r *Runner) cpuOptOut(c *MCtr) bool {
	if r.cpuPreserveAnn(c) {
		return true
	}
	cfg := r.Inst.Cfg
	switch cfg.Policy {
	case PolTA:
		return !cfg.TA.PinCPU
	case PolBalloons:
		if cfg.Bln.PinCPU != nil && !*cfg.Bln.PinCPU {
			return true
		}
		return r.blnPreserveRule(c)
	}
	return false
}

// blnPreserveRule evaluates the (restricted) preserve rules the generator emits:
// {key: name, op: Equals|In, values}, {key: pod/name, op: Equals}, {key: labels/<k>|pod/labels/<k>, op: Exists|Equals}.
func (r *Runner) blnPreserveRule(c *MCtr) bool {
	cfg := r.Inst.Cfg
	if cfg.Bln == nil || cfg.Bln.Preserve == nil {
		return false
	}
	p := r.M.Pods[c.Pod]
	for _, e := range cfg.Bln.Preserve.MatchExpressions {
		val, ok := r.simpleKey(c, p, e.Key)
		switch string(e.Op) {
		case "Equals":
			if ok && len(e.Values) == 1 && val == e.Values[0] {
				return true
			}
		case "In":
			if ok {
				for _, v := range e.Values {
					if v == val {
						return true
					}
				}
			}
		case "Exists":
			if ok {
				return true
			}
		case "Matches":
			if ok && len(e.Values) == 1 {
				if m, _ := filepath.Match(e.Values[0], val); m {
					return true
				}
			}
		}
	}
	return false
}

func (r *Runner) simpleKey(c *MCtr, p *MPod, key string) (string, bool) {
	switch {
	case key == "name":
		return c.Name, true
	case key == "namespace":
		if p == nil {
			return "", true
		}
		return p.NS, true
	case key == "pod/name":
		if p == nil {
			return "", false
		}
		return p.Name, true
	case key == "pod/namespace":
		if p == nil {
			return "", false
		}
		return p.NS, true
	case strings.HasPrefix(key, "pod/labels/"):
		if p == nil {
			return "", false
		}
		v, ok := p.Labels[strings.TrimPrefix(key, "pod/labels/")]
		return v, ok
	case strings.HasPrefix(key, "labels/"):
		if strings.TrimPrefix(key, "labels/") == "io.kubernetes.container.name" {
			return c.Name, true
		}
		return "", false
	}
	return "", false
}

// memOptOut tells whether the container is opted out of memory pinning.
func (r *Runner) memOptOut(c *MCtr) bool {
	if r.memPreserveAnn(c) {
		return true
	}
	cfg := r.Inst.Cfg
	switch cfg.Policy {
	case PolTA:
		return !cfg.TA.PinMemory
	case PolBalloons:
		pin := cfg.Bln.PinMemory == nil || *cfg.Bln.PinMemory
		if t := r.blnTypeOf(c); t != nil && t.PinMemory != nil {
			pin = *t.PinMemory
		}
		return !pin
	}
	return false
}

// checkOptOutMsg is the C12 oracle, evaluated on every message addressed to a container.
func (r *Runner) checkOptOutMsg(c *MCtr, res *api.LinuxResources, how string) {
	if res == nil || r.Hostile {
		return
	}
	cpu := res.GetCpu()
	if cpu == nil {
		return
	}
	if r.cpuOptOut(c) {
		r.Count("c12_msgs_to_cpu_optout")
		// Re-telling exactly the cpuset the runtime already has (the identical-update
		// short-circuit echoes the cached value) changes nothing observable.
		if cpu.Cpus != "" && sameSetStr(cpu.Cpus, c.Shadow.Cpus) {
			r.Count("c12_cpus_echoed_unchanged")
		} else if cpu.Cpus != "" {
			sg := how + ":" + r.optOutKind(c, true)
			if r.Stats["create_failed"]+r.Stats["update_failed"] > 0 && (how == "update-reply" || how == "reconf-push") {
				// the echo/flush of a cached value that a failed request never delivered (KF1)
				sg += ":after-failed-request"
			}
			r.Violate("C12", "cpus-told", sg, "%s: CPU-opted-out container %s was told cpuset %q (had %q)", how, c.Key, cpu.Cpus, c.Shadow.Cpus)
		}
	}
	if r.memOptOut(c) {
		r.Count("c12_msgs_to_mem_optout")
		if cpu.Mems != "" && !sameSetStr(cpu.Mems, c.Shadow.Mems) {
			r.Violate("C12", "mems-told", how+":"+r.optOutKind(c, false), "%s: memory-opted-out container %s was told mems %q (had %q)", how, c.Key, cpu.Mems, c.Shadow.Mems)
		}
	}
}

func (r *Runner) optOutKind(c *MCtr, cpu bool) string {
	if cpu {
		switch {
		case r.cpuPreserveAnn(c):
			return "cpu.preserve"
		case r.Inst.Cfg.Policy == PolBalloons && r.blnPreserveRule(c):
			return "preserve-rule"
		}
		return "pinCPU=false"
	}
	if r.memPreserveAnn(c) {
		return "memory.preserve"
	}
	return "pinMemory=false"
}

// runMonitors evaluates all enabled oracles after a request returned.
func (r *Runner) runMonitors(s *Step, rep *Reply) {
	if r.Hostile {
		return
	}
	if r.BrokenStateSuffix() == "" {
		r.Count("requests_monitored_in_clean_state")
	} else {
		r.Count("requests_monitored_after_known_defect")
	}
	if n := r.Inst.PushesOutsideLock.Load(); n > 0 {
		r.Violate("C15", "push-outside-lock", r.Inst.Policy, "%d of %d unsolicited UpdateContainers calls were made while the pipeline lock was free: another request can be processed between deciding the changes and telling the runtime", n, r.Inst.Pushes.Load())
	}
	r.Stats["pushes_checked_for_lock"] = int(r.Inst.Pushes.Load())
	r.monC05(s, rep)
	r.monC04(s, rep)
	r.monC09step(s, rep)
	switch r.Inst.Policy {
	case PolTA:
		r.monTA(s, rep)
	case PolBalloons:
		r.monBln(s, rep)
	}
}

// ---- C05: runtime view equals cache view ----

func (r *Runner) cacheRes(id string) (Res, bool) {
	c, ok := r.Inst.RM.Cache().LookupContainer(id)
	if !ok {
		return Res{}, false
	}
	return Res{
		Cpus:   c.GetCpusetCpus(),
		Mems:   c.GetCpusetMems(),
		Shares: uint64(c.GetCPUShares()),
		Quota:  c.GetCPUQuota(),
		Period: uint64(c.GetCPUPeriod()),
		MemLim: c.GetMemoryLimit(),
		Swap:   c.GetMemorySwap(),
	}, true
}

func sameSetStr(a, b string) bool {
	if a == b {
		return true
	}
	la, ea := ParseList(a)
	lb, eb := ParseList(b)
	if ea != nil || eb != nil {
		return false
	}
	return SetOf(la).Equal(SetOf(lb))
}

func (r *Runner) monC05(s *Step, rep *Reply) {
	how := r.opSig(s)
	if rep.Err != "" {
		how += "-failed"
		if s.Op == "reconf" && s.Cfg != nil {
			// which policy rejected what kind of configuration: known finding KF3 is about specific ones
			how += ":" + r.Inst.Policy + ":" + s.Cfg.Note
		}
	}
	if p := r.Inst.RM.PendingIDs(); len(p) > 0 {
		if how == "remove-live" {
			r.RemoveLiveLeftPending = true
		}
		sort.Strings(p)
		var keys []string
		for _, id := range p {
			if c := r.M.CtrByID(id); c != nil {
				keys = append(keys, c.Key+"("+c.State+")")
			} else {
				keys = append(keys, id)
			}
		}
		r.Violate("C05", "pending", how, "after %s: %d container(s) still have undelivered changes: %v", how, len(p), keys)
	}
	nontriv := false
	var hold map[string]string
	for _, c := range r.LiveCtrs() {
		if r.NoShadow {
			break
		}
		cr, ok := r.cacheRes(c.ID)
		if !ok {
			continue // membership is C11's/C15's business
		}
		sh := c.Shadow
		var diffs []string
		// An empty cpuset string in the cache means "not pinned": NRI cannot transmit it
		// ("" = no change), so it is not comparable with the runtime's value.
		unmanaged := 0
		if cr.Cpus != "" && !sameSetStr(cr.Cpus, sh.Cpus) {
			diffs = append(diffs, fmt.Sprintf("cpus cache=%q runtime=%q", cr.Cpus, sh.Cpus))
			if r.Restarts > 0 && r.cpuOptOut(c) {
				unmanaged++
			}
		}
		if cr.Mems != "" && !sameSetStr(cr.Mems, sh.Mems) {
			diffs = append(diffs, fmt.Sprintf("mems cache=%q runtime=%q", cr.Mems, sh.Mems))
			if r.Restarts > 0 && (r.memOptOut(c) || (r.Inst.Policy == PolBalloons && r.cpuOptOut(c))) {
				unmanaged++ // balloons does not manage preserved containers at all
			}
		}
		if cr.Cpus == "" && sh.Cpus != "" || cr.Mems == "" && sh.Mems != "" {
			r.Count("c05_cache_unpinned_runtime_pinned")
		}
		if cr.Shares != sh.Shares {
			if r.Restarts > 0 && r.cpuOptOut(c) {
				unmanaged++ // cpu.shares is set together with the cpuset, only for containers whose CPU pinning is managed
			}
			diffs = append(diffs, fmt.Sprintf("shares cache=%d runtime=%d", cr.Shares, sh.Shares))
		}
		if cr.Quota != sh.Quota {
			diffs = append(diffs, fmt.Sprintf("quota cache=%d runtime=%d", cr.Quota, sh.Quota))
		}
		if cr.Period != sh.Period {
			diffs = append(diffs, fmt.Sprintf("period cache=%d runtime=%d", cr.Period, sh.Period))
		}
		if cr.MemLim != sh.MemLim {
			diffs = append(diffs, fmt.Sprintf("memlimit cache=%d runtime=%d", cr.MemLim, sh.MemLim))
		}
		if cr.Swap != sh.Swap {
			diffs = append(diffs, fmt.Sprintf("swap cache=%d runtime=%d", cr.Swap, sh.Swap))
		}
		if len(diffs) > 0 {
			sg := how
			if hold == nil {
				hold = r.holders()
			}
			if _, held := hold[c.ID]; !held && !(r.Inst.Policy == PolBalloons && (r.cpuPreserveAnn(c) || r.blnPreserveRule(c))) {
				// KF11: what the cache records for a container the policy could not allocate is not a decision; it can
				// be older than what the runtime has (e.g. the values saved before the CreateContainer reply)
				sg += ":unallocated-container"
			} else if unmanaged == len(diffs) {
				// KF7 again: the cache file is written only when pods/containers are inserted or deleted, so even the
				// newest file can be older than what the runtime was last told; for a field the plugin does not manage for
				// this container (opted out, pinning disabled by the configuration) nothing re-decides it after a restart
				sg += ":unmanaged-field-after-restart"
				r.LaggingCache = true
			}
			r.Violate("C05", "view-mismatch", sg, "after %s: container %s (%s): %s", how, c.Key, c.State, strings.Join(diffs, "; "))
		}
	}
	others := 0
	for _, u := range rep.Updates {
		if c := r.M.CtrByID(u.GetContainerId()); c != nil && c.Key != s.Ctr {
			others++
		}
	}
	for _, p := range rep.Pushed {
		others += len(p)
	}
	if others > 0 {
		nontriv = true
		r.Count("c05_replies_changing_others")
	}
	if nontriv {
		r.See("C05", fmt.Sprintf("%s|%s|%d|%s", Machine().Name, s.Op, others, r.stateShape()))
	}
}

// stateShape is a cheap fingerprint of the model state used for distinct-state counting.
func (r *Runner) stateShape() string {
	var parts []string
	for _, c := range r.LiveCtrs() {
		p := r.M.Pods[c.Pod]
		q := ""
		if p != nil {
			q = p.QoS[:2] + p.NS
		}
		parts = append(parts, fmt.Sprintf("%s%d/%d@%s", q, c.ReqMilli, c.MemLim>>20, c.Shadow.Cpus))
	}
	sort.Strings(parts)
	return r.Inst.Cfg.Policy + fmt.Sprint(r.Inst.Cfg.Gen) + strings.Join(parts, ",")
}

// ---- C04: memory pinning follows the allocator; fit ----

func maskOf(ids []int) libmem.NodeMask {
	var m libmem.NodeMask
	for _, id := range ids {
		m |= libmem.NewNodeMask(libmem.ID(id))
	}
	return m
}

func maskList(m libmem.NodeMask) []int {
	var r []int
	for _, id := range m.Slice() {
		r = append(r, int(id))
	}
	return r
}

type memReq struct {
	ID   string
	Zone libmem.NodeMask
	Size int64
}

func (r *Runner) memRequests() []memReq {
	a := r.Inst.Allocator()
	var out []memReq
	if a == nil {
		return out
	}
	a.ForeachRequest(nil, func(q *libmem.Request) bool {
		out = append(out, memReq{ID: q.ID(), Zone: q.Zone(), Size: q.Size()})
		return true
	})
	return out
}

func (r *Runner) monC04(s *Step, rep *Reply) {
	a := r.Inst.Allocator()
	if a == nil {
		return
	}
	mach := Machine()
	withMem := IntSet{}
	for _, n := range mach.Nodes {
		if n.MemKB > 0 {
			withMem[n.ID] = struct{}{}
		}
	}
	for _, c := range r.LiveCtrs() {
		if r.memOptOut(c) {
			continue
		}
		if r.Inst.Policy == PolBalloons && r.cpuOptOut(c) {
			continue // balloons does not manage preserved containers at all
		}
		zone, ok := a.AssignedZone(c.ID)
		if !ok {
			continue
		}
		r.Count("c04_pinned_checked")
		zl := SetOf(maskList(zone))
		if r.NoShadow {
			continue
		}
		ml := SetOf(MustList(c.Shadow.Mems))
		if len(zl) == 0 {
			r.Violate("C04", "empty-zone", s.Op, "container %s has an empty assigned zone", c.Key)
		}
		if !zl.Equal(ml) {
			kind := "stale"
			if !c.MemsTold {
				kind = "never-told"
			}
			r.Violate("C04", "mems-vs-zone", s.Op+":"+kind, "after %s: container %s is told mems %q but the allocator assigns zone %q", s.Op, c.Key, c.Shadow.Mems, zl.String())
		}
		if !ml.SubsetOf(withMem) {
			r.Violate("C04", "mems-no-memory", s.Op, "container %s told mems %q which include a node without memory (nodes with memory: %s)", c.Key, c.Shadow.Mems, withMem.String())
		}
	}
	if rep.Err != "" || rep.Panic != "" {
		return
	}
	// fit: for every node subset S, allocations confined to S do not exceed capacity(S)
	reqs := r.memRequests()
	if len(reqs) == 0 {
		return
	}
	nodes := withMem.List()
	if len(nodes) > 12 {
		return
	}
	capOf := map[int]int64{}
	for _, n := range mach.Nodes {
		capOf[n.ID] = int64(n.MemKB) * 1024
	}
	assigned := map[libmem.NodeMask]bool{}
	for _, q := range reqs {
		assigned[q.Zone] = true
	}
	var worst libmem.NodeMask
	var worstOver int64
	overAssigned := false
	for bits := 1; bits < 1<<len(nodes); bits++ {
		var mask libmem.NodeMask
		var capacity int64
		for i, id := range nodes {
			if bits&(1<<i) != 0 {
				mask |= libmem.NewNodeMask(libmem.ID(id))
				capacity += capOf[id]
			}
		}
		var used int64
		for _, q := range reqs {
			if q.Zone != 0 && q.Zone&mask == q.Zone {
				used += q.Size
			}
		}
		if used > capacity {
			if assigned[mask] {
				overAssigned = true
			}
			if used-capacity > worstOver {
				worstOver, worst = used-capacity, mask
			}
		}
	}
	if worstOver > 0 {
		sig := "fit:union-of-zones"
		if overAssigned {
			sig = "fit:assigned-zone"
		}
		r.Violate("C04", "fit", sig, "after successful %s: allocations confined to nodes {%s} exceed their capacity by %d bytes", s.Op, SetOf(maskList(worst)).String(), worstOver)
	}
	if worstOver == 0 {
		// The same condition with amounts taken from the runtime model instead of the allocator's own records
		// (a lower bound: the policies account a Burstable container's request as estimated from its OOM score
		// adjustment, which is exact to about capacity/1000): an allocator that has lost the size of an
		// allocation fits everything by its own arithmetic.
		total := mach.TotalMemBytes()
		tol := total/500 + (2 << 20)
		type mq struct {
			zone libmem.NodeMask
			amt  int64
		}
		var mqs []mq
		for _, c := range r.LiveCtrs() {
			if r.memOptOut(c) || (r.Inst.Policy == PolBalloons && r.cpuOptOut(c)) {
				continue
			}
			zone, ok := a.AssignedZone(c.ID)
			if !ok || zone == 0 {
				continue
			}
			amt := c.MemLim
			if r.Inst.Policy == PolTA && c.MemReq > 0 {
				amt = c.MemReq
			}
			if c.MemLim > 0 && amt > c.MemLim {
				amt = c.MemLim // after an update that lowers the limit below the original request
			}
			if lim := total - total/100; amt > lim {
				amt = lim // a request of (nearly) the whole machine or more cannot be told apart from its OOM score adjustment
			}
			if amt -= tol; amt > 0 {
				mqs = append(mqs, mq{zone, amt})
			}
		}
		for bits := 1; bits < 1<<len(nodes) && len(mqs) > 0; bits++ {
			var mask libmem.NodeMask
			var capacity, used int64
			for i, id := range nodes {
				if bits&(1<<i) != 0 {
					mask |= libmem.NewNodeMask(libmem.ID(id))
					capacity += capOf[id]
				}
			}
			for _, q := range mqs {
				if q.zone&mask == q.zone {
					used += q.amt
				}
			}
			if used > capacity {
				r.Violate("C04", "fit-model", "fit-by-container-requests", "after successful %s: the memory requests of the containers confined to nodes {%s} exceed their capacity by at least %d bytes although the allocator's own records fit", s.Op, SetOf(maskList(mask)).String(), used-capacity)
				break
			}
		}
		r.Count("c04_fit_model_checked")
	}
	multi := 0
	for _, q := range reqs {
		if q.Zone.Size() > 1 {
			multi++
		}
	}
	if multi > 0 {
		r.Count("c04_states_with_widened_zones")
		r.See("C04", fmt.Sprintf("%s|%d|%v", mach.Name, len(reqs), zonesShape(reqs)))
	}
}

func zonesShape(reqs []memReq) string {
	var p []string
	for _, q := range reqs {
		p = append(p, fmt.Sprintf("%x:%d", uint64(q.Zone), q.Size>>20))
	}
	sort.Strings(p)
	return strings.Join(p, ",")
}

// ---- C09 (per step): stopped/removed containers hold nothing ----

func (r *Runner) holders() map[string]string {
	h := map[string]string{}
	switch r.Inst.Policy {
	case PolTA:
		if s := r.Inst.TASnap(); s != nil {
			for _, g := range s.Grants {
				h[g.Container] = "grant@" + g.Pool
			}
		}
	case PolBalloons:
		if s := r.Inst.BlnSnap(); s != nil {
			for _, b := range s.Balloons {
				for _, ids := range b.Pods {
					for _, id := range ids {
						h[id] = fmt.Sprintf("balloon %s[%d]", b.Def, b.Instance)
					}
				}
			}
		}
	}
	for _, q := range r.memRequests() {
		if _, ok := h[q.ID]; !ok {
			h[q.ID] = "memory"
		} else {
			h[q.ID] += "+memory"
		}
	}
	return h
}

func (r *Runner) monC09step(s *Step, rep *Reply) {
	h := r.holders()
	for id, what := range h {
		c := r.M.CtrByID(id)
		if c == nil {
			r.Violate("C09", "holder-unknown", s.Op, "after %s: %s held for container %s which the runtime never knew", s.Op, what, id)
			continue
		}
		if !c.Live() {
			r.Violate("C09", "dead-holds", s.Op+":"+c.State, "after %s: %s container %s still holds %s", s.Op, c.State, c.Key, what)
		}
		if _, ok := r.Inst.RM.Cache().LookupContainer(id); !ok {
			r.Violate("C09", "holder-uncached", s.Op, "after %s: %s held for container %s which is no longer cached", s.Op, what, c.Key)
		}
	}
}

// CPUClasses returns the cached cpu class assignments.
func (r *Runner) CPUClasses() map[string][]int { return cpuctl.VerifAssignments(r.Inst.RM.Cache()) }
