package rmdrv

import (
	"fmt"
	"os"
	"path/filepath"
	"reflect"
	"sort"
	"strings"

	"verif/harness/sysgen"
)

// HistOpts controls one history.
type HistOpts struct {
	Policy   string
	Steps    int
	Seed     uint64
	Hist     int
	WorkDir  string
	Props    map[string]bool
	Bias     string // "", "fill", "mem", "optout"
	LogF     *os.File
	Cfg      *Config // nil: generate
	NoReconf bool
	NoSync   bool
}

// HistResult is what a history produced.
type HistResult struct {
	Hist     int                 `json:"hist"`
	Seed     uint64              `json:"seed"`
	Machine  string              `json:"machine"`
	Policy   string              `json:"policy"`
	Cfg      *Config             `json:"cfg"`
	Steps    []*Step             `json:"steps"`
	Viol     []Violation         `json:"violations"`
	Stats    map[string]int      `json:"stats"`
	Seen     map[string][]string `json:"seen"`
	StartErr string              `json:"start_err,omitempty"`
}

func (g *Gen) applyBias(b string) {
	switch b {
	case "fill":
		g.FillBias = true
		g.MaxCtrs = 14
		g.MaxPods = 6
	case "mem":
		g.MemPressure = true
		g.MaxCtrs = 10
	case "optout":
		g.OptOuts = true
	case "iso":
		g.IsoBias = true
	case "ooo":
		g.OutOfOrder = true
	case "optmem":
		// opted-out containers next to memory pressure: zone widening must leave them alone
		g.OptOuts = true
		g.MemPressure = true
		g.MaxCtrs = 10
	}
}

func collect(r *Runner, res *HistResult) {
	res.Steps = r.Steps
	res.Viol = append(res.Viol, r.Viol...)
	for k, v := range r.Stats {
		res.Stats[k] += v
	}
	for p, m := range r.Seen {
		for h := range m {
			res.Seen[p] = append(res.Seen[p], h)
		}
	}
}

// RunHistory runs one generated history with all sequential monitors, then tears everything
// down and compares the end state with a fresh twin (C09).
func RunHistory(o HistOpts) *HistResult {
	rng := sysgen.NewRNG(o.Seed)
	mach := Machine()
	g := NewGen(rng, mach, o.Policy)
	g.applyBias(o.Bias)
	g.NoReconf, g.NoSync = o.NoReconf, o.NoSync
	res := &HistResult{Hist: o.Hist, Seed: o.Seed, Machine: mach.Name, Policy: o.Policy, Stats: map[string]int{}, Seen: map[string][]string{}}
	cfg := o.Cfg
	var inst *Inst
	var err error
	stateDir := filepath.Join(o.WorkDir, fmt.Sprintf("state-%d", o.Hist))
	for try := 0; try < 8; try++ {
		if o.Cfg == nil {
			cfg = g.Config()
		}
		os.RemoveAll(stateDir)
		inst, err = NewInst(stateDir, cfg)
		if err == nil {
			break
		}
		res.Stats["start_rejected"]++
		if o.Cfg != nil {
			break
		}
	}
	if err != nil {
		res.StartErr = err.Error()
		return res
	}
	defer os.RemoveAll(stateDir)
	res.Cfg = cfg.Clone()
	model := NewModel(mach.TotalMemBytes())
	r := NewRunner(inst, model, o.Hist)
	r.Props = o.Props
	r.LogF = o.LogF
	defer func() { r.Inst.Close() }()
	for i := 0; i < o.Steps && !r.Broken; i++ {
		r.Do(g.NextStep(r))
	}
	if !r.Broken {
		Teardown(r)
		if !r.Broken {
			LeakCheck(r, filepath.Join(o.WorkDir, fmt.Sprintf("twin-%d", o.Hist)))
		}
	}
	collect(r, res)
	res.Stats["histories"]++
	return res
}

// Teardown stops and removes everything the runtime knows, in lifecycle order.
func Teardown(r *Runner) {
	if r.Deaf {
		r.Do(&Step{Op: "sync"})
		if r.Broken {
			return
		}
	}
	for _, k := range r.M.CtrKeys() {
		c := r.M.Ctrs[k]
		if c.Live() {
			r.Do(&Step{Op: "stop", Ctr: c.Key, Pod: c.Pod})
			if r.Broken {
				return
			}
		}
	}
	for _, k := range r.M.CtrKeys() {
		c := r.M.Ctrs[k]
		if c.State == StStopped || c.State == StFailed {
			r.Do(&Step{Op: "remove", Ctr: c.Key, Pod: c.Pod})
			if r.Broken {
				return
			}
		}
	}
	for _, k := range r.M.PodKeys() {
		p := r.M.Pods[k]
		if p.State == StRunning {
			r.Do(&Step{Op: "stoppod", Pod: k})
		}
		if r.Broken {
			return
		}
		if p.State != StRemoved {
			r.Do(&Step{Op: "removepod", Pod: k})
		}
		if r.Broken {
			return
		}
	}
}

type poolState struct {
	FreeIsolated, FreeReserved, FreeSharable string
	GrantedShared, GrantedReserved           int
}

// LeakCheck compares the quiescent end state with a fresh instance configured with the
// last accepted configuration (C09).
func LeakCheck(r *Runner, twinDir string) {
	if !r.Enabled("C09") {
		return
	}
	os.RemoveAll(twinDir)
	defer os.RemoveAll(twinDir)
	nontriv := r.Stats["create_failed"]+r.Stats["update_failed"]+r.Stats["reconf_accepted"]+r.Stats["reconf_rejected"]+r.Stats["req_sync"] > 0
	if nontriv {
		r.Count("c09_nontrivial_histories")
		r.See("C09", fmt.Sprintf("%s|%d|%d|%d|%d|%d|%d", Machine().Name, r.Hist, r.Stats["create_failed"], r.Stats["update_failed"], r.Stats["reconf_accepted"], r.Stats["reconf_rejected"], r.Stats["req_sync"]))
	}
	sig := "clean"
	switch {
	case r.Stats["reconf_accepted"] > 0:
		sig = "after-reconf"
	case r.Stats["create_failed"] > 0:
		sig = "after-failed-create"
	case r.Stats["update_failed"] > 0:
		sig = "after-failed-update"
	case r.Stats["req_sync"] > 0:
		sig = "after-sync"
	}
	if reqs := r.memRequests(); len(reqs) > 0 {
		var ids []string
		for _, q := range reqs {
			ids = append(ids, q.ID)
		}
		r.Violate("C09", "leak-memory", sig, "after removing everything %d memory allocations remain: %v", len(reqs), ids)
	}
	// the end state has to be taken before the twin is created: the policies share package globals
	var endTA map[string]poolState
	var endBln []string
	var endFree int
	switch r.Inst.Policy {
	case PolTA:
		s := r.Inst.TASnap()
		if len(s.Grants) > 0 {
			r.Violate("C09", "leak-grant", sig, "after removing everything %d grants remain", len(s.Grants))
		}
		endTA = map[string]poolState{}
		for _, p := range s.Pools {
			endTA[p.Name] = poolState{SetOf(p.FreeIsolated).String(), SetOf(p.FreeReserved).String(), SetOf(p.FreeSharable).String(), p.GrantedShared, p.GrantedReserved}
		}
	case PolBalloons:
		s := r.Inst.BlnSnap()
		for _, b := range s.Balloons {
			n := 0
			for _, ids := range b.Pods {
				n += len(ids)
			}
			if n > 0 {
				r.Violate("C09", "leak-member", sig, "after removing everything balloon %s[%d] still has %d members", b.Def, b.Instance, n)
			}
			endBln = append(endBln, fmt.Sprintf("%s:%d", b.Def, len(b.Cpus)))
		}
		sort.Strings(endBln)
		endFree = len(s.FreeCpus)
	}
	twin, err := NewInst(twinDir, r.Inst.Cfg)
	if err != nil {
		r.Count("c09_twin_failed")
		return
	}
	defer twin.Close()
	switch r.Inst.Policy {
	case PolTA:
		ts := twin.TASnap()
		for _, p := range ts.Pools {
			want := poolState{SetOf(p.FreeIsolated).String(), SetOf(p.FreeReserved).String(), SetOf(p.FreeSharable).String(), p.GrantedShared, p.GrantedReserved}
			got, ok := endTA[p.Name]
			if !ok {
				r.Violate("C09", "pool-missing", sig, "pool %s exists on a fresh instance but not at the end of the history", p.Name)
				continue
			}
			if !reflect.DeepEqual(want, got) {
				r.Violate("C09", "pool-state", sig, "pool %s after removing everything: %+v, fresh instance: %+v", p.Name, got, want)
			}
		}
	case PolBalloons:
		ts := twin.BlnSnap()
		var want []string
		for _, b := range ts.Balloons {
			want = append(want, fmt.Sprintf("%s:%d", b.Def, len(b.Cpus)))
		}
		sort.Strings(want)
		if strings.Join(want, ",") != strings.Join(endBln, ",") {
			r.Violate("C09", "balloons-state", sig, "balloons (type:cpus) after removing everything: %v, fresh instance: %v", endBln, want)
		}
		if endFree != len(ts.FreeCpus) {
			r.Violate("C09", "free-cpus", sig, "%d free CPUs after removing everything, %d on a fresh instance", endFree, len(ts.FreeCpus))
		}
	}
}
