package rmdrv

import (
	"fmt"
	"path/filepath"
	"sort"
	"strings"

	tacfg "github.com/containers/nri-plugins/pkg/apis/config/v1alpha1/resmgr/policy/topologyaware"

	topologyaware "github.com/containers/nri-plugins/cmd/plugins/topology-aware/policy"
)

type TAMon struct{}

// taParams are the monitor's own reading of the configuration + machine model.
type taParams struct {
	Avail            IntSet
	Isolated         IntSet // kernel isolated ∩ available
	Reserved         IntSet // only known when given as a cpuset; for quantities taken from the snapshot (unspecified pick)
	ReservedIsCPUSet bool
}

func (r *Runner) taParams(snap *topologyaware.VerifSnap) taParams {
	cfg := r.Inst.Cfg.TA
	m := Machine()
	p := taParams{}
	if a, ok := cfg.AvailableResources["cpu"]; ok && strings.HasPrefix(string(a), "cpuset:") {
		p.Avail = SetOf(MustList(strings.TrimPrefix(string(a), "cpuset:")))
	} else {
		p.Avail = SetOf(m.OnlineCPUs())
	}
	p.Isolated = SetOf(m.Isolated).Inter(p.Avail)
	if rv, ok := cfg.ReservedResources["cpu"]; ok && strings.HasPrefix(string(rv), "cpuset:") {
		p.Reserved = SetOf(MustList(strings.TrimPrefix(string(rv), "cpuset:")))
		p.ReservedIsCPUSet = true
	} else {
		// a quantity: which CPUs are picked is unspecified; the count and placement rules are checked instead
		p.Reserved = SetOf(snap.Reserved)
	}
	return p
}

// reservedClass tells whether the container is reserved-class by the documented rules.
func (r *Runner) reservedClass(c *MCtr) bool {
	for _, cfg := range r.admissible(c) {
		if r.reservedClassUnder(c, cfg.TA) {
			return true
		}
	}
	return false
}

// admissible lists the configurations under which the container's current allocation may
// legitimately have been decided: the one in force when it was last (re)allocated and every
// configuration accepted since (a reconfiguration may reinstate grants verbatim or re-allocate).
func (r *Runner) admissible(c *MCtr) []*Config {
	if l := r.AllocCfg[c.Key]; len(l) > 0 {
		return l
	}
	return []*Config{r.Inst.Cfg}
}

func (r *Runner) reservedClassUnder(c *MCtr, ta *tacfg.Config) bool {
	p := r.M.Pods[c.Pod]
	if p == nil {
		return false
	}
	if v, ok := r.eff(c, "prefer-reserved-cpus"); ok {
		if v == "true" {
			return true
		}
		if v == "false" {
			return false
		}
	}
	if p.NS == "kube-system" {
		return true
	}
	for _, g := range ta.ReservedPoolNamespaces {
		if ok, _ := filepath.Match(g, p.NS); ok {
			return true
		}
	}
	return false
}

func boolAnn(v string, ok bool) (val, valid bool) {
	if !ok {
		return false, false
	}
	switch v {
	case "true", "1", "t", "T", "TRUE", "True":
		return true, true
	case "false", "0", "f", "F", "FALSE", "False":
		return false, true
	}
	return false, false
}

// expectedExclusive is the eligibility table transcribed from docs/.../topology-aware.md
// ("Policy CPU Allocation Preferences"). It returns the number of exclusive CPUs a successful
// allocation must carry, and whether isolated CPUs are permissible for it.
func (r *Runner) expectedExclusive(c *MCtr, reqMilli int, cfg *tacfg.Config) (excl int, isolatedOK bool, group string) {
	p := r.M.Pods[c.Pod]
	if r.cpuPreserveAnn(c) {
		return 0, false, "preserve"
	}
	if r.reservedClassUnder(c, cfg) {
		return 0, false, "reserved"
	}
	if p.QoS != "Guaranteed" {
		return 0, false, "low-priority"
	}
	if reqMilli < 1000 {
		return 0, false, "sub-core"
	}
	sharedAnn, sharedAnnValid := boolAnn(r.eff(c, "prefer-shared-cpus"))
	isoAnn, isoAnnValid := boolAnn(r.eff(c, "prefer-isolated-cpus"))
	preferShared := cfg.PreferShared != nil && *cfg.PreferShared
	if sharedAnnValid {
		preferShared = sharedAnn
	}
	preferIso := cfg.PreferIsolated != nil && *cfg.PreferIsolated
	if isoAnnValid {
		preferIso = isoAnn
	}
	cores := reqMilli / 1000
	frac := reqMilli % 1000
	if cores < 2 {
		if preferShared {
			return 0, false, "mixed-shared"
		}
		return 1, preferIso, "mixed"
	}
	if frac != 0 {
		if sharedAnnValid && !sharedAnn {
			return cores, preferIso, "multi-frac-optin"
		}
		return 0, false, "multi-frac"
	}
	if preferShared {
		return 0, false, "multi-shared"
	}
	return cores, isoAnnValid && isoAnn, "multi"
}

func sharesToMilli(shares uint64) int {
	if shares == 2 {
		return 0
	}
	return int(float64(shares*1000)/1024.0 + 0.5)
}

func (r *Runner) monTA(s *Step, rep *Reply) {
	snap := r.Inst.TASnap()
	if snap == nil {
		return
	}
	p := r.taParams(snap)
	cfg := r.Inst.Cfg.TA
	grants := map[string]topologyaware.VerifGrant{}
	for _, g := range snap.Grants {
		grants[g.Container] = g
	}
	pools := map[string]topologyaware.VerifPool{}
	for _, pl := range snap.Pools {
		pools[pl.Name] = pl
	}

	// ---------- C01 ----------
	excl := map[string]IntSet{}
	var ids []string
	for id, g := range grants {
		if len(g.Exclusive) > 0 {
			excl[id] = SetOf(g.Exclusive)
			ids = append(ids, id)
		}
	}
	sort.Strings(ids)
	key := func(id string) string {
		if c := r.M.CtrByID(id); c != nil {
			return c.Key
		}
		return id
	}
	for i := 0; i < len(ids); i++ {
		for j := i + 1; j < len(ids); j++ {
			if x := excl[ids[i]].Inter(excl[ids[j]]); len(x) > 0 {
				r.Violate("C01", "excl-overlap", s.Op, "after %s: exclusive CPUs %s granted to both %s and %s", s.Op, x, key(ids[i]), key(ids[j]))
			}
		}
	}
	live := r.LiveCtrs()
	for _, id := range ids {
		owner := r.M.CtrByID(id)
		for _, c := range live {
			if c.ID == id || !c.CpusTold || r.cpuOptOut(c) || r.NoShadow {
				continue
			}
			if x := excl[id].Inter(SetOf(MustList(c.Shadow.Cpus))); len(x) > 0 {
				sig := s.Op
				cr, _ := r.cacheRes(c.ID)
				if _, has := grants[c.ID]; !has {
					sig = "stale-pinning:container-lost-its-grant"
				} else if cr.Cpus == "" {
					sig = "stale-pinning:pool-has-no-sharable-cpu"
				} else if r.LastFailed {
					sig = s.Op + "-failed"
				}
				ok := "?"
				if owner != nil {
					ok = owner.Key
				}
				r.Violate("C01", "excl-in-other", sig, "after %s: CPUs %s exclusive to %s are in the allowed set %q told for %s", s.Op, x, ok, c.Shadow.Cpus, c.Key)
			}
		}
		for _, pl := range snap.Pools {
			if x := excl[id].Inter(SetOf(pl.FreeSharable)); len(x) > 0 {
				r.Violate("C01", "excl-in-shared", s.Op, "after %s: CPUs %s exclusive to %s are in the shared set of pool %s", s.Op, x, key(id), pl.Name)
			}
		}
	}
	for _, c := range live {
		if !c.CpusTold || r.cpuOptOut(c) || r.NoShadow {
			continue
		}
		x := SetOf(MustList(c.Shadow.Cpus))
		stale := ""
		if _, has := grants[c.ID]; !has {
			stale = "stale-pinning:container-lost-its-grant:"
		} else if cr, _ := r.cacheRes(c.ID); cr.Cpus == "" {
			stale = "stale-pinning:pool-has-no-sharable-cpu:"
		}
		if !x.SubsetOf(p.Avail) {
			r.Violate("C01", "outside-available", stale+s.Op, "after %s: %s is pinned to %q, outside the available CPUs %s", s.Op, c.Key, c.Shadow.Cpus, p.Avail)
		}
		if rx := x.Inter(p.Reserved); len(rx) > 0 && !c.UpdFailed {
			if !r.reservedClass(c) {
				r.Violate("C01", "reserved-to-nonreserved", stale+s.Op, "after %s: non-reserved-class container %s is pinned to reserved CPUs %s (cpuset %q)", s.Op, c.Key, rx, c.Shadow.Cpus)
			} else if !x.SubsetOf(p.Reserved) {
				r.Violate("C01", "reserved-mixed", stale+s.Op, "after %s: %s mixes reserved CPUs %s with non-reserved ones (cpuset %q)", s.Op, c.Key, rx, c.Shadow.Cpus)
			}
		}
	}
	if len(live) >= 2 && len(ids) >= 1 {
		var sh []string
		for _, id := range ids {
			sh = append(sh, fmt.Sprintf("%s:%d", grants[id].Pool, len(grants[id].Exclusive)))
		}
		sort.Strings(sh)
		r.See("C01", fmt.Sprintf("%s|g%d|%s|%d", Machine().Name, r.Inst.Cfg.Gen, strings.Join(sh, ","), len(live)))
		r.Count("c01_states_with_exclusive")
	}

	// ---------- C03 ----------
	// capacity and ledger
	children := map[string][]string{}
	for _, pl := range snap.Pools {
		if pl.Parent != "" {
			children[pl.Parent] = append(children[pl.Parent], pl.Name)
		}
	}
	localShared := map[string]int{}
	localReserved := map[string]int{}
	for _, g := range snap.Grants {
		switch g.CPUType {
		case "normal":
			localShared[g.Pool] += g.Portion
		case "reserved":
			localReserved[g.Pool] += g.Portion
		}
	}
	var subtree func(name string, m map[string]int) int
	subtree = func(name string, m map[string]int) int {
		t := m[name]
		for _, ch := range children[name] {
			t += subtree(ch, m)
		}
		return t
	}
	// KF2's mechanism: CPUs of a pool's sharable supply that are held exclusively by grants made at a proper
	// ancestor of that pool (slicing at an inner pool takes CPUs away from below without looking at what the
	// child has promised). Only oversubscription that this accounts for carries the known signature.
	parentOf := map[string]string{}
	for _, pl := range snap.Pools {
		parentOf[pl.Name] = pl.Parent
	}
	ancestorSliced := func(pl *topologyaware.VerifPool) int {
		anc := map[string]bool{}
		for a := parentOf[pl.Name]; a != ""; a = parentOf[a] {
			anc[a] = true
		}
		own := SetOf(pl.Sharable)
		n := 0
		for _, g := range snap.Grants {
			if anc[g.Pool] {
				n += len(SetOf(g.Exclusive).Inter(own))
			}
		}
		return n
	}
	poolByName := map[string]*topologyaware.VerifPool{}
	for i := range snap.Pools {
		poolByName[snap.Pools[i].Name] = &snap.Pools[i]
	}
	// conservation of each pool's CPU supply: what is free is part of the supply it is free in, and a CPU of the
	// supply that is not free is held exclusively by some grant (the capacity clause counts "CPUs remaining in the
	// pool's shared set": that set must consist of the pool's sharable CPUs, all of them unless granted away)
	heldExcl := IntSet{}
	for _, g := range snap.Grants {
		heldExcl = heldExcl.Union(SetOf(g.Exclusive))
	}
	for i := range snap.Pools {
		pl := &snap.Pools[i]
		fs, fi := SetOf(pl.FreeSharable), SetOf(pl.FreeIsolated)
		if x := fs.Minus(SetOf(pl.Sharable)); len(x) > 0 {
			r.Violate("C03", "supply-integrity", s.Op+":free-sharable-not-in-supply", "after %s: pool %s lists CPUs %s as free sharable CPUs which are not part of its sharable supply %s", s.Op, pl.Name, x, SetOf(pl.Sharable))
		}
		if x := fi.Minus(SetOf(pl.Isolated)); len(x) > 0 {
			r.Violate("C03", "supply-integrity", s.Op+":free-isolated-not-in-supply", "after %s: pool %s lists CPUs %s as free isolated CPUs which are not part of its isolated supply %s", s.Op, pl.Name, x, SetOf(pl.Isolated))
		}
		if x := SetOf(pl.Sharable).Minus(fs).Minus(heldExcl); len(x) > 0 {
			r.Violate("C03", "supply-integrity", s.Op+":sharable-cpu-lost", "after %s: CPUs %s of the sharable supply of pool %s are neither free nor held exclusively by any grant", s.Op, x, pl.Name)
		}
		if x := SetOf(pl.Isolated).Minus(fi).Minus(heldExcl); len(x) > 0 {
			r.Violate("C03", "supply-integrity", s.Op+":isolated-cpu-lost", "after %s: CPUs %s of the isolated supply of pool %s are neither free nor held exclusively by any grant", s.Op, x, pl.Name)
		}
	}
	tight := false
	for i := range snap.Pools {
		pl := &snap.Pools[i]
		promised := subtree(pl.Name, localShared)
		capacity := 1000 * len(pl.FreeSharable)
		if promised > capacity {
			sig := s.Op
			if promised <= capacity+1000*ancestorSliced(pl) {
				sig += ":drained-by-ancestor-slicing"
			}
			r.Violate("C03", "shared-oversubscribed", sig, "after %s: pool %s promises %dm shared CPU to its subtree but only %d sharable CPUs (%s) remain", s.Op, pl.Name, promised, len(pl.FreeSharable), SetOf(pl.FreeSharable))
		}
		if capacity-promised < 1000 {
			tight = true
		}
		promisedR := subtree(pl.Name, localReserved)
		if promisedR > 1000*len(pl.FreeReserved) && len(pl.Reserved) > 0 {
			r.Violate("C03", "reserved-oversubscribed", s.Op, "after %s: pool %s promises %dm reserved CPU but has %d reserved CPUs", s.Op, pl.Name, promisedR, len(pl.FreeReserved))
		}
		if pl.GrantedShared != localShared[pl.Name] {
			r.Violate("C03", "shared-ledger", s.Op, "after %s: pool %s accounts %dm granted shared CPU but its grants sum to %dm", s.Op, pl.Name, pl.GrantedShared, localShared[pl.Name])
		}
		if pl.GrantedReserved != localReserved[pl.Name] {
			sig := s.Op
			if r.Stats["reconf_accepted"] > 0 {
				sig = "after-reconf"
			}
			r.Violate("C03", "reserved-ledger", sig, "after %s: pool %s accounts %dm granted reserved CPU but its grants sum to %dm", s.Op, pl.Name, pl.GrantedReserved, localReserved[pl.Name])
		}
	}
	if tight || r.Stats["create_failed"] > 0 {
		r.See("C03", fmt.Sprintf("%s|g%d|%s", Machine().Name, r.Inst.Cfg.Gen, r.stateShape()))
		r.Count("c03_tight_states")
	}
	isoAll := SetOf(Machine().Isolated)
	for _, c := range live {
		g, ok := grants[c.ID]
		if !ok {
			continue
		}
		if cfg.PinCPU && !r.cpuPreserveAnn(c) && g.CPUType != "preserve" {
			why := ""
			if pl := poolByName[g.Pool]; pl != nil && len(pl.FreeSharable) == 0 && ancestorSliced(pl) > 0 {
				why = ":drained-by-ancestor-slicing"
			} else if pl != nil && len(pl.Sharable) == 0 {
				// the other half of KF2: an accepted configuration (shrunk available set, reserved CPUs moved) leaves the
				// pool of a reinstated shared grant without a single sharable CPU in its supply
				why = ":pool-without-sharable-supply"
			} else if pl != nil && len(pl.FreeSharable) == 0 && SetOf(pl.Sharable).SubsetOf(heldExcl) {
				// every sharable CPU of the pool's supply is held exclusively (only re-instatement after a shrinking
				// reconfiguration gets there: AllocateCPU() always leaves sharable capacity behind)
				why = ":pool-sharable-all-exclusive"
			}
			if c.CpusTold && len(MustList(c.Shadow.Cpus)) == 0 && !r.NoShadow {
				r.Violate("C03", "empty-cpuset", s.Op+why, "after %s: CPU-pinned container %s has an empty allowed CPU set", s.Op, c.Key)
			}
			cr, okc := r.cacheRes(c.ID)
			if okc && cr.Cpus == "" {
				r.Violate("C03", "empty-cpuset", s.Op+":cache"+why, "after %s: CPU-pinned container %s has an empty cpuset in the cache (pool %s has no sharable CPU left)", s.Op, c.Key, g.Pool)
			}
		}
		// eligibility
		req := sharesToMilli(MilliCPUToShares(int64(c.ReqMilli)))
		var want int
		var isoOK bool
		var group string
		hasIso := len(SetOf(g.Exclusive).Inter(isoAll)) > 0
		for _, ac := range r.admissible(c) {
			want, isoOK, group = r.expectedExclusive(c, req, ac.TA)
			if len(g.Exclusive) == want && (isoOK || !hasIso) {
				break
			}
		}
		if c.UpdFailed {
			group = "after-failed-update"
		}
		r.Count("c03_grants_" + group)
		if len(g.Isolated) > 0 {
			r.Count("c03_grants_isolated")
		}
		if len(g.Exclusive) != want {
			r.Violate("C03", "exclusive-count", group, "after %s: %s (%s, request %dm, group %s) holds %d exclusive CPUs %v, the documented rules give %d", s.Op, c.Key, r.M.Pods[c.Pod].QoS, req, group, len(g.Exclusive), g.Exclusive, want)
		}
		if g.CPUType != "preserve" && 1000*len(g.Exclusive)+g.Portion != req && len(g.Exclusive) == want {
			sig := g.CPUType
			if r.Stats["reconf_accepted"] > 0 {
				sig += ":after-reconf"
			}
			if c.UpdFailed {
				sig = "after-failed-update"
			}
			r.Violate("C03", "grant-amount", sig, "after %s: %s requests %dm but its %s grant carries %d exclusive CPUs + %dm", s.Op, c.Key, req, g.CPUType, len(g.Exclusive), g.Portion)
		}
		ex := SetOf(g.Exclusive)
		if ix := ex.Inter(isoAll); len(ix) > 0 {
			if !ex.SubsetOf(isoAll) {
				r.Violate("C03", "isolated-mixed", group, "after %s: %s holds isolated CPUs %s mixed with ordinary exclusive CPUs %s", s.Op, c.Key, ix, ex.Minus(isoAll))
			}
			if !isoOK {
				r.Violate("C03", "isolated-ineligible", group, "after %s: %s (group %s) holds isolated CPUs %s although it is not eligible for isolated allocation", s.Op, c.Key, group, ix)
			}
		}
		// shares = kubelet encoding of granted capacity
		if cfg.PinCPU && g.CPUType != "preserve" && !r.NoShadow {
			m := g.Portion
			if m == 0 {
				m = 1000 * len(g.Exclusive)
			}
			wantShares := MilliCPUToShares(int64(m))
			if c.Shadow.Shares != wantShares {
				sg := g.CPUType
				if c.UpdFailed {
					sg = "after-failed-update"
				}
				r.Violate("C03", "shares", sg, "after %s: %s was granted %dm (%s) but is told cpu.shares=%d, kubelet encoding is %d", s.Op, c.Key, m, g.CPUType, c.Shadow.Shares, wantShares)
			}
		}
	}
}
