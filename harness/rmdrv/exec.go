package rmdrv

import (
	"encoding/json"
	"fmt"
	"os"
	"runtime/debug"
	"sort"
	"strings"

	"github.com/containerd/nri/pkg/api"
)

// Step is one request of a history (JSON-serialisable: the event log is the replay file).
type Step struct {
	Op       string            `json:"op"`
	Pod      string            `json:"pod,omitempty"`
	Ctr      string            `json:"ctr,omitempty"`
	NS       string            `json:"ns,omitempty"`
	QoS      string            `json:"qos,omitempty"`
	Ann      map[string]string `json:"ann,omitempty"`
	Labels   map[string]string `json:"labels,omitempty"`
	Name     string            `json:"name,omitempty"`
	Req      int               `json:"req,omitempty"`
	Lim      int               `json:"lim,omitempty"`
	MemLim   int64             `json:"memlim,omitempty"`
	MemReq   int64             `json:"memreq,omitempty"`
	Swap     int64             `json:"swap,omitempty"` // memory+swap limit of the container spec (swap-enabled node)
	InitCpus string            `json:"initcpus,omitempty"`
	InitMems string            `json:"initmems,omitempty"`
	Same     bool              `json:"same,omitempty"` // update with identical resources
	Cfg      *Config           `json:"cfg,omitempty"`  // reconf
	Expect   string            `json:"expect,omitempty"`
	// restart
	Stale   bool            `json:"stale,omitempty"`   // restart from the state-directory copy taken at step CutAt
	Gone    []string        `json:"gone,omitempty"`    // container keys the runtime lost while the plugin was down
	GonePod []string        `json:"gonepod,omitempty"` // pod keys the runtime lost
	Advance []string        `json:"advance,omitempty"` // container keys whose state advanced (created->running->stopped)
	Hostile bool            `json:"hostile,omitempty"` // the step deliberately breaks lifecycle rules
	Raw     json.RawMessage `json:"raw,omitempty"`
}

func (s *Step) String() string { b, _ := json.Marshal(s); return string(b) }

// Reply is what came back from the plugin for a step.
type Reply struct {
	Err     string                   `json:"err,omitempty"`
	Adjust  *api.ContainerAdjustment `json:"adjust,omitempty"`
	Updates []*api.ContainerUpdate   `json:"updates,omitempty"`
	Pushed  [][]*api.ContainerUpdate `json:"pushed,omitempty"`
	Panic   string                   `json:"panic,omitempty"`
}

// Violation is a monitor firing.
type Violation struct {
	Prop  string `json:"prop"`
	Check string `json:"check"` // short stable id of the check inside the property
	Sig   string `json:"sig"`   // signature: names the failing site / input class (for known-findings matching)
	Msg   string `json:"msg"`
	Step  int    `json:"step"`
	Hist  int    `json:"hist"`
	Op    string `json:"op"`
}

// Runner executes steps against an instance and keeps the runtime model.
type Runner struct {
	Inst    *Inst
	M       *Model
	Hist    int
	StepNo  int
	Steps   []*Step
	Viol    []Violation
	Stats   map[string]int
	Seen    map[string]map[string]struct{} // per property: distinct non-trivial state hashes
	LogF    *os.File                       // command-before-execute log
	PreStep func(*Step)                    // called before a step executes (hostile mode: replayable witness on disk before every call)
	Broken  bool                           // a handler panicked: instance state is undefined
	Props   map[string]bool                // properties whose monitors are enabled
	LastOp  string
	// set by the policy-specific monitors
	MonTA  *TAMon
	MonBln *BlnMon
	// failed-request bookkeeping
	LastFailed bool
	AllocCfg   map[string][]*Config // per container: configurations its allocation may stem from
	NoAlloc    map[string]bool      // containers known to have lost their allocation earlier (reported once)
	PostStep   func(r *Runner, s *Step, rep *Reply)
	Hostile    bool
	Down       bool   // the plugin is not running: steps only change the runtime model
	SnapDir    string // state-directory copy taken by a "snapshot" step
	Restarts   int
	// a restart from an older cache snapshot happened: known containers keep the cached
	// (stale) resources and requirements, see known finding KF7
	StaleRestarted        bool
	Cond                  map[string]bool // every oracle clause that has fired in this history
	RejectedLeftPending   bool            // a rejected reconfiguration left undelivered changes behind
	RemoveLiveLeftPending bool            // a remove-live step left undelivered changes behind (KF9)
	LaggingCache          bool            // after a restart the cache recorded an older value than the runtime had (KF7)
	Deaf                  bool            // events are not delivered until the next sync step (see doLifecycle)
	RemovedLive           bool            // the last remove step removed a container that had not been stopped
	RaceBadCfg            *Config         // race mode: configuration the policy rejects only after having started to apply it
	RaceAllowed           IntSet          // race mode: union of the available CPUs of all configurations accepted so far
	NoShadow              bool            // concurrent mode: the order in which replies reach the runtime is unknown, skip runtime-view clauses
}

// BrokenStateSuffix names known-defective states the history has already been through; checks
// whose violations can be mere consequences of those append it to their signature.
func (r *Runner) BrokenStateSuffix() string { return r.brokenStateSuffix(false) }

// brokenStateSuffix: with policyState set, only the known-defective states that damage the policy's own
// bookkeeping count. A refused CreateContainer does not: KF1 says its side effects on OTHER containers stay
// undelivered (the runtime's view goes stale), the policy's ledgers, pools and balloons must be as before.
func (r *Runner) brokenStateSuffix(policyState bool) string {
	sfx := ""
	if r.Stats["update_failed"] > 0 || (!policyState && r.Stats["create_failed"] > 0) {
		sfx += ":after-failed-request"
	}
	if r.RemoveLiveLeftPending && !policyState {
		// KF9: the re-pinning of other containers caused by removing a never-stopped container could not be delivered
		sfx += ":after-remove-of-live-container"
	}
	if r.Cond["C03/shared-oversubscribed"] || r.Cond["C03/empty-cpuset"] {
		sfx += ":after-pool-drained"
	}
	if r.Stats["reconf_rejected"] > 0 && (r.Cond["C13/rejected-not-atomic"] || r.RejectedLeftPending) {
		sfx += ":after-nonatomic-rejected-reconf"
	}
	if r.Cond["C02/membership"] || r.Cond["C13/lost-allocation"] || r.Cond["C11/live-without-allocation"] {
		sfx += ":after-container-left-unallocated"
	}
	return sfx
}

func NewRunner(inst *Inst, m *Model, hist int) *Runner {
	return &Runner{Inst: inst, M: m, Hist: hist, Stats: map[string]int{}, Seen: map[string]map[string]struct{}{},
		Props: map[string]bool{}, AllocCfg: map[string][]*Config{}, NoAlloc: map[string]bool{}}
}

func (r *Runner) Enabled(p string) bool { return len(r.Props) == 0 || r.Props[p] }

func (r *Runner) Violate(prop, check, sig, format string, args ...interface{}) {
	if r.Cond == nil {
		r.Cond = map[string]bool{}
	}
	// the broken-state suffix describes what the history went through BEFORE this firing
	derivedSfx := ""
	if derivedCheck[prop+"/"+check] {
		derivedSfx = r.brokenStateSuffix(policyStateCheck[prop+"/"+check])
	}
	r.Cond[prop+"/"+check] = true // remembered even when the property's reports are filtered out
	if !r.Enabled(prop) {
		return
	}
	if r.StaleRestarted && (prop == "C01" || prop == "C03" || prop == "C04" || prop == "C05" || prop == "C12") {
		sig += ":after-stale-cache-restart"
	} else if r.LaggingCache && prop == "C12" {
		// the newest cache file was itself older than the runtime's truth (seen as an unmanaged-field mismatch after the
		// restart): the identical-update echo then tells an opted-out container that older value (KF7)
		sig += ":after-restart-with-lagging-cache"
	}
	// Violations that can be mere consequences of a known-defective state the history has
	// already been through carry that state in their signature (the defects themselves -
	// C05/pending after a failed request, C03 drained pool, ... - are reported without it).
	if derivedCheck[prop+"/"+check] {
		if sfx := derivedSfx; sfx != "" && !strings.Contains(sig, ":after-") && !strings.HasPrefix(sig, "stale-pinning") {
			sig += sfx
		}
	}
	v := Violation{Prop: prop, Check: check, Sig: sig, Msg: fmt.Sprintf(format, args...), Step: r.StepNo, Hist: r.Hist, Op: r.LastOp}
	// one report per (prop, check) and history is enough: a broken state persists over
	// later steps, the first firing names the request that caused it
	for _, o := range r.Viol {
		if o.Prop == v.Prop && o.Check == v.Check {
			r.Stats["dup_violations"]++
			return
		}
	}
	r.Viol = append(r.Viol, v)
}

// derivedCheck lists the oracle clauses whose firing can be a consequence of an earlier defect.
var derivedCheck = map[string]bool{
	"C01/excl-in-other": true, "C01/outside-available": true, "C01/reserved-to-nonreserved": true, "C01/reserved-mixed": true, "C01/excl-overlap": false,
	"C02/cpuset": true, "C02/cpuset-hidden-ht": true,
	"C03/exclusive-count": true, "C03/grant-amount": true, "C03/shares": true, "C03/empty-cpuset": true,
	"C04/mems-vs-zone": true, "C04/fit-model": true,
	"C05/update-dead": true, "C05/view-mismatch": true,
	"C12/cpus-told": true, "C12/mems-told": true,
	"C09/balloons-state": true, "C09/free-cpus": true, "C09/pool-state": true, "C09/leak-grant": true, "C09/leak-memory": true, "C09/leak-member": true, "C09/dead-holds": true, "C09/holder-uncached": true,
}

// policyStateCheck: derived clauses that look at the policy's own bookkeeping (not at what the runtime was told).
var policyStateCheck = map[string]bool{
	"C03/exclusive-count": true, "C03/grant-amount": true,
	"C09/balloons-state": true, "C09/free-cpus": true, "C09/pool-state": true, "C09/leak-grant": true, "C09/leak-memory": true, "C09/leak-member": true, "C09/dead-holds": true, "C09/holder-uncached": true,
}

// opSig names the request for signatures; a RemoveContainer of a never-stopped container is its own class
// (its release cannot be followed by updates: RemoveContainer has no reply to carry them, see KF9).
func (r *Runner) opSig(s *Step) string {
	if s.Op == "remove" && r.RemovedLive {
		return "remove-live"
	}
	return s.Op
}

func (r *Runner) Count(key string) { r.Stats[key]++ }

func (r *Runner) See(prop, hash string) {
	m := r.Seen[prop]
	if m == nil {
		m = map[string]struct{}{}
		r.Seen[prop] = m
	}
	m[hash] = struct{}{}
}

func (r *Runner) logCmd(s *Step) {
	if r.LogF != nil {
		fmt.Fprintf(r.LogF, "{\"hist\":%d,\"seq\":%d,\"kind\":\"cmd\",\"step\":%s}\n", r.Hist, r.StepNo, s.String())
	}
}

func (r *Runner) logReply(rep *Reply) {
	if r.LogF != nil {
		b, _ := json.Marshal(rep)
		fmt.Fprintf(r.LogF, "{\"hist\":%d,\"seq\":%d,\"kind\":\"reply\",\"reply\":%s}\n", r.Hist, r.StepNo, b)
	}
}

func (r *Runner) newPodIDs() (string, string) {
	r.M.NextID++
	n := r.M.NextID
	return fmt.Sprintf("pod%04d%s", n, strings.Repeat("a", 8)), fmt.Sprintf("uid-%04d-%04d", r.Hist%10000, n)
}

func (r *Runner) newCtrID() string {
	r.M.NextID++
	return fmt.Sprintf("ctr%04d%s", r.M.NextID, strings.Repeat("b", 8))
}

// applyUpdates folds container updates into the shadows and checks addressing rules (C05).
func (r *Runner) applyUpdates(ups []*api.ContainerUpdate, subject *MCtr, how string) {
	seen := map[string]int{}
	for _, u := range ups {
		id := u.GetContainerId()
		seen[id]++
		if seen[id] == 2 {
			r.Violate("C05", "dup-update", how, "%s: two updates for container %s in one reply", how, id)
		}
		c := r.M.CtrByID(id)
		if c == nil {
			r.Violate("C05", "update-unknown", how, "%s: update addressed to container %s the runtime does not know", how, id)
			continue
		}
		if how == "create-reply" && subject != nil && c == subject {
			r.Violate("C05", "update-created", how, "CreateContainer reply carries an update for the container being created (%s)", id)
		}
		if !c.Live() && !(how == "create-reply" && c == subject) {
			if r.Hostile {
				r.Count("hostile_update_to_dead")
			} else {
				sg := how + ":" + c.State
				if r.Stats["create_failed"]+r.Stats["update_failed"] > 0 {
					sg += ":after-failed-request"
				}
				r.Violate("C05", "update-dead", sg, "%s: update addressed to %s container %s (%s)", how, c.State, c.Key, id)
			}
			// the runtime cannot apply it; do not fold
			continue
		}
		r.checkOptOutMsg(c, u.GetLinux().GetResources(), how)
		c.Apply(u.GetLinux().GetResources())
		if subject == nil || c != subject {
			r.Count("updates_to_others")
		}
	}
}

// guard runs fn, converting a panic into a recorded C14 violation.
func (r *Runner) guard(s *Step, fn func()) (panicked string) {
	defer func() {
		if e := recover(); e != nil {
			panicked = fmt.Sprintf("%v", e)
			st := string(debug.Stack())
			site := panicSite(st)
			r.Broken = true
			r.Violate("C14", "panic", s.Op+"@"+site, "handler %s panicked: %v\n%s", s.Op, e, trimStack(st))
		}
	}()
	fn()
	return ""
}

func panicSite(stack string) string {
	// first repository frame after the panic frames
	lines := strings.Split(stack, "\n")
	seenPanic := false
	for i := 0; i < len(lines); i++ {
		l := lines[i]
		if strings.HasPrefix(l, "panic(") {
			seenPanic = true
			continue
		}
		if seenPanic && strings.Contains(l, "github.com/containers/nri-plugins/") && !strings.Contains(l, "verif") {
			fn := strings.TrimSpace(l)
			if j := strings.LastIndex(fn, "("); j > 0 {
				fn = fn[:j]
			}
			fn = strings.TrimPrefix(fn, "github.com/containers/nri-plugins/")
			return fn
		}
	}
	return "unknown"
}

func trimStack(st string) string {
	lines := strings.Split(st, "\n")
	if len(lines) > 40 {
		lines = lines[:40]
	}
	return strings.Join(lines, "\n")
}

func errStr(err error) string {
	if err == nil {
		return ""
	}
	return err.Error()
}

// Do executes one step: log it, call the real handler, fold the reply, run the monitors.
func (r *Runner) Do(s *Step) *Reply {
	r.StepNo++
	r.Steps = append(r.Steps, s)
	r.LastOp = s.Op
	r.logCmd(s)
	if r.PreStep != nil {
		r.PreStep(s)
	}
	rep := &Reply{}
	if r.doLifecycle(s, rep) {
		r.logReply(rep)
		return rep
	}
	rm := r.Inst.RM
	r.Count("req_" + s.Op)
	switch s.Op {
	case "runpod":
		p := r.M.Pods[s.Pod]
		if p == nil {
			id, uid := r.newPodIDs()
			p = &MPod{Key: s.Pod, ID: id, UID: uid, Name: "pod-" + s.Pod, NS: s.NS, QoS: s.QoS, Ann: s.Ann, Labels: s.Labels}
			if s.Name != "" {
				p.Name = s.Name
			}
			r.M.Pods[s.Pod] = p
		}
		p.State = StRunning
		rep.Panic = r.guard(s, func() { rep.Err = errStr(rm.RunPodSandbox(r.M.APIPod(p))) })

	case "create":
		p := r.M.Pods[s.Pod]
		c := r.M.Ctrs[s.Ctr]
		if c == nil {
			c = &MCtr{Key: s.Ctr, ID: r.newCtrID(), Pod: s.Pod, Name: s.Name, ReqMilli: s.Req, LimMilli: s.Lim,
				MemLim: s.MemLim, MemReq: s.MemReq, Swap: s.Swap, InitCpus: s.InitCpus, InitMems: s.InitMems}
			qos := "Guaranteed"
			if p != nil {
				qos = p.QoS
			}
			c.OomAdj = r.M.OomAdj(qos, s.MemReq)
			r.M.Ctrs[s.Ctr] = c
		}
		c.Shadow = r.M.SpecRes(c)
		var apiPod *api.PodSandbox
		if p != nil {
			apiPod = r.M.APIPod(p)
		} else {
			apiPod = &api.PodSandbox{Id: "unknown-" + s.Pod, Name: "ghost", Namespace: "default"}
		}
		ctr := r.M.APICtr(c, false)
		ctr.State = api.ContainerState_CONTAINER_CREATED
		var (
			adj *api.ContainerAdjustment
			ups []*api.ContainerUpdate
			err error
		)
		rep.Panic = r.guard(s, func() { adj, ups, err = rm.CreateContainer(apiPod, ctr) })
		rep.Err, rep.Adjust, rep.Updates = errStr(err), adj, ups
		if rep.Panic == "" {
			if err != nil {
				c.State = StFailed
				r.Count("create_failed")
			} else {
				c.State = StCreated
				r.AllocCfg[c.Key] = []*Config{r.Inst.Cfg}
				// By design (nri.go maps containers by namespace/pod/container name to recognise restarted containers) a
				// new container makes an older live one of the same name a "stale instance": it is released and marked
				// exited. Only same-name pods (re-created while their old sandbox terminates) produce that.
				if p != nil {
					for _, k := range r.M.CtrKeys() {
						o := r.M.Ctrs[k]
						if op := r.M.Pods[o.Pod]; o != c && o.Live() && o.Name == c.Name && op != nil && op != p && op.Name == p.Name && op.NS == p.NS {
							o.State = StStopped
							r.Count("stale_same_name_instances_superseded")
						}
					}
				}
				if adj != nil {
					r.checkOptOutMsg(c, adj.GetLinux().GetResources(), "create-adjust")
					c.Apply(adj.GetLinux().GetResources())
				}
				r.applyUpdates(ups, c, "create-reply")
			}
		}

	case "start":
		c, p := r.ctrPod(s)
		if c == nil {
			break
		}
		rep.Panic = r.guard(s, func() { rep.Err = errStr(rm.StartContainer(p, r.M.APICtr(c, true))) })
		if rep.Panic == "" && rep.Err == "" && c.State == StCreated {
			c.State = StRunning
		}

	case "update":
		c, p := r.ctrPod(s)
		if c == nil {
			break
		}
		nr := Res{}
		if s.Same {
			nr.Shares = MilliCPUToShares(int64(c.ReqMilli))
			nr.Quota, nr.Period = milliToQuota(int64(c.LimMilli))
			nr.MemLim = c.MemLim
		} else {
			nr.Shares = MilliCPUToShares(int64(s.Req))
			nr.Quota, nr.Period = milliToQuota(int64(s.Lim))
			nr.MemLim = s.MemLim
		}
		lr := resToAPI(nr)
		lr.Cpu.Cpus, lr.Cpu.Mems = "", ""
		var (
			ups []*api.ContainerUpdate
			err error
		)
		rep.Panic = r.guard(s, func() { ups, err = rm.UpdateContainer(p, r.M.APICtr(c, true), lr) })
		rep.Err, rep.Updates = errStr(err), ups
		if rep.Panic == "" {
			c.EverUpdated = true
			if err == nil {
				if !s.Same {
					c.ReqMilli, c.LimMilli, c.MemLim = s.Req, s.Lim, s.MemLim
				}
				c.UpdFailed = false
				if !s.Same {
					r.AllocCfg[c.Key] = append(r.AllocCfg[c.Key], r.Inst.Cfg)
				}
				r.applyUpdates(ups, nil, "update-reply")
			} else {
				c.UpdFailed = true
				r.Count("update_failed")
			}
		}

	case "stop":
		c, p := r.ctrPod(s)
		if c == nil {
			break
		}
		var (
			ups []*api.ContainerUpdate
			err error
		)
		rep.Panic = r.guard(s, func() { ups, err = rm.StopContainer(p, r.M.APICtr(c, true)) })
		rep.Err, rep.Updates = errStr(err), ups
		if rep.Panic == "" {
			if c.State == StCreated || c.State == StRunning || c.State == StFailed {
				c.State = StStopped
			}
			r.applyUpdates(ups, nil, "stop-reply")
		}

	case "remove":
		c, p := r.ctrPod(s)
		if c == nil {
			break
		}
		r.RemovedLive = c.Live() // RemoveContainer without a StopContainer before it (out-of-order delivery)
		rep.Panic = r.guard(s, func() { rep.Err = errStr(rm.RemoveContainer(p, r.M.APICtr(c, true))) })
		if rep.Panic == "" {
			c.State = StRemoved
		}

	case "stoppod":
		p := r.M.Pods[s.Pod]
		ap := r.podOrGhost(s)
		rep.Panic = r.guard(s, func() { rep.Err = errStr(rm.StopPodSandbox(ap)) })
		if p != nil && rep.Panic == "" && p.State == StRunning {
			p.State = StStopped
		}

	case "removepod":
		p := r.M.Pods[s.Pod]
		ap := r.podOrGhost(s)
		rep.Panic = r.guard(s, func() { rep.Err = errStr(rm.RemovePodSandbox(ap)) })
		if p != nil && rep.Panic == "" {
			p.State = StRemoved
			if s.Hostile {
				// the runtime would have removed the pod's containers with it
				for _, c := range r.M.PodCtrs(p.Key) {
					if c.State != StRemoved {
						c.State = StRemoved
					}
				}
			}
		}

	case "sync":
		r.doSync(s, rep)

	case "reconf":
		var err error
		c13b := r.c13Before(s)
		shadowBefore := map[string]Res{}
		for _, k := range r.M.CtrKeys() {
			shadowBefore[k] = r.M.Ctrs[k].Shadow
		}
		defer func() { r.c13After(s, rep, c13b, shadowBefore) }()
		rm.Stub.TakePushed()
		rep.Panic = r.guard(s, func() { err = rm.Reconfigure(s.Cfg.ResmgrConfig()) })
		rep.Err = errStr(err)
		rep.Pushed = rm.Stub.TakePushed()
		if rep.Panic == "" {
			if err == nil {
				r.Inst.Cfg = s.Cfg.Clone()
				for _, c := range r.LiveCtrs() {
					// a grant that is re-instated verbatim can date from any configuration accepted since the container was
					// allocated: keep them all (each distinct configuration once)
					l, dup := r.AllocCfg[c.Key], false
					nb, _ := json.Marshal([]interface{}{r.Inst.Cfg.TA, r.Inst.Cfg.Bln})
					for _, o := range l {
						if ob, _ := json.Marshal([]interface{}{o.TA, o.Bln}); string(ob) == string(nb) {
							dup = true
							break
						}
					}
					if !dup {
						l = append(l, r.Inst.Cfg)
					}
					r.AllocCfg[c.Key] = l
				}
				r.Count("reconf_accepted")
			} else {
				r.Count("reconf_rejected")
				if len(rm.PendingIDs()) > 0 {
					r.RejectedLeftPending = true
				}
			}
			for _, push := range rep.Pushed {
				if err != nil {
					r.applyUpdates(push, nil, "rejected-reconf-push:"+r.Inst.Policy+":"+s.Cfg.Note)
				} else {
					r.applyUpdates(push, nil, "reconf-push")
				}
			}
		}

	case "hostile":
		r.doHostile(s, rep)

	case "coldstart-done":
		c, _ := r.ctrPod(s)
		if c == nil {
			break
		}
		var err error
		rm.Stub.TakePushed()
		rep.Panic = r.guard(s, func() { _, err = rm.PolicyEvent("cold-start-done", c.ID) })
		rep.Err = errStr(err)
		rep.Pushed = rm.Stub.TakePushed()
		for _, push := range rep.Pushed {
			r.applyUpdates(push, nil, "event-push")
		}

	default:
		rep.Err = "unknown op " + s.Op
	}
	r.LastFailed = rep.Err != "" || rep.Panic != ""
	r.logReply(rep)
	if !r.Broken {
		r.runMonitors(s, rep)
	}
	if r.PostStep != nil {
		r.PostStep(r, s, rep)
	}
	return rep
}

// doSync delivers Synchronize with the runtime's current lists.
func (r *Runner) doSync(s *Step, rep *Reply) {
	rm := r.Inst.RM
	pods, ctrs := r.RuntimeLists()
	var (
		ups []*api.ContainerUpdate
		err error
	)
	rep.Panic = r.guard(s, func() { ups, err = rm.Synchronize(pods, ctrs) })
	rep.Err, rep.Updates = errStr(err), ups
	if rep.Panic == "" && err == nil {
		for _, c := range r.LiveCtrs() {
			r.AllocCfg[c.Key] = []*Config{r.Inst.Cfg}
		}
		r.applyUpdates(ups, nil, "sync-reply")
	}
}

func (r *Runner) ctrPod(s *Step) (*MCtr, *api.PodSandbox) {
	c := r.M.Ctrs[s.Ctr]
	if c == nil {
		// hostile: unknown container
		if !s.Hostile {
			return nil, nil
		}
		c = &MCtr{Key: s.Ctr, ID: "ghost-" + s.Ctr, Pod: s.Pod, Name: "ghost"}
		c.Shadow = r.M.SpecRes(c)
		p := r.M.Pods[s.Pod]
		if p != nil {
			return c, r.M.APIPod(p)
		}
		return c, &api.PodSandbox{Id: "unknown-" + s.Pod, Name: "ghost", Namespace: "default"}
	}
	p := r.M.Pods[c.Pod]
	if p == nil {
		return c, &api.PodSandbox{Id: "unknown-" + c.Pod, Name: "ghost", Namespace: "default"}
	}
	return c, r.M.APIPod(p)
}

func (r *Runner) podOrGhost(s *Step) *api.PodSandbox {
	if p := r.M.Pods[s.Pod]; p != nil {
		return r.M.APIPod(p)
	}
	return &api.PodSandbox{Id: "unknown-" + s.Pod, Name: "ghost-" + s.Pod, Namespace: "default"}
}

// RuntimeLists returns what the runtime would report in Synchronize.
func (r *Runner) RuntimeLists() ([]*api.PodSandbox, []*api.Container) {
	var pods []*api.PodSandbox
	var ctrs []*api.Container
	for _, k := range r.M.PodKeys() {
		p := r.M.Pods[k]
		if p.State == StRemoved {
			continue
		}
		pods = append(pods, r.M.APIPod(p))
	}
	for _, k := range r.M.CtrKeys() {
		c := r.M.Ctrs[k]
		if c.State == StRemoved || c.State == StFailed || c.State == StNone {
			continue
		}
		if p := r.M.Pods[c.Pod]; p == nil || p.State == StRemoved {
			continue
		}
		ctrs = append(ctrs, r.M.APICtr(c, true))
	}
	return pods, ctrs
}

// LiveCtrs lists model containers that are created or running, in key order.
func (r *Runner) LiveCtrs() []*MCtr {
	var l []*MCtr
	for _, k := range r.M.CtrKeys() {
		if c := r.M.Ctrs[k]; c.Live() {
			l = append(l, c)
		}
	}
	return l
}

func sortedKeys[V any](m map[string]V) []string {
	var k []string
	for x := range m {
		k = append(k, x)
	}
	sort.Strings(k)
	return k
}
