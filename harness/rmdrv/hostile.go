package rmdrv

import (
	"encoding/json"
	"fmt"
	"os"
	"path/filepath"
	"strings"

	"github.com/containerd/nri/pkg/api"
	"google.golang.org/protobuf/encoding/protojson"

	"verif/harness/sysgen"
)

// HostileCall is one well-formed but hostile NRI request, recorded verbatim (protojson) so
// that it can be replayed.
type HostileCall struct {
	Handler string            `json:"handler"`
	Pod     json.RawMessage   `json:"pod,omitempty"`
	Ctr     json.RawMessage   `json:"ctr,omitempty"`
	Res     json.RawMessage   `json:"res,omitempty"`
	Pods    []json.RawMessage `json:"pods,omitempty"`
	Ctrs    []json.RawMessage `json:"ctrs,omitempty"`
	NilRes  bool              `json:"nilres,omitempty"`
	Why     string            `json:"why,omitempty"`
}

func marshalPod(p *api.PodSandbox) json.RawMessage {
	if p == nil {
		return nil
	}
	b, _ := protojson.Marshal(p)
	return b
}
func marshalCtr(c *api.Container) json.RawMessage {
	if c == nil {
		return nil
	}
	b, _ := protojson.Marshal(c)
	return b
}
func marshalRes(r *api.LinuxResources) json.RawMessage {
	if r == nil {
		return nil
	}
	b, _ := protojson.Marshal(r)
	return b
}
func unmarshalPod(b json.RawMessage) *api.PodSandbox {
	if len(b) == 0 {
		return nil
	}
	p := &api.PodSandbox{}
	if err := protojson.Unmarshal(b, p); err != nil {
		return nil
	}
	return p
}
func unmarshalCtr(b json.RawMessage) *api.Container {
	if len(b) == 0 {
		return nil
	}
	c := &api.Container{}
	if err := protojson.Unmarshal(b, c); err != nil {
		return nil
	}
	return c
}
func unmarshalRes(b json.RawMessage) *api.LinuxResources {
	if len(b) == 0 {
		return nil
	}
	r := &api.LinuxResources{}
	if err := protojson.Unmarshal(b, r); err != nil {
		return nil
	}
	return r
}

var hostileValues = []string{
	"", "true", "false", "yes", "TRUE", "0", "1", "-1", "123", "99999999999999999999999", "1e999", "NaN",
	"[", "{", "}", "{}", "[]", "null", "~", "- a\n- b", "a: b", "a: [1,2", "a:\n  b:\n    c: [", "\xff\xfe\xfd", "\x00",
	"${", "${pod/name", "${pod/labels/", "*", "[a-", "\\", "?", "dram", "pmem,dram", "dram,,hbm", "sram", ",",
	"duration: -5s", "duration: 1000h", "duration: abc", "duration: 1ns", "duration:", "high", "low", "default", "none", "urgent",
	"c0: dram", "c0:\n  duration: 5s", "c0: [", "- scope:\n    key: name", "c0:\n- match:\n    key: name\n    operator: Equals\n    values: [c1]\n  weight: 99999999999",
	"c0: [c1, c2]", "c0: [null]", "c0: null", "c0: 5", "c0:\n- scope: 5", "c0:\n- match: []", "[c0]", "c0: [[c1]]",
	"type: glob\npaths: [\"[\"]", "type: prefix\npaths: 5", "type: nosuch\npaths: []", "paths: [/dev]", "mounts,devices", "mounts,,", "all", "none",
	"reserved", "default", "nonexistent", " ", "\n", "\t", "/", "../..", "a/b/c",
}

var hostileKeys = []string{
	"prefer-shared-cpus", "prefer-isolated-cpus", "prefer-reserved-cpus", "prefer-cpu-priority", "hide-hyperthreads",
	"cpu.preserve", "memory.preserve", "memory-type", "cold-start", "topologyhints", "allow.topologyhints", "deny.topologyhints",
	"rdtclass", "blockioclass", "toptierlimit", "balloon.balloons",
}

func (g *Gen) hostileValue() string {
	switch g.R.Intn(12) {
	case 0:
		return strings.Repeat("x", 10000)
	case 1:
		return strings.Repeat("[", 2000)
	case 2:
		return strings.Repeat("a: ", 500) + "b"
	}
	return sysgen.Pick(g.R, hostileValues)
}

func (g *Gen) hostileAnnotations() map[string]string {
	ann := map[string]string{}
	n := g.R.Range(0, 4)
	for i := 0; i < n; i++ {
		k := sysgen.Pick(g.R, hostileKeys) + "." + nsKey
		switch g.R.Intn(4) {
		case 0:
			k += "/pod"
		case 1:
			k += "/container." + sysgen.Pick(g.R, []string{"c0", "c1", "", "*", "c0/pod"})
		}
		ann[k] = g.hostileValue()
	}
	if g.R.Chance(1, 3) {
		ann[nsKey+"/"+sysgen.Pick(g.R, []string{"affinity", "anti-affinity", "memory-type", "cold-start"})] = g.hostileValue()
	}
	if g.R.Chance(1, 3) {
		// well-formed affinity syntax with every operator and 0..3 values: what validation lets through is evaluated
		// against the other containers later, when their keys resolve
		ann[nsKey+"/"+sysgen.Pick(g.R, []string{"affinity", "anti-affinity"})] = g.structuredAffinity()
	}
	return ann
}

var (
	affOps  = []string{"Equals", "NotEqual", "In", "NotIn", "Exists", "NotExist", "AlwaysTrue", "Matches", "MatchesNot", "MatchesAny", "MatchesNone", "", "Bogus"}
	affKeys = []string{"name", "name", "labels/tier", "labels/io.kubernetes.container.name", "pod/name", "pod/labels/tier", "pod/namespace", "pod/qosclass", "", ":,:pod/namespace,name", "pod/labels/", "id"}
	affVals = []string{"c0", "c1", "perf", "batch", "*", "[a-", "", "prod*", "default", "kube-system", "(", "c?"}
)

var lastAffOp string

func (g *Gen) affExpr(indent string) string {
	var b strings.Builder
	key := sysgen.Pick(g.R, affKeys)
	if g.R.Chance(3, 4) {
		key = sysgen.Pick(g.R, affKeys[:8])
	}
	fmt.Fprintf(&b, "%skey: %q\n", indent, key)
	op := sysgen.Pick(g.R, affOps)
	if (op == "" || op == "Bogus") && g.R.Chance(3, 4) {
		op = sysgen.Pick(g.R, affOps[:11])
	}
	lastAffOp = op
	if op != "" || g.R.Chance(1, 2) {
		fmt.Fprintf(&b, "%soperator: %q\n", indent, op)
	}
	// mostly the number of values the operator documents (so that the whole annotation passes validation and the
	// expressions get evaluated), sometimes one off, rarely anything
	n := g.R.Intn(4)
	if !g.R.Chance(1, 8) {
		want := map[string]int{"Equals": 1, "NotEqual": 1, "Matches": 1, "MatchesNot": 1, "Exists": 0, "NotExist": 0, "AlwaysTrue": 0, "In": 2, "NotIn": 2, "MatchesAny": 2, "MatchesNone": 2}
		if w, ok := want[lastAffOp]; ok {
			n = w
			if g.R.Chance(1, 4) {
				n += g.R.Range(-1, 1)
				if n < 0 {
					n = 0
				}
			}
		}
	}
	switch {
	case n == 0 && g.R.Chance(1, 2):
		// no values key at all
	case n == 0:
		fmt.Fprintf(&b, "%svalues: []\n", indent)
	default:
		fmt.Fprintf(&b, "%svalues:\n", indent)
		for i := 0; i < n; i++ {
			fmt.Fprintf(&b, "%s- %q\n", indent, sysgen.Pick(g.R, affVals))
		}
	}
	return b.String()
}

func (g *Gen) structuredAffinity() string {
	var b strings.Builder
	for _, name := range []string{"c0", "c1", "c2", "keep"} {
		if !g.R.Chance(2, 3) {
			continue
		}
		fmt.Fprintf(&b, "%s:\n", name)
		for n := g.R.Range(1, 2); n > 0; n-- {
			first := "- "
			if g.R.Chance(1, 2) {
				fmt.Fprintf(&b, "%sscope:\n%s", first, g.affExpr("    "))
				first = "  "
			}
			fmt.Fprintf(&b, "%smatch:\n%s", first, g.affExpr("    "))
			if g.R.Chance(2, 3) {
				fmt.Fprintf(&b, "  weight: %s\n", sysgen.Pick(g.R, []string{"1", "5", "0", "-1", "1000", "-1000", "10", "99999999999", "x", "1.5"}))
			}
		}
	}
	if b.Len() == 0 {
		return "c0: [c1]"
	}
	return b.String()
}

// hostilePod builds a pod that may reuse a known ID, be unknown, or have absent sub-messages.
func (g *Gen) hostilePod(r *Runner) *api.PodSandbox {
	keys := r.M.PodKeys()
	var p *api.PodSandbox
	if len(keys) > 0 && g.R.Chance(2, 3) {
		p = r.M.APIPod(r.M.Pods[sysgen.Pick(g.R, keys)])
	} else {
		p = &api.PodSandbox{Id: sysgen.Pick(g.R, []string{"ghost-pod", "", strings.Repeat("f", 64), "pod0001aaaaaaaa"}), Name: "ghost", Namespace: sysgen.Pick(g.R, []string{"default", "kube-system", "", "reserved-x"}), Uid: "ghost-uid"}
		p.Linux = &api.LinuxPodSandbox{CgroupParent: sysgen.Pick(g.R, []string{"", "/kubepods/besteffort/podx", "/kubepods/burstable/podx", "/kubepods/podx", "besteffort"})}
	}
	switch g.R.Intn(8) {
	case 0:
		p.Linux = nil
	case 1:
		p.Annotations = nil
	case 2:
		p.Labels = nil
	case 3:
		p.Linux = &api.LinuxPodSandbox{}
	}
	if g.R.Chance(1, 2) {
		p.Annotations = g.hostileAnnotations()
	}
	return p
}

func (g *Gen) hostileResources() *api.LinuxResources {
	switch g.R.Intn(10) {
	case 0:
		return nil
	case 1:
		return &api.LinuxResources{}
	case 2:
		return &api.LinuxResources{Cpu: &api.LinuxCPU{}}
	case 3:
		return &api.LinuxResources{Memory: &api.LinuxMemory{}}
	}
	r := &api.LinuxResources{Cpu: &api.LinuxCPU{}, Memory: &api.LinuxMemory{}}
	u64 := []uint64{0, 1, 2, 3, 1024, 262144, 262145, 1 << 40, ^uint64(0)}
	i64 := []int64{0, 1, -1, 999, 1000, 100000, -100000, 1 << 40, -(1 << 62), 1<<63 - 1}
	if g.R.Chance(2, 3) {
		r.Cpu.Shares = api.UInt64(sysgen.Pick(g.R, u64))
	}
	if g.R.Chance(1, 2) {
		r.Cpu.Quota = api.Int64(sysgen.Pick(g.R, i64))
	}
	if g.R.Chance(1, 2) {
		r.Cpu.Period = api.UInt64(sysgen.Pick(g.R, u64))
	}
	if g.R.Chance(1, 3) {
		r.Cpu.Cpus = sysgen.Pick(g.R, []string{"0", "0-3", "9999", "0,2", "1-2,7", "0-1023"})
	}
	if g.R.Chance(1, 3) {
		r.Cpu.Mems = sysgen.Pick(g.R, []string{"0", "0-1", "77", "1,3", "0-63"})
	}
	if g.R.Chance(1, 2) {
		r.Memory.Limit = api.Int64(sysgen.Pick(g.R, i64))
	}
	if g.R.Chance(1, 4) {
		r.Memory.Swap = api.Int64(sysgen.Pick(g.R, i64))
	}
	if g.R.Chance(1, 6) {
		r.Unified = map[string]string{"memory.high": g.hostileValue()}
	}
	if g.R.Chance(1, 6) {
		r.RdtClass = api.String(g.hostileValue())
		r.BlockioClass = api.String(g.hostileValue())
	}
	return r
}

func (g *Gen) hostileCtr(r *Runner, pod *api.PodSandbox) *api.Container {
	keys := r.M.CtrKeys()
	var c *api.Container
	if len(keys) > 0 && g.R.Chance(1, 2) {
		c = r.M.APICtr(r.M.Ctrs[sysgen.Pick(g.R, keys)], true)
	} else {
		c = &api.Container{Id: sysgen.Pick(g.R, []string{"ghost-ctr", "", strings.Repeat("e", 64), "ctr0002bbbbbbbb"}),
			PodSandboxId: pod.GetId(), Name: sysgen.Pick(g.R, []string{"c0", "c1", "", "keep", "a.b", "x/y"}),
			State: api.ContainerState(g.R.Intn(6) - 1)}
	}
	if g.R.Chance(1, 3) {
		c.PodSandboxId = sysgen.Pick(g.R, []string{"", "ghost-pod", pod.GetId()})
	}
	switch g.R.Intn(7) {
	case 0:
		c.Linux = nil
	case 1:
		c.Linux = &api.LinuxContainer{}
	case 2:
		c.Linux = &api.LinuxContainer{Resources: g.hostileResources()}
	case 3:
		c.Linux = &api.LinuxContainer{Resources: g.hostileResources(), OomScoreAdj: api.Int(g.R.Range(-2000, 2000)), CgroupsPath: g.hostileValue()}
	}
	if g.R.Chance(1, 4) {
		c.Mounts = []*api.Mount{{Destination: g.hostileValue(), Source: sysgen.Pick(g.R, []string{"/", "/dev/null", "/sys", "", "/nonexistent/x"}), Type: "bind", Options: []string{sysgen.Pick(g.R, []string{"ro", "rw", ""})}}}
	}
	if g.R.Chance(1, 5) && c.Linux != nil {
		c.Linux.Devices = []*api.LinuxDevice{{Path: "/dev/x", Type: sysgen.Pick(g.R, []string{"c", "b", "", "z"}), Major: int64(g.R.Range(-1, 300)), Minor: int64(g.R.Range(-1, 300))}}
	}
	if g.R.Chance(1, 5) {
		c.Env = []string{"", "=", "A", "=B", "A=B=C"}
	}
	if g.R.Chance(1, 5) {
		c.Annotations = map[string]string{nsKey + "/x": g.hostileValue()}
		c.Labels = nil
	}
	return c
}

// HostileStep generates one hostile request.
func (g *Gen) HostileStep(r *Runner) *Step {
	hc := &HostileCall{}
	pod := g.hostilePod(r)
	handlers := []string{"RunPodSandbox", "StopPodSandbox", "RemovePodSandbox", "CreateContainer", "CreateContainer", "StartContainer",
		"UpdateContainer", "UpdateContainer", "StopContainer", "RemoveContainer", "Synchronize"}
	hc.Handler = sysgen.Pick(g.R, handlers)
	hc.Pod = marshalPod(pod)
	switch hc.Handler {
	case "CreateContainer", "StartContainer", "StopContainer", "RemoveContainer":
		hc.Ctr = marshalCtr(g.hostileCtr(r, pod))
	case "UpdateContainer":
		hc.Ctr = marshalCtr(g.hostileCtr(r, pod))
		res := g.hostileResources()
		if res == nil {
			hc.NilRes = true
		}
		hc.Res = marshalRes(res)
	case "Synchronize":
		pods, ctrs := r.RuntimeLists()
		for _, p := range pods {
			if g.R.Chance(3, 4) {
				hc.Pods = append(hc.Pods, marshalPod(p))
			}
		}
		for _, c := range ctrs {
			if g.R.Chance(3, 4) {
				hc.Ctrs = append(hc.Ctrs, marshalCtr(c))
			}
		}
		for i := g.R.Intn(3); i > 0; i-- {
			p := g.hostilePod(r)
			hc.Pods = append(hc.Pods, marshalPod(p))
			hc.Ctrs = append(hc.Ctrs, marshalCtr(g.hostileCtr(r, p))) // may reference a pod that is not listed
		}
		if g.R.Chance(1, 4) && len(hc.Ctrs) > 0 {
			hc.Ctrs = append(hc.Ctrs, hc.Ctrs[0]) // duplicate
		}
	}
	raw, _ := json.Marshal(hc)
	return &Step{Op: "hostile", Hostile: true, Raw: raw}
}

// doHostile executes a recorded hostile call.
func (r *Runner) doHostile(s *Step, rep *Reply) {
	hc := &HostileCall{}
	if err := json.Unmarshal(s.Raw, hc); err != nil {
		rep.Err = "bad hostile step: " + err.Error()
		return
	}
	rm := r.Inst.RM
	pod := unmarshalPod(hc.Pod)
	if pod == nil {
		pod = &api.PodSandbox{}
	}
	ctr := unmarshalCtr(hc.Ctr)
	if ctr == nil {
		ctr = &api.Container{}
	}
	r.Count("hostile_" + hc.Handler)
	var err error
	rep.Panic = r.guard(&Step{Op: "hostile:" + hc.Handler}, func() {
		switch hc.Handler {
		case "RunPodSandbox":
			err = rm.RunPodSandbox(pod)
		case "StopPodSandbox":
			err = rm.StopPodSandbox(pod)
		case "RemovePodSandbox":
			err = rm.RemovePodSandbox(pod)
		case "CreateContainer":
			_, _, err = rm.CreateContainer(pod, ctr)
		case "StartContainer":
			err = rm.StartContainer(pod, ctr)
		case "UpdateContainer":
			_, err = rm.UpdateContainer(pod, ctr, unmarshalRes(hc.Res))
		case "StopContainer":
			_, err = rm.StopContainer(pod, ctr)
		case "RemoveContainer":
			err = rm.RemoveContainer(pod, ctr)
		case "Synchronize":
			var pods []*api.PodSandbox
			var ctrs []*api.Container
			for _, b := range hc.Pods {
				if p := unmarshalPod(b); p != nil {
					pods = append(pods, p)
				}
			}
			for _, b := range hc.Ctrs {
				if c := unmarshalCtr(b); c != nil {
					ctrs = append(ctrs, c)
				}
			}
			_, err = rm.Synchronize(pods, ctrs)
		}
	})
	rep.Err = errStr(err)
	if rep.Err != "" {
		r.Count("hostile_refused")
	}
}

// canary runs a benign lifecycle; every request of it must succeed.
func (r *Runner) canary(n int, after string) {
	podKey := fmt.Sprintf("canary%d", n)
	ctrKey := podKey + ".c"
	seq := []*Step{
		{Op: "runpod", Pod: podKey, NS: "kube-system", QoS: "BestEffort"}, // reserved class: never a capacity question
		{Op: "create", Pod: podKey, Ctr: ctrKey, Name: "c0"},
		{Op: "start", Pod: podKey, Ctr: ctrKey},
		{Op: "update", Pod: podKey, Ctr: ctrKey, Same: true},
		{Op: "stop", Pod: podKey, Ctr: ctrKey},
		{Op: "remove", Pod: podKey, Ctr: ctrKey},
		{Op: "stoppod", Pod: podKey},
		{Op: "removepod", Pod: podKey},
	}
	for _, s := range seq {
		rep := r.Do(s)
		if r.Broken {
			return
		}
		if rep.Err != "" && s.Op == "create" {
			// balloons has no CPUs set aside for the reserved balloon while it is empty: when accepted hostile creates
			// hold every CPU, refusing one more container is correct behaviour, not a damaged plugin.
			if sn := r.Inst.BlnSnap(); sn != nil && len(sn.FreeCpus) == 0 && strings.Contains(rep.Err, "not enough free CPUs") {
				r.Count("c14_canary_refused_for_capacity")
				for _, op := range []string{"stoppod", "removepod"} {
					if r.Do(&Step{Op: op, Pod: podKey}); r.Broken {
						return
					}
				}
				return
			}
		}
		if rep.Err != "" {
			r.Violate("C14", "canary-refused", s.Op+"-after-"+after, "after a hostile %s the benign request %s failed: %s", after, s.Op, trunc(rep.Err, 300))
			return
		}
	}
	r.Count("c14_canaries_ok")
}

// RunHostileHistory: a short benign prefix, then hostile requests each followed (sometimes) by
// a canary; panics are violations, refusals must leave the plugin serviceable.
func RunHostileHistory(o HistOpts) *HistResult {
	rng := sysgen.NewRNG(o.Seed)
	mach := Machine()
	g := NewGen(rng, mach, o.Policy)
	g.MaxCtrs, g.MaxPods = 4, 3
	g.NoReconf = true
	res := &HistResult{Hist: o.Hist, Seed: o.Seed, Machine: mach.Name, Policy: o.Policy, Stats: map[string]int{}, Seen: map[string][]string{}}
	var cfg *Config
	var inst *Inst
	var err error
	stateDir := filepath.Join(o.WorkDir, fmt.Sprintf("state-%d", o.Hist))
	for try := 0; try < 8; try++ {
		cfg = g.Config()
		os.RemoveAll(stateDir)
		if inst, err = NewInst(stateDir, cfg); err == nil {
			break
		}
	}
	if err != nil {
		res.StartErr = err.Error()
		return res
	}
	defer os.RemoveAll(stateDir)
	res.Cfg = cfg.Clone()
	r := NewRunner(inst, NewModel(mach.TotalMemBytes()), o.Hist)
	r.Props = map[string]bool{"C14": true}
	r.Hostile = true
	r.LogF = o.LogF
	defer func() { r.Inst.Close() }()
	// A Go "fatal error" (stack overflow, concurrent map access, ...) or os.Exit kills the process and no recover()
	// sees it: the witness of the history so far, including the call about to be made, is on disk before every call.
	r.PreStep = func(*Step) {
		if o.WorkDir == "" {
			return
		}
		cur := *res
		cur.Steps = r.Steps
		if b, err := json.Marshal(&cur); err == nil {
			tmp := filepath.Join(o.WorkDir, "current-case.json.tmp")
			if os.WriteFile(tmp, b, 0o644) == nil {
				os.Rename(tmp, filepath.Join(o.WorkDir, "current-case.json"))
			}
		}
	}
	for i := 0; i < 6 && !r.Broken; i++ {
		s := g.NextStep(r)
		if s.Op == "create" {
			s.MemLim, s.MemReq = 0, 0
			if s.Req > 500 {
				s.Req, s.Lim = 100, 100
			}
		}
		r.Do(s)
	}
	// pods whose affinity annotations are syntactically well-formed expressions over every operator and value count:
	// what passes validation is evaluated against the sibling containers when those are created
	for n := 1; n <= 2 && !r.Broken; n++ {
		pk := fmt.Sprintf("aff%d", n)
		r.Do(&Step{Op: "runpod", Pod: pk, NS: sysgen.Pick(rng, []string{"default", "ns-a"}), QoS: "Burstable", Labels: map[string]string{"tier": "perf"},
			Ann: map[string]string{nsKey + "/affinity": g.structuredAffinity(), nsKey + "/anti-affinity": g.structuredAffinity()}})
		for i, name := range []string{"c0", "c1", "c2"} {
			if r.Broken {
				break
			}
			r.Do(&Step{Op: "create", Pod: pk, Ctr: fmt.Sprintf("%s.%d", pk, i), Name: name, Req: 100, Lim: 200, MemLim: 64 << 20, MemReq: 32 << 20})
			r.Count("c14_creates_under_structured_affinity")
		}
	}
	nc := 0
	for i := 0; i < o.Steps && !r.Broken; i++ {
		s := g.HostileStep(r)
		hc := &HostileCall{}
		_ = json.Unmarshal(s.Raw, hc)
		rep := r.Do(s)
		r.See("C14", fmt.Sprintf("%s|%s|%v|%d", o.Policy, hc.Handler, rep.Err != "", len(s.Raw)/64))
		if r.Broken {
			break
		}
		if rng.Chance(1, 3) {
			nc++
			r.canary(nc, hc.Handler)
		}
	}
	collect(r, res)
	res.Stats["histories"]++
	return res
}
