package rmdrv

import (
	"encoding/json"
	"fmt"
	"io"
	"os"
	"path/filepath"
	"strings"
)

// Replay re-executes a recorded history (witness file) and returns the monitor firings.
func Replay(res *HistResult, work string, w io.Writer) []Violation {
	stateDir := filepath.Join(work, "state")
	os.RemoveAll(stateDir)
	inst, err := NewInst(stateDir, res.Cfg)
	if err != nil {
		fmt.Fprintf(w, "instance failed to start: %v\n", err)
		return nil
	}
	defer func() { inst.Close() }()
	r := NewRunner(inst, NewModel(Machine().TotalMemBytes()), res.Hist)
	for _, s := range res.Steps {
		if s.Op == "hostile" {
			r.Hostile = true
		}
	}
	for i, s := range res.Steps {
		nv := len(r.Viol)
		rep := r.Do(s)
		fmt.Fprintf(w, "step %d: %s\n   -> err=%q\n", i+1, s.String(), rep.Err)
		if rep.Adjust != nil {
			if res := rep.Adjust.GetLinux().GetResources(); res != nil {
				fmt.Fprintf(w, "      adjust: cpus=%q mems=%q shares=%v\n", res.GetCpu().GetCpus(), res.GetCpu().GetMems(), res.GetCpu().GetShares().GetValue())
			}
		}
		ups := rep.Updates
		for _, p := range rep.Pushed {
			ups = append(ups, p...)
		}
		for _, u := range ups {
			res := u.GetLinux().GetResources()
			k := u.GetContainerId()
			if c := r.M.CtrByID(k); c != nil {
				k = c.Key
			}
			fmt.Fprintf(w, "      update %s: cpus=%q mems=%q shares=%v\n", k, res.GetCpu().GetCpus(), res.GetCpu().GetMems(), res.GetCpu().GetShares().GetValue())
		}
		if d := os.Getenv("VERIF_DUMP"); d != "" && (d == "all" || strings.Contains(","+d+",", fmt.Sprintf(",%d,", i+1))) {
			if sn := r.Inst.BlnSnap(); sn != nil {
				b, _ := json.Marshal(sn)
				fmt.Fprintf(w, "      balloons: %s\n", b)
			}
			if sn := r.Inst.TASnap(); sn != nil {
				b, _ := json.Marshal(sn)
				fmt.Fprintf(w, "      topology-aware: %s\n", b)
			}
		}
		for _, v := range r.Viol[nv:] {
			fmt.Fprintf(w, "   !! %s/%s [%s]: %s\n", v.Prop, v.Check, v.Sig, v.Msg)
		}
		if r.Broken {
			break
		}
	}
	if !r.Broken {
		LeakCheck(r, filepath.Join(work, "twin"))
	}
	return r.Viol
}
