package rmdrv

import (
	"encoding/json"
	"fmt"
	"os"
	"path/filepath"
	"sort"
	"strings"

	"github.com/containerd/nri/pkg/api"
	"verif/harness/sysgen"
)

// Obs is the externally observable state after a request: per-container cache resources,
// advertised zones, and the policy's plain-data snapshot.
type Obs struct {
	Ctrs  map[string]Res `json:"ctrs"`  // by container key, every cached container the model knows
	Zones []string       `json:"zones"` // GetTopologyZones rendered
	Snap  string         `json:"snap"`  // policy snapshot rendered (assignments)
	Pend  int            `json:"pend"`
	Hid   string         `json:"hid"` // hidden state that steers later decisions
}

func (r *Runner) Observe() *Obs {
	o := &Obs{Ctrs: map[string]Res{}}
	for _, k := range r.M.CtrKeys() {
		c := r.M.Ctrs[k]
		if cr, ok := r.cacheRes(c.ID); ok {
			o.Ctrs[k] = cr
		}
	}
	for _, z := range r.Inst.RM.Policy().GetTopologyZones() {
		var parts []string
		for _, res := range z.Resources {
			parts = append(parts, fmt.Sprintf("%s:%s/%s/%s", res.Name, res.Capacity.String(), res.Allocatable.String(), res.Available.String()))
		}
		for _, a := range z.Attributes {
			parts = append(parts, a.Name+"="+a.Value)
		}
		o.Zones = append(o.Zones, fmt.Sprintf("%s<%s|%s: %s", z.Name, z.Parent, z.Type, strings.Join(parts, ",")))
	}
	sort.Strings(o.Zones)
	switch r.Inst.Policy {
	case PolTA:
		b, _ := json.Marshal(r.Inst.TASnap())
		o.Snap = string(b)
	case PolBalloons:
		s := r.Inst.BlnSnap()
		// definitions are configuration, not assignments: keep balloons and free CPUs
		var bl []string
		for _, b := range s.Balloons {
			pods, _ := json.Marshal(b.Pods)
			bl = append(bl, fmt.Sprintf("%s[%d] cpus=%v idle=%v mems=%v pods=%s", b.Def, b.Instance, b.Cpus, b.SharedIdleCpus, b.Mems, pods))
		}
		o.Snap = strings.Join(bl, ";") + fmt.Sprintf(" free=%v allowed=%v reserved=%v", s.FreeCpus, s.Allowed, s.Reserved)
	}
	var mems []string
	for _, q := range r.memRequests() {
		mems = append(mems, fmt.Sprintf(" mem[%s]=%x/%d", q.ID, uint64(q.Zone), q.Size))
	}
	sort.Strings(mems)
	o.Snap += strings.Join(mems, "")
	o.Pend = len(r.Inst.RM.PendingIDs())
	o.Hid = r.Inst.Hidden()
	return o
}

func diffObs(a, b *Obs) []string {
	var d []string
	for k, ra := range a.Ctrs {
		rb, ok := b.Ctrs[k]
		if !ok {
			d = append(d, fmt.Sprintf("container %s no longer cached", k))
			continue
		}
		if ra != rb {
			d = append(d, fmt.Sprintf("container %s resources %+v -> %+v", k, ra, rb))
		}
	}
	for k := range b.Ctrs {
		if _, ok := a.Ctrs[k]; !ok {
			d = append(d, fmt.Sprintf("container %s appeared in the cache", k))
		}
	}
	if strings.Join(a.Zones, "\n") != strings.Join(b.Zones, "\n") {
		for i := range a.Zones {
			if i >= len(b.Zones) || a.Zones[i] != b.Zones[i] {
				other := "<missing>"
				if i < len(b.Zones) {
					other = b.Zones[i]
				}
				d = append(d, fmt.Sprintf("advertised zone differs: %q -> %q", a.Zones[i], other))
				break
			}
		}
		if len(b.Zones) != len(a.Zones) {
			d = append(d, fmt.Sprintf("number of advertised zones %d -> %d", len(a.Zones), len(b.Zones)))
		}
	}
	if a.Snap != b.Snap {
		d = append(d, "policy assignments differ: "+firstDiff(a.Snap, b.Snap))
	}
	if a.Hid != b.Hid {
		d = append(d, "policy-internal state that steers later decisions differs: "+firstDiff(a.Hid, b.Hid))
	}
	return d
}

func firstDiff(a, b string) string {
	i := 0
	for i < len(a) && i < len(b) && a[i] == b[i] {
		i++
	}
	lo := i - 60
	if lo < 0 {
		lo = 0
	}
	ha, hb := i+80, i+80
	if ha > len(a) {
		ha = len(a)
	}
	if hb > len(b) {
		hb = len(b)
	}
	return fmt.Sprintf("...%s  ->  ...%s", a[lo:ha], b[lo:hb])
}

// c13Before is called before a reconfiguration request, c13After after it.
func (r *Runner) c13Before(s *Step) *Obs {
	if !r.Enabled("C13") {
		return nil
	}
	// containers that already had no allocation before this request are not this request's doing
	r.NoAlloc = map[string]bool{}
	h := r.holders()
	for _, c := range r.LiveCtrs() {
		if _, ok := h[c.ID]; !ok {
			r.NoAlloc[c.Key] = true
		}
	}
	return r.Observe()
}

func pushChanges(r *Runner, before map[string]Res, pushed [][]*api.ContainerUpdate, cacheBefore map[string]Res) []string {
	// a push "carries a changed value" if applying it changes the runtime's view of a container
	// whose runtime view was in line with the cache before (flushing changes an earlier failed
	// request left undelivered is that request's defect, not the reconfiguration's)
	var d []string
	for _, k := range r.M.CtrKeys() {
		c := r.M.Ctrs[k]
		if cb, ok := cacheBefore[k]; ok {
			b := before[k]
			if (cb.Cpus != "" && !sameSetStr(cb.Cpus, b.Cpus)) || (cb.Mems != "" && !sameSetStr(cb.Mems, b.Mems)) || cb.Shares != b.Shares {
				continue
			}
		}
		if b, ok := before[k]; ok && c.Live() && b != c.Shadow {
			d = append(d, fmt.Sprintf("%s runtime view %+v -> %+v", k, b, c.Shadow))
		}
	}
	return d
}

func (r *Runner) c13After(s *Step, rep *Reply, before *Obs, shadowBefore map[string]Res) {
	if before == nil || rep.Panic != "" {
		return
	}
	after := r.Observe()
	kind := "change"
	if s.Cfg != nil && s.Cfg.Note != "" {
		kind = s.Cfg.Note
	}
	switch {
	case rep.Err != "":
		r.Count("c13_rejected_checked")
		if r.BrokenStateSuffix() == "" {
			r.Count("c13_rejected_checked_in_clean_state")
		}
		r.Count("c13_rejected_" + strings.TrimPrefix(kind, "invalid:"))
		r.See("C13", fmt.Sprintf("rej|%s|%s|%s", Machine().Name, kind, r.stateShape()))
		d := diffObs(before, after)
		if len(rep.Pushed) > 0 {
			if pc := pushChanges(r, shadowBefore, rep.Pushed, before.Ctrs); len(pc) > 0 {
				d = append(d, "updates pushed to the runtime: "+strings.Join(pc, "; "))
			}
		}
		if after.Pend > 0 {
			d = append(d, fmt.Sprintf("%d containers left with undelivered changes", after.Pend))
		}
		if len(d) > 0 {
			sg := r.Inst.Policy + ":" + kind
			if !strings.HasPrefix(kind, "invalid:") {
				sg = r.Inst.Policy + ":valid-config-rejected"
			}
			// which parts of the observation changed: the known non-atomic rejection (KF3/KF6) is about container
			// resources, assignments and their delivery, not about policy-internal state that steers later decisions
			var tags []string
			for _, t := range []struct{ tag, marker string }{{"containers", "container "}, {"zones", "advertised zone"}, {"assignments", "policy assignments differ"},
				{"hidden", "policy-internal state"}, {"pushed", "updates pushed"}, {"pending", "undelivered changes"}} {
				for _, x := range d {
					if strings.Contains(x, t.marker) {
						tags = append(tags, t.tag)
						break
					}
				}
			}
			sg += ":changed=" + strings.Join(tags, "+")
			sg += r.BrokenStateSuffix()
			r.Violate("C13", "rejected-not-atomic", sg, "rejected configuration (%s: %s) changed state: %s", kind, trunc(rep.Err, 160), strings.Join(d, " | "))
		}
	case kind == "same":
		r.Count("c13_identical_checked")
		if r.BrokenStateSuffix() == "" {
			r.Count("c13_identical_checked_in_clean_state")
		}
		if len(r.LiveCtrs()) > 0 {
			r.See("C13", fmt.Sprintf("same|%s|%s", Machine().Name, r.stateShape()))
		}
		var d []string
		for k, ra := range before.Ctrs {
			if rb, ok := after.Ctrs[k]; ok && ra != rb {
				d = append(d, fmt.Sprintf("container %s cache resources %+v -> %+v", k, ra, rb))
			}
		}
		d = append(d, pushChanges(r, shadowBefore, rep.Pushed, before.Ctrs)...)
		if len(d) > 0 {
			r.Violate("C13", "not-idempotent", r.Inst.Policy+r.BrokenStateSuffix(), "re-applying the unchanged configuration changed container resources: %s", strings.Join(d, " | "))
		}
	default:
		r.Count("c13_accepted_checked")
		r.See("C13", fmt.Sprintf("acc|%s|%s", Machine().Name, r.stateShape()))
	}
	if rep.Err == "" {
		// after an accepted update every created/running container still holds an allocation
		h := r.holders()
		for _, c := range r.LiveCtrs() {
			if r.Inst.Policy == PolBalloons && (r.cpuPreserveAnn(c) || r.blnPreserveRule(c)) {
				continue
			}
			if _, ok := h[c.ID]; !ok {
				if !r.NoAlloc[c.Key] {
					r.Violate("C13", "lost-allocation", r.Inst.Policy+":"+kind, "after accepted reconfiguration (%s) %s container %s holds no allocation", kind, c.State, c.Key)
				}
			}
		}
	}
}

func trunc(s string, n int) string {
	if len(s) > n {
		return s[:n] + "..."
	}
	return s
}

// ---------------- differential twins ----------------

type stepObs struct {
	Shadows string
	Err     bool
	Adjust  string
	Updates []string
	State   *Obs
}

func renderRes(r *api.LinuxResources) string {
	if r == nil {
		return "-"
	}
	return fmt.Sprintf("cpus=%s mems=%s sh=%v q=%v p=%v ml=%v", r.GetCpu().GetCpus(), r.GetCpu().GetMems(), r.GetCpu().GetShares().GetValue(),
		r.GetCpu().GetQuota().GetValue(), r.GetCpu().GetPeriod().GetValue(), r.GetMemory().GetLimit().GetValue())
}

func observeStep(r *Runner, rep *Reply) stepObs {
	so := stepObs{Err: rep.Err != "" || rep.Panic != ""}
	if rep.Adjust != nil {
		so.Adjust = renderRes(rep.Adjust.GetLinux().GetResources())
	}
	ups := rep.Updates
	for _, p := range rep.Pushed {
		ups = append(ups, p...)
	}
	for _, u := range ups {
		k := u.GetContainerId()
		if c := r.M.CtrByID(k); c != nil {
			k = c.Key
		}
		so.Updates = append(so.Updates, k+":"+renderRes(u.GetLinux().GetResources()))
	}
	sort.Strings(so.Updates)
	so.State = r.Observe()
	for _, c := range r.LiveCtrs() {
		so.Shadows += fmt.Sprintf("%s=%+v;", c.Key, c.Shadow)
	}
	return so
}

func sameStepObs(a, b stepObs) []string {
	var d []string
	if a.Err != b.Err {
		d = append(d, fmt.Sprintf("request outcome differs (failed: %v vs %v)", a.Err, b.Err))
	}
	// Decisions are compared by their effect: the resources every container ends up with in
	// the cache and at the runtime, and the advertised capacities. Extra updates that re-tell
	// unchanged values are not decisions.
	d = append(d, diffObs(a.State, b.State)...)
	if a.Shadows != b.Shadows {
		d = append(d, "runtime view differs: "+firstDiff(a.Shadows, b.Shadows))
	}
	return d
}

// replaySteps runs the steps on a fresh instance, optionally injecting a step before index k.
func replaySteps(o HistOpts, cfg *Config, steps []*Step, inject *Step, k int, tag string) ([]stepObs, *Runner, *Reply, error) {
	stateDir := filepath.Join(o.WorkDir, fmt.Sprintf("state-%d-%s", o.Hist, tag))
	os.RemoveAll(stateDir)
	inst, err := NewInst(stateDir, cfg)
	if err != nil {
		return nil, nil, nil, err
	}
	defer os.RemoveAll(stateDir)
	r := NewRunner(inst, NewModel(Machine().TotalMemBytes()), o.Hist)
	r.Props = map[string]bool{"C13": true, "C14": true}
	defer inst.Close()
	var obs []stepObs
	var injRep *Reply
	for i, s := range steps {
		if inject != nil && i == k {
			injRep = r.Do(cloneStep(inject))
			if r.Broken {
				break
			}
		}
		rep := r.Do(cloneStep(s))
		obs = append(obs, observeStep(r, rep))
		if r.Broken {
			break
		}
	}
	return obs, r, injRep, nil
}

func cloneStep(s *Step) *Step {
	b, _ := json.Marshal(s)
	n := &Step{}
	_ = json.Unmarshal(b, n)
	return n
}

// RunTwinHistory: B1 generates and runs a history without the rejected update, B2 replays it
// (self-twin calibration), A replays it with a rejected update injected at step k. A must be
// indistinguishable from B1 at every later step.
func RunTwinHistory(o HistOpts) *HistResult {
	rng := sysgen.NewRNG(o.Seed)
	mach := Machine()
	g := NewGen(rng, mach, o.Policy)
	g.applyBias(o.Bias)
	g.NoSync = true // Synchronize re-allocates in map order: never deterministic
	res := &HistResult{Hist: o.Hist, Seed: o.Seed, Machine: mach.Name, Policy: o.Policy, Stats: map[string]int{}, Seen: map[string][]string{}}
	var cfg *Config
	var inst *Inst
	var err error
	stateDir := filepath.Join(o.WorkDir, fmt.Sprintf("state-%d-b1", o.Hist))
	for try := 0; try < 8; try++ {
		cfg = g.Config()
		os.RemoveAll(stateDir)
		if inst, err = NewInst(stateDir, cfg); err == nil {
			break
		}
	}
	if err != nil {
		res.StartErr = err.Error()
		return res
	}
	res.Cfg = cfg.Clone()
	r := NewRunner(inst, NewModel(mach.TotalMemBytes()), o.Hist)
	r.Props = map[string]bool{"C13": true, "C14": true}
	var b1 []stepObs
	for i := 0; i < o.Steps && !r.Broken; i++ {
		s := g.NextStep(r)
		if s.Op == "reconf" && s.Expect == "reject" {
			continue // the reference run never sees a rejected update
		}
		rep := r.Do(s)
		b1 = append(b1, observeStep(r, rep))
	}
	steps := r.Steps
	collect(r, res)
	inst.Close()
	os.RemoveAll(stateDir)
	res.Stats["histories"]++
	if r.Broken || len(steps) < 4 {
		return res
	}
	b2, _, _, err := replaySteps(o, cfg, steps, nil, 0, "b2")
	if err != nil || len(b2) != len(b1) {
		res.Stats["c13_twin_nondeterministic"]++
		return res
	}
	for i := range b1 {
		if d := sameStepObs(b1[i], b2[i]); len(d) > 0 {
			res.Stats["c13_twin_nondeterministic"]++
			return res
		}
	}
	res.Stats["c13_twin_deterministic"]++
	// inject a rejected update at a PRNG-chosen boundary, with the configuration in force there
	k := 1 + rng.Intn(len(steps)-1)
	cur := cfg
	for _, s := range steps[:k] {
		if s.Op == "reconf" && s.Cfg != nil {
			// only accepted ones changed the configuration; B1 recorded the outcome
			cur = s.Cfg
		}
	}
	// find out which reconfs were accepted in B1
	cur = cfg
	for i, s := range steps[:k] {
		if s.Op == "reconf" && s.Cfg != nil && !b1[i].Err {
			cur = s.Cfg
		}
	}
	bad := g.InvalidConfig(cur)
	inj := &Step{Op: "reconf", Cfg: bad, Expect: "reject"}
	a, ra, injRep, err := replaySteps(o, cfg, steps, inj, k, "a")
	if err != nil || injRep == nil {
		return res
	}
	if ra != nil {
		for _, v := range ra.Viol {
			if v.Prop == "C13" || v.Prop == "C14" {
				res.Viol = append(res.Viol, v)
			}
		}
	}
	if injRep.Err == "" {
		res.Stats["c13_twin_invalid_config_accepted"]++
		res.Stats["c13_accepted_"+InvalidKind(bad)]++
		return res
	}
	res.Stats["c13_twin_injected"]++
	if ra != nil && ra.BrokenStateSuffix() == "" {
		res.Stats["c13_twin_injected_in_clean_state"]++
	}
	res.Stats["c13_twin_rejected_"+InvalidKind(bad)]++
	res.Seen["C13"] = append(res.Seen["C13"], fmt.Sprintf("twin|%s|%d|%s|%d", mach.Name, o.Hist, InvalidKind(bad), k))
	for i := k; i < len(b1) && i < len(a); i++ {
		d := sameStepObs(b1[i], a[i])
		if len(d) == 0 {
			continue
		}
		// confirm reproducibility before reporting
		a2, _, _, err := replaySteps(o, cfg, steps, inj, k, "a2")
		if err != nil || i >= len(a2) || len(sameStepObs(a[i], a2[i])) > 0 {
			res.Stats["c13_twin_unconfirmed"]++
			break
		}
		// and the reference once more: a third run of the unmodified history must still
		// agree with the first at this step, otherwise the history is not deterministic
		b3, _, _, err := replaySteps(o, cfg, steps, nil, 0, "b3")
		if err != nil || i >= len(b3) || len(sameStepObs(b1[i], b3[i])) > 0 {
			res.Stats["c13_twin_unconfirmed"]++
			res.Stats["c13_twin_nondeterministic_late"]++
			break
		}
		// Allocation order inside one request depends on Go map iteration (e.g. the order in which
		// a balloon's containers are re-pinned), so a coin-flip tie can make all runs of one
		// variant agree by chance. Demand 4 more agreeing pairs before believing a divergence.
		strong := true
		for rep := 0; rep < 4 && strong; rep++ {
			bx, _, _, e1 := replaySteps(o, cfg, steps, nil, 0, fmt.Sprintf("bx%d", rep))
			ax, _, _, e2 := replaySteps(o, cfg, steps, inj, k, fmt.Sprintf("ax%d", rep))
			if e1 != nil || e2 != nil || i >= len(bx) || i >= len(ax) || len(sameStepObs(b1[i], bx[i])) > 0 || len(sameStepObs(a[i], ax[i])) > 0 {
				strong = false
			}
		}
		if !strong {
			res.Stats["c13_twin_unconfirmed"]++
			res.Stats["c13_twin_nondeterministic_late"]++
			break
		}
		res.Steps = append(append(append([]*Step{}, steps[:k]...), inj), steps[k:]...)
		res.Viol = append(res.Viol, Violation{Prop: "C13", Check: "rejected-changes-later-decisions", Sig: o.Policy + ":" + bad.Note + ra.BrokenStateSuffix(),
			Msg: fmt.Sprintf("history with a rejected update (%s) injected before step %d diverges from the twin that never saw it at step %d (%s): %s",
				bad.Note, k+1, i+1, steps[i].Op, strings.Join(d, " | ")), Step: i + 1, Hist: o.Hist, Op: steps[i].Op})
		break
	}
	return res
}
