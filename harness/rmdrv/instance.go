package rmdrv

import (
	"encoding/json"
	"fmt"
	"github.com/containerd/nri/pkg/api"
	"io"
	"os"
	"sync"
	"sync/atomic"

	balloons "github.com/containers/nri-plugins/cmd/plugins/balloons/policy"
	topologyaware "github.com/containers/nri-plugins/cmd/plugins/topology-aware/policy"
	"github.com/containers/nri-plugins/pkg/agent"
	cfgapi "github.com/containers/nri-plugins/pkg/apis/config/v1alpha1"
	blncfg "github.com/containers/nri-plugins/pkg/apis/config/v1alpha1/resmgr/policy/balloons"
	tacfg "github.com/containers/nri-plugins/pkg/apis/config/v1alpha1/resmgr/policy/topologyaware"
	"github.com/containers/nri-plugins/pkg/kubernetes"
	"github.com/containers/nri-plugins/pkg/log/klogcontrol"
	"github.com/containers/nri-plugins/pkg/resmgr"
	"github.com/containers/nri-plugins/pkg/resmgr/cache"
	libmem "github.com/containers/nri-plugins/pkg/resmgr/lib/memory"
	"github.com/containers/nri-plugins/pkg/resmgr/policy"
	metav1 "k8s.io/apimachinery/pkg/apis/meta/v1"
	"k8s.io/klog/v2"

	"verif/harness/sysgen"
)

const (
	PolTA       = "topology-aware"
	PolBalloons = "balloons"
)

// Config is the harness' configuration value: exactly one of TA / Bln is set.
type Config struct {
	Policy string         `json:"policy"`
	TA     *tacfg.Config  `json:"ta,omitempty"`
	Bln    *blncfg.Config `json:"bln,omitempty"`
	Gen    int64          `json:"gen"`
	Note   string         `json:"note,omitempty"` // how it was generated (e.g. rejection kind)
	Common *CommonCfg     `json:"common,omitempty"`
}

// CommonCfg is the policy-independent part of the configuration the harness varies.
type CommonCfg struct {
	RDTQoSDefault     bool `json:"rdt_qos_default,omitempty"`     // control.rdt.enable + usePodQoSAsDefaultClass
	BlockIOQoSDefault bool `json:"blockio_qos_default,omitempty"` // control.blockio.enable + usePodQoSAsDefaultClass
	PrometheusExport  bool `json:"prometheus_export,omitempty"`   // instrumentation.prometheusExport (no HTTP endpoint): the metrics gatherer and its lock exist
}

func (c *Config) Clone() *Config {
	b, _ := json.Marshal(c)
	n := &Config{}
	_ = json.Unmarshal(b, n)
	return n
}

func (c *Config) JSON() string { b, _ := json.Marshal(c); return string(b) }

// ResmgrConfig turns the harness config into the custom-resource object the agent would deliver.
func (c *Config) ResmgrConfig() cfgapi.ResmgrConfig {
	meta := metav1.ObjectMeta{Name: "default", Generation: c.Gen, UID: "verif-uid"}
	switch c.Policy {
	case PolTA:
		obj := &cfgapi.TopologyAwarePolicy{ObjectMeta: meta}
		// deep copy through JSON so the policy never shares memory with the monitor's copy
		b, _ := json.Marshal(c.TA)
		_ = json.Unmarshal(b, &obj.Spec.Config)
		if cc := c.Common; cc != nil {
			obj.Spec.Control.RDT.Enable, obj.Spec.Control.RDT.UsePodQoSAsDefaultClass = cc.RDTQoSDefault, cc.RDTQoSDefault
			obj.Spec.Control.BlockIO.Enable, obj.Spec.Control.BlockIO.UsePodQoSAsDefaultClass = cc.BlockIOQoSDefault, cc.BlockIOQoSDefault
			obj.Spec.Instrumentation.PrometheusExport = cc.PrometheusExport
		}
		return obj
	case PolBalloons:
		obj := &cfgapi.BalloonsPolicy{ObjectMeta: meta}
		b, _ := json.Marshal(c.Bln)
		_ = json.Unmarshal(b, &obj.Spec.Config)
		if cc := c.Common; cc != nil {
			obj.Spec.Control.RDT.Enable, obj.Spec.Control.RDT.UsePodQoSAsDefaultClass = cc.RDTQoSDefault, cc.RDTQoSDefault
			obj.Spec.Control.BlockIO.Enable, obj.Spec.Control.BlockIO.UsePodQoSAsDefaultClass = cc.BlockIOQoSDefault, cc.BlockIOQoSDefault
			obj.Spec.Instrumentation.PrometheusExport = cc.PrometheusExport
		}
		return obj
	}
	return nil
}

// Inst is one life of the plugin on a state directory.
type Inst struct {
	Policy   string
	RM       *resmgr.VerifRM
	Backend  policy.Backend
	StateDir string
	Cfg      *Config // last accepted configuration (monitor's copy)
	Agent    *agent.Agent
	// counted by the push hook
	Pushes, PushesOutsideLock atomic.Int64
}

var (
	procMu      sync.Mutex
	procMachine *sysgen.Machine
	procRoot    string
)

// BindMachine binds the process to one machine description (sysfs root, memory capacity).
func BindMachine(m *sysgen.Machine, root string) error {
	procMu.Lock()
	defer procMu.Unlock()
	if procMachine != nil && procMachine.Name != m.Name {
		return fmt.Errorf("process already bound to machine %s", procMachine.Name)
	}
	if _, err := os.Stat(root + "/sys/devices/system/cpu/online"); err != nil {
		if err := m.Write(root); err != nil {
			return err
		}
	}
	procMachine, procRoot = m, root
	kubernetes.SetMemoryCapacity(m.TotalMemBytes())
	return nil
}

func Machine() *sysgen.Machine { return procMachine }

var quietOnce sync.Once

// Quiet turns logging off (the default stderr logging costs most of the run time).
func Quiet() {
	quietOnce.Do(func() {
		ctl := klogcontrol.Get()
		_ = ctl.Set("logtostderr", "false")
		_ = ctl.Set("alsologtostderr", "false")
		_ = ctl.Set("stderrthreshold", "FATAL")
		klog.SetOutput(io.Discard)
	})
}

// NewInst creates and starts a plugin instance on stateDir with the given configuration.
func NewInst(stateDir string, cfg *Config) (*Inst, error) {
	if procMachine == nil {
		return nil, fmt.Errorf("no machine bound")
	}
	var (
		backend policy.Backend
		cfgIf   agent.ConfigInterface
	)
	switch cfg.Policy {
	case PolTA:
		topologyaware.VerifResetGlobals()
		backend = topologyaware.New()
		cfgIf = agent.TopologyAwareConfigInterface()
	case PolBalloons:
		backend = balloons.New()
		cfgIf = agent.BalloonsConfigInterface()
	default:
		return nil, fmt.Errorf("unknown policy %q", cfg.Policy)
	}
	agt, err := agent.New(cfgIf, agent.WithConfigFile("/dev/null"))
	if err != nil {
		return nil, err
	}
	resmgr.VerifSetOptions(procRoot, stateDir)
	rm, err := resmgr.VerifNew(backend, agt)
	if err != nil {
		return nil, err
	}
	if err := rm.VerifStart(cfg.ResmgrConfig()); err != nil {
		rm.VerifShutdown()
		return nil, fmt.Errorf("start: %w", err)
	}
	inst := &Inst{Policy: cfg.Policy, RM: rm, Backend: backend, StateDir: stateDir, Cfg: cfg.Clone(), Agent: agt}
	// Hook on the unsolicited-update path: a push belongs to the request that produced it, so the pipeline lock must
	// be held while it is sent (otherwise another request can be processed between deciding and telling the runtime).
	rm.Stub.OnPush = func(u []*api.ContainerUpdate) {
		inst.Pushes.Add(1)
		if rm.TryLock() {
			rm.Unlock()
			inst.PushesOutsideLock.Add(1)
		}
	}
	return inst, nil
}

func (i *Inst) Close() {
	if i != nil && i.RM != nil {
		i.RM.VerifShutdown()
	}
}

func (i *Inst) Allocator() *libmem.Allocator {
	if i.Policy == PolTA {
		return topologyaware.VerifAllocator(i.Backend)
	}
	return balloons.VerifAllocator(i.Backend)
}

func (i *Inst) TASnap() *topologyaware.VerifSnap { return topologyaware.VerifSnapshot(i.Backend) }
func (i *Inst) BlnSnap() *balloons.VerifSnap     { return balloons.VerifSnapshot(i.Backend) }

// Hidden renders policy state that is not an assignment but steers later decisions.
func (i *Inst) Hidden() string {
	imp := fmt.Sprintf(" implicit-affinities=%v", cache.VerifImplicitAffinities(i.RM.Cache()))
	if i.Policy == PolTA {
		return topologyaware.VerifHidden(i.Backend) + imp
	}
	return balloons.VerifHidden(i.Backend) + imp
}
