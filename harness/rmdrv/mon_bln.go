package rmdrv

import (
	"fmt"
	"sort"
	"strings"

	balloons "github.com/containers/nri-plugins/cmd/plugins/balloons/policy"
)

type BlnMon struct{}

// blnTypeOf returns the balloon (snapshot copy) the container is a member of.
func (r *Runner) blnTypeOf(c *MCtr) *balloons.VerifBalloon {
	s := r.Inst.BlnSnap()
	if s == nil {
		return nil
	}
	for i := range s.Balloons {
		b := &s.Balloons[i]
		for _, ids := range b.Pods {
			for _, id := range ids {
				if id == c.ID {
					return b
				}
			}
		}
	}
	return nil
}

func (r *Runner) blnAllowed() IntSet {
	cfg := r.Inst.Cfg.Bln
	if a, ok := cfg.AvailableResources["cpu"]; ok && strings.HasPrefix(string(a), "cpuset:") {
		return SetOf(MustList(strings.TrimPrefix(string(a), "cpuset:")))
	}
	return SetOf(Machine().OnlineCPUs())
}

func (r *Runner) hideHT(c *MCtr, b *balloons.VerifBalloon) bool {
	if v, ok := r.eff(c, "hide-hyperthreads"); ok {
		if bv, valid := boolAnn(v, true); valid {
			return bv
		}
	}
	return b.HideHyperthreads != nil && *b.HideHyperthreads
}

func (r *Runner) monBln(s *Step, rep *Reply) {
	snap := r.Inst.BlnSnap()
	if snap == nil {
		return
	}
	cfg := r.Inst.Cfg.Bln
	m := Machine()
	allowed := r.blnAllowed()
	isolated := SetOf(m.Isolated)
	name := func(b *balloons.VerifBalloon) string { return fmt.Sprintf("%s[%d]", b.Def, b.Instance) }
	sigOp := r.opSig(s)
	if r.LastFailed {
		sigOp += "-failed"
	}

	// partition
	inBalloon := IntSet{}
	for i := range snap.Balloons {
		b := &snap.Balloons[i]
		bc := SetOf(b.Cpus)
		if !bc.SubsetOf(allowed) {
			r.Violate("C02", "outside-available", sigOp, "after %s: balloon %s has CPUs %s outside the available set %s", s.Op, name(b), bc.Minus(allowed), allowed)
		}
		if x := bc.Inter(inBalloon); len(x) > 0 {
			r.Violate("C02", "balloon-overlap", sigOp, "after %s: CPUs %s of balloon %s also belong to another balloon", s.Op, x, name(b))
		}
		inBalloon = inBalloon.Union(bc)
	}
	idle := allowed.Minus(inBalloon)
	if free := SetOf(snap.FreeCpus); !free.Equal(idle) {
		r.Violate("C02", "free-ledger", sigOp, "after %s: free CPUs %s != available minus balloons %s", s.Op, free, idle)
	}

	// limits per type
	byDef := map[string][]*balloons.VerifBalloon{}
	for i := range snap.Balloons {
		b := &snap.Balloons[i]
		byDef[b.Def] = append(byDef[b.Def], b)
	}
	for _, d := range snap.Defs {
		n := len(byDef[d.Name])
		if n < d.MinBalloons {
			r.Violate("C02", "min-balloons", sigOp, "after %s: type %s has %d instances, minBalloons=%d", s.Op, d.Name, n, d.MinBalloons)
		}
		if d.MaxBalloons > 0 && n > d.MaxBalloons {
			r.Violate("C02", "max-balloons", sigOp, "after %s: type %s has %d instances, maxBalloons=%d", s.Op, d.Name, n, d.MaxBalloons)
		}
		// user-defined limits must be the configured ones
		for _, ud := range cfg.BalloonDefs {
			if ud.Name == d.Name && d.Name != "reserved" && d.Name != "default" {
				if ud.MinCpus != d.MinCpus || ud.MaxCpus != d.MaxCpus || ud.MinBalloons != d.MinBalloons || ud.MaxBalloons != d.MaxBalloons {
					r.Violate("C02", "def-drift", sigOp, "type %s: effective limits %+v differ from configured %d/%d/%d/%d", d.Name, d, ud.MinCpus, ud.MaxCpus, ud.MinBalloons, ud.MaxBalloons)
				}
			}
		}
	}

	classes := r.CPUClasses()
	classOf := map[int]string{}
	classCnt := map[int]int{}
	for cl, cpus := range classes {
		for _, c := range cpus {
			classOf[c] = cl
			classCnt[c]++
		}
	}

	members := map[string][]string{} // container id -> balloons
	nonEmpty := 0
	for i := range snap.Balloons {
		b := &snap.Balloons[i]
		bc := SetOf(b.Cpus)
		ib := SetOf(b.SharedIdleCpus)
		nmem := 0
		for _, ids := range b.Pods {
			nmem += len(ids)
			for _, id := range ids {
				members[id] = append(members[id], name(b))
			}
		}
		if len(bc) < b.MinCpus {
			r.Violate("C02", "min-cpus", sigOp, "after %s: balloon %s has %d CPUs, minCPUs=%d", s.Op, name(b), len(bc), b.MinCpus)
		}
		if b.MaxCpus > 0 && len(bc) > b.MaxCpus {
			r.Violate("C02", "max-cpus", sigOp, "after %s: balloon %s has %d CPUs, maxCPUs=%d", s.Op, name(b), len(bc), b.MaxCpus)
		}
		if nmem > 0 {
			nonEmpty++
			if len(bc) < 1 {
				r.Violate("C02", "nonempty-no-cpu", sigOp, "after %s: balloon %s has %d containers but no CPU", s.Op, name(b), nmem)
			}
			// requests as the model knows them (kubelet-encoded and reconstructed)
			sum := 0
			for _, ids := range b.Pods {
				for _, id := range ids {
					if c := r.M.CtrByID(id); c != nil {
						// the kubelet encoding (shares, quota) gives a request back to within 1-2 mCPU (C20): a lower bound
						if m := sharesToMilli(MilliCPUToShares(int64(c.ReqMilli))) - 2; m > 0 {
							sum += m
						}
					}
				}
			}
			if 1000*len(bc) < sum {
				r.Violate("C02", "undersized", sigOp, "after %s: balloon %s has %d CPUs for %dm requested", s.Op, name(b), len(bc), sum)
			}
		}
		// shared idle CPUs
		if x := ib.Inter(inBalloon); len(x) > 0 {
			r.Violate("C02", "idle-in-balloon", sigOp, "after %s: shared idle CPUs %s of %s belong to a balloon", s.Op, x, name(b))
		}
		if x := ib.Inter(isolated); len(x) > 0 {
			r.Violate("C02", "idle-isolated", sigOp, "after %s: shared idle CPUs %s of %s are kernel-isolated", s.Op, x, name(b))
		}
		if !ib.SubsetOf(allowed) {
			r.Violate("C02", "idle-outside-available", sigOp, "after %s: shared idle CPUs %s of %s are outside the available set", s.Op, ib.Minus(allowed), name(b))
		}
		level := b.ShareIdleCpusInSame
		if level == "" {
			if len(ib) > 0 && nmem > 0 {
				r.Violate("C02", "idle-without-scope", sigOp, "after %s: balloon %s shares idle CPUs %s although no sharing scope is configured", s.Op, name(b), ib)
			}
		} else if len(bc) > 0 {
			want := IntSet{}
			for cpu := range bc {
				for _, u := range m.Unit(level, cpu) {
					if idle.Has(u) && !isolated.Has(u) {
						want[u] = struct{}{}
					}
				}
			}
			if !want.SubsetOf(ib) {
				r.Violate("C02", "idle-missing", sigOp, "after %s: balloon %s (scope %s, cpus %s) does not share idle CPUs %s (shares %s)", s.Op, name(b), level, bc, want.Minus(ib), ib)
			}
			r.Count("c02_idle_scope_checked")
		}
		// CPU classes
		for cpu := range bc {
			if classCnt[cpu] > 1 {
				r.Violate("C02", "class-dup", sigOp, "CPU %d is assigned to more than one CPU class", cpu)
			}
			if got, ok := classOf[cpu]; !ok || got != b.CpuClass {
				r.Violate("C02", "class-balloon", sigOp, "after %s: CPU %d of balloon %s carries class %q, the balloon's class is %q", s.Op, cpu, name(b), got, b.CpuClass)
			}
		}
	}
	for cpu := range idle {
		if got, ok := classOf[cpu]; !ok || got != snap.IdleCpuClass {
			r.Violate("C02", "class-idle", sigOp, "after %s: idle CPU %d carries class %q, the idle class is %q", s.Op, cpu, got, snap.IdleCpuClass)
		}
	}

	// containers
	pinCPU := cfg.PinCPU == nil || *cfg.PinCPU
	for _, c := range r.LiveCtrs() {
		managed := !r.cpuPreserveAnn(c) && !r.blnPreserveRule(c)
		bl := members[c.ID]
		if !managed {
			if len(bl) > 0 {
				r.Violate("C02", "preserved-in-balloon", sigOp, "after %s: preserved container %s is a member of %v", s.Op, c.Key, bl)
			}
			continue
		}
		if len(bl) != 1 {
			r.Violate("C02", "membership", sigOp, "after %s: managed container %s belongs to %d balloons %v", s.Op, c.Key, len(bl), bl)
			continue
		}
		b := r.blnTypeOf(c)
		if b == nil || !pinCPU || r.NoShadow {
			continue
		}
		want := SetOf(b.Cpus).Union(SetOf(b.SharedIdleCpus))
		got := SetOf(MustList(c.Shadow.Cpus))
		if r.hideHT(c, b) {
			r.Count("c02_hidden_ht_checked")
			ok := got.SubsetOf(want)
			cores := map[[2]int]int{}
			for cpu := range want {
				cores[m.CoreKey(cpu)] = 0
			}
			for cpu := range got {
				cores[m.CoreKey(cpu)]++
			}
			for _, n := range cores {
				if n != 1 {
					ok = false
				}
			}
			if !ok {
				r.Violate("C02", "cpuset-hidden-ht", sigOp, "after %s: %s (hyperthreads hidden) is told %q, expected one thread per core of %s", s.Op, c.Key, c.Shadow.Cpus, want)
			}
		} else if !got.Equal(want) {
			r.Violate("C02", "cpuset", sigOp, "after %s: %s in %s is told %q, balloon CPUs %s + shared idle %s", s.Op, c.Key, name(b), c.Shadow.Cpus, SetOf(b.Cpus), SetOf(b.SharedIdleCpus))
		}
	}
	for id, bl := range members {
		if c := r.M.CtrByID(id); c == nil || !c.Live() {
			_ = bl // reported by C09's per-step monitor
		}
	}
	if nonEmpty >= 1 && len(r.LiveCtrs()) >= 2 {
		var sh []string
		for i := range snap.Balloons {
			b := &snap.Balloons[i]
			n := 0
			for _, ids := range b.Pods {
				n += len(ids)
			}
			sh = append(sh, fmt.Sprintf("%s:%d:%d:%d", b.Def, len(b.Cpus), len(b.SharedIdleCpus), n))
		}
		sort.Strings(sh)
		r.See("C02", fmt.Sprintf("%s|g%d|%s", m.Name, r.Inst.Cfg.Gen, strings.Join(sh, ",")))
		r.Count("c02_states_nonempty")
	}
}
