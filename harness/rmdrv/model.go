// Package rmdrv drives a real resource-manager instance with a runtime model that plays
// containerd, and monitors the properties after every request.
package rmdrv

import (
	"fmt"
	"sort"
	"strconv"
	"strings"

	"github.com/containerd/nri/pkg/api"
	"google.golang.org/protobuf/proto"
)

const (
	StNone    = ""
	StCreated = "created"
	StRunning = "running"
	StStopped = "stopped"
	StRemoved = "removed"
	StFailed  = "failed" // CreateContainer returned an error: the runtime never created it
)

// Res is the runtime's view of a container's resources ("shadow").
type Res struct {
	Cpus   string `json:"cpus"`
	Mems   string `json:"mems"`
	Shares uint64 `json:"shares"`
	Quota  int64  `json:"quota"`
	Period uint64 `json:"period"`
	MemLim int64  `json:"memlim"`
	Swap   int64  `json:"swap"`
}

type MPod struct {
	Key    string            `json:"key"`
	ID     string            `json:"id"`
	UID    string            `json:"uid"`
	Name   string            `json:"name"`
	NS     string            `json:"ns"`
	QoS    string            `json:"qos"` // Guaranteed | Burstable | BestEffort
	Ann    map[string]string `json:"ann,omitempty"`
	Labels map[string]string `json:"labels,omitempty"`
	State  string            `json:"state"` // running | stopped | removed
}

type MCtr struct {
	Key      string `json:"key"`
	ID       string `json:"id"`
	Pod      string `json:"pod"` // pod key
	Name     string `json:"name"`
	State    string `json:"state"`
	ReqMilli int    `json:"req"`
	LimMilli int    `json:"lim"`
	MemLim   int64  `json:"memlim"`
	MemReq   int64  `json:"memreq"`
	Swap     int64  `json:"swap,omitempty"`
	OomAdj   int64  `json:"oomadj"`
	InitCpus string `json:"initcpus,omitempty"`
	InitMems string `json:"initmems,omitempty"`
	Shadow   Res    `json:"shadow"`
	// what the plugin ever told
	CpusTold bool `json:"cpus_told"`
	MemsTold bool `json:"mems_told"`
	// bookkeeping for monitors
	EverUpdated bool `json:"ever_updated,omitempty"`
	UpdFailed   bool `json:"upd_failed,omitempty"` // last UpdateContainer for it failed
	Seq         int  `json:"seq"`
}

// Model is the runtime model.
type Model struct {
	Pods   map[string]*MPod
	Ctrs   map[string]*MCtr
	NextID int
	MemCap int64 // node memory capacity used for the kubelet oom_score_adj formula
}

func NewModel(memCap int64) *Model {
	return &Model{Pods: map[string]*MPod{}, Ctrs: map[string]*MCtr{}, MemCap: memCap}
}

func (m *Model) PodKeys() []string {
	var k []string
	for key := range m.Pods {
		k = append(k, key)
	}
	sort.Strings(k)
	return k
}

func (m *Model) CtrKeys() []string {
	var k []string
	for key := range m.Ctrs {
		k = append(k, key)
	}
	sort.Strings(k)
	return k
}

func (m *Model) CtrByID(id string) *MCtr {
	for _, c := range m.Ctrs {
		if c.ID == id {
			return c
		}
	}
	return nil
}

func (m *Model) PodCtrs(podKey string) []*MCtr {
	var r []*MCtr
	for _, k := range m.CtrKeys() {
		if m.Ctrs[k].Pod == podKey {
			r = append(r, m.Ctrs[k])
		}
	}
	return r
}

// Live tells whether the runtime considers the container created or running.
func (c *MCtr) Live() bool { return c.State == StCreated || c.State == StRunning }

func qosCgroupParent(p *MPod) string {
	switch p.QoS {
	case "BestEffort":
		return "/kubepods.slice/kubepods-besteffort.slice/kubepods-besteffort-pod" + p.UID + ".slice"
	case "Burstable":
		return "/kubepods.slice/kubepods-burstable.slice/kubepods-burstable-pod" + p.UID + ".slice"
	}
	return "/kubepods.slice/kubepods-pod" + p.UID + ".slice"
}

// APIPod builds a fresh api.PodSandbox (deep copy every time: the cache keeps the pointer).
func (m *Model) APIPod(p *MPod) *api.PodSandbox {
	ann := map[string]string{}
	for k, v := range p.Ann {
		ann[k] = v
	}
	lab := map[string]string{}
	for k, v := range p.Labels {
		lab[k] = v
	}
	return &api.PodSandbox{
		Id:          p.ID,
		Name:        p.Name,
		Uid:         p.UID,
		Namespace:   p.NS,
		Labels:      lab,
		Annotations: ann,
		Linux:       &api.LinuxPodSandbox{CgroupParent: qosCgroupParent(p)},
	}
}

// MilliCPUToShares re-implements the kubelet encoding (independent of the code under test).
func MilliCPUToShares(m int64) uint64 {
	if m == 0 {
		return 2
	}
	s := m * 1024 / 1000
	if s < 2 {
		return 2
	}
	if s > 262144 {
		return 262144
	}
	return uint64(s)
}

func milliToQuota(m int64) (int64, uint64) {
	if m == 0 {
		return 0, 0
	}
	q := m * 100000 / 1000
	if q < 1000 {
		q = 1000
	}
	return q, 100000
}

// OomAdj computes the kubelet oom_score_adj for a container.
func (m *Model) OomAdj(qos string, memReq int64) int64 {
	switch qos {
	case "Guaranteed":
		return -997
	case "BestEffort":
		return 1000
	}
	adj := 1000 - (1000*memReq)/m.MemCap
	if adj < 3 {
		adj = 3
	}
	if adj > 999 {
		adj = 999
	}
	return adj
}

func stateToAPI(s string) api.ContainerState {
	switch s {
	case StCreated:
		return api.ContainerState_CONTAINER_CREATED
	case StRunning:
		return api.ContainerState_CONTAINER_RUNNING
	case StStopped:
		return api.ContainerState_CONTAINER_STOPPED
	}
	return api.ContainerState_CONTAINER_UNKNOWN
}

// SpecRes is the creation-time resources of the container as the kubelet encodes them.
func (m *Model) SpecRes(c *MCtr) Res {
	r := Res{Cpus: c.InitCpus, Mems: c.InitMems, MemLim: c.MemLim, Swap: c.Swap}
	r.Shares = MilliCPUToShares(int64(c.ReqMilli))
	r.Quota, r.Period = milliToQuota(int64(c.LimMilli))
	return r
}

func resToAPI(r Res) *api.LinuxResources {
	lr := &api.LinuxResources{
		Cpu:    &api.LinuxCPU{Cpus: r.Cpus, Mems: r.Mems},
		Memory: &api.LinuxMemory{},
	}
	lr.Cpu.Shares = api.UInt64(r.Shares)
	if r.Quota != 0 {
		lr.Cpu.Quota = api.Int64(r.Quota)
	}
	if r.Period != 0 {
		lr.Cpu.Period = api.UInt64(r.Period)
	}
	if r.MemLim != 0 {
		lr.Memory.Limit = api.Int64(r.MemLim)
	}
	if r.Swap != 0 {
		lr.Memory.Swap = api.Int64(r.Swap)
	}
	return lr
}

// APICtr builds a fresh api.Container carrying the runtime's current (shadow) resources.
func (m *Model) APICtr(c *MCtr, useShadow bool) *api.Container {
	p := m.Pods[c.Pod]
	res := m.SpecRes(c)
	if useShadow {
		res = c.Shadow
	}
	ctr := &api.Container{
		Id:           c.ID,
		PodSandboxId: "",
		Name:         c.Name,
		State:        stateToAPI(c.State),
		Labels:       map[string]string{"io.kubernetes.container.name": c.Name},
		Annotations:  map[string]string{},
		Args:         []string{"/bin/sleep", "inf"},
		Env:          []string{"PATH=/bin"},
		Linux: &api.LinuxContainer{
			Resources:   resToAPI(res),
			OomScoreAdj: api.Int(int(c.OomAdj)),
			CgroupsPath: "",
		},
	}
	if p != nil {
		ctr.PodSandboxId = p.ID
		ctr.Linux.CgroupsPath = qosCgroupParent(p) + "/cri-containerd-" + c.ID + ".scope"
	} else {
		ctr.PodSandboxId = "unknown-" + c.Pod
	}
	return ctr
}

// Apply folds NRI resources into the shadow, with NRI semantics: absent/empty = no change.
func (c *MCtr) Apply(r *api.LinuxResources) {
	if r == nil {
		return
	}
	if cpu := r.GetCpu(); cpu != nil {
		if cpu.Cpus != "" {
			if cpu.Cpus != c.Shadow.Cpus {
				c.CpusTold = true
			}
			c.Shadow.Cpus = cpu.Cpus
		}
		if cpu.Mems != "" {
			c.Shadow.Mems = cpu.Mems
			c.MemsTold = true
		}
		if cpu.Shares != nil {
			c.Shadow.Shares = cpu.Shares.GetValue()
		}
		if cpu.Quota != nil {
			c.Shadow.Quota = cpu.Quota.GetValue()
		}
		if cpu.Period != nil {
			c.Shadow.Period = cpu.Period.GetValue()
		}
	}
	if mem := r.GetMemory(); mem != nil {
		if mem.Limit != nil {
			c.Shadow.MemLim = mem.Limit.GetValue()
		}
		if mem.Swap != nil {
			c.Shadow.Swap = mem.Swap.GetValue()
		}
	}
}

// Clone helpers for api objects.
func ClonePod(p *api.PodSandbox) *api.PodSandbox { return proto.Clone(p).(*api.PodSandbox) }
func CloneCtr(c *api.Container) *api.Container   { return proto.Clone(c).(*api.Container) }

// ---- small cpuset helpers (independent of the repository's cpuset package) ----

func ParseList(s string) ([]int, error) {
	s = strings.TrimSpace(s)
	if s == "" {
		return nil, nil
	}
	var out []int
	for _, part := range strings.Split(s, ",") {
		part = strings.TrimSpace(part)
		if part == "" {
			continue
		}
		if i := strings.Index(part, "-"); i > 0 {
			lo, err1 := strconv.Atoi(part[:i])
			hi, err2 := strconv.Atoi(part[i+1:])
			if err1 != nil || err2 != nil || hi < lo {
				return nil, fmt.Errorf("bad range %q", part)
			}
			for x := lo; x <= hi; x++ {
				out = append(out, x)
			}
		} else {
			x, err := strconv.Atoi(part)
			if err != nil {
				return nil, fmt.Errorf("bad id %q", part)
			}
			out = append(out, x)
		}
	}
	sort.Ints(out)
	// dedupe
	j := 0
	for i, x := range out {
		if i == 0 || x != out[j-1] {
			out[j] = x
			j++
		}
	}
	return out[:j], nil
}

func MustList(s string) []int {
	l, err := ParseList(s)
	if err != nil {
		return nil
	}
	return l
}

type IntSet map[int]struct{}

func SetOf(xs []int) IntSet {
	s := IntSet{}
	for _, x := range xs {
		s[x] = struct{}{}
	}
	return s
}
func (s IntSet) Has(x int) bool { _, ok := s[x]; return ok }
func (s IntSet) List() []int {
	var r []int
	for x := range s {
		r = append(r, x)
	}
	sort.Ints(r)
	return r
}
func (s IntSet) Inter(o IntSet) IntSet {
	r := IntSet{}
	for x := range s {
		if o.Has(x) {
			r[x] = struct{}{}
		}
	}
	return r
}
func (s IntSet) Union(o IntSet) IntSet {
	r := IntSet{}
	for x := range s {
		r[x] = struct{}{}
	}
	for x := range o {
		r[x] = struct{}{}
	}
	return r
}
func (s IntSet) Minus(o IntSet) IntSet {
	r := IntSet{}
	for x := range s {
		if !o.Has(x) {
			r[x] = struct{}{}
		}
	}
	return r
}
func (s IntSet) SubsetOf(o IntSet) bool {
	for x := range s {
		if !o.Has(x) {
			return false
		}
	}
	return true
}
func (s IntSet) Equal(o IntSet) bool { return len(s) == len(o) && s.SubsetOf(o) }
func (s IntSet) String() string {
	l := s.List()
	var parts []string
	for i := 0; i < len(l); {
		j := i
		for j+1 < len(l) && l[j+1] == l[j]+1 {
			j++
		}
		if j == i {
			parts = append(parts, strconv.Itoa(l[i]))
		} else {
			parts = append(parts, fmt.Sprintf("%d-%d", l[i], l[j]))
		}
		i = j + 1
	}
	return strings.Join(parts, ",")
}
