// Package libdrv holds the drivers of the "lib" engine: direct calls of public package
// APIs of containers/nri-plugins on generated inputs, each with an independent oracle.
//
// Every property driver lives in its own file and registers itself from init():
//
//	func init() { Register("C06", runC06) }
//
// A driver receives a *Ctx, generates its cases from ctx.RNG (derived from seed and shard
// only: no wall-clock, no global rand), reports what it observed through ctx.Count/See/
// Sample and every oracle failure through ctx.Violate. It must never panic: calls into the
// code under test that may panic are wrapped with ctx.Guard.
package libdrv

import (
	"encoding/json"
	"fmt"
	"os"
	"path/filepath"
	"runtime/debug"
	"sort"
	"strings"

	"verif/harness/sysgen"
)

type Violation struct {
	Prop    string          `json:"prop"`
	Check   string          `json:"check"` // short stable id of the oracle clause that failed
	Sig     string          `json:"sig"`   // names the failing call site / input class (matched against known-findings)
	Msg     string          `json:"msg"`
	Witness string          `json:"witness"` // replay file
	Case    json.RawMessage `json:"case,omitempty"`
}

type Out struct {
	Prop        string            `json:"prop"`
	Seed        uint64            `json:"seed"`
	Shard       int               `json:"shard"`
	N           int               `json:"n"`
	Tier        string            `json:"tier"`
	Done        bool              `json:"done"`
	Evaluations int               `json:"evaluations"`
	Stats       map[string]int    `json:"stats"`
	Seen        []string          `json:"seen"`
	Distinct    int               `json:"distinct"`
	Exhaustive  bool              `json:"exhaustive,omitempty"`
	Violations  []Violation       `json:"violations"`
	Samples     []json.RawMessage `json:"samples"`
}

type Ctx struct {
	Prop    string
	Seed    uint64
	Shard   int
	Shards  int
	N       int    // size knob: number of cases (meaning is per driver)
	Tier    string // quick | thorough
	Work    string // scratch directory (removed by the orchestrator)
	RNG     *sysgen.RNG
	Replay  string // if set: re-run only the case stored in this file and print what the oracle says
	Out     *Out
	seen    map[string]struct{}
	vkeys   map[string]int
	Verbose bool
}

type Driver func(ctx *Ctx)

var drivers = map[string]Driver{}

func Register(prop string, d Driver) { drivers[prop] = d }

func Drivers() []string {
	var k []string
	for p := range drivers {
		k = append(k, p)
	}
	sort.Strings(k)
	return k
}

func NewCtx(prop string, seed uint64, shard, shards, n int, tier, work string) *Ctx {
	return &Ctx{Prop: prop, Seed: seed, Shard: shard, Shards: shards, N: n, Tier: tier, Work: work,
		RNG:  sysgen.NewRNG(seed*1000003 + uint64(shard)*7919 + hashStr(prop)),
		Out:  &Out{Prop: prop, Seed: seed, Shard: shard, N: n, Tier: tier, Stats: map[string]int{}},
		seen: map[string]struct{}{}, vkeys: map[string]int{}}
}

func hashStr(s string) uint64 {
	var h uint64 = 1469598103934665603
	for i := 0; i < len(s); i++ {
		h ^= uint64(s[i])
		h *= 1099511628211
	}
	return h
}

func Run(ctx *Ctx) error {
	d, ok := drivers[ctx.Prop]
	if !ok {
		return fmt.Errorf("no driver for %s (have %v)", ctx.Prop, Drivers())
	}
	d(ctx)
	for h := range ctx.seen {
		ctx.Out.Seen = append(ctx.Out.Seen, h)
	}
	sort.Strings(ctx.Out.Seen)
	ctx.Out.Distinct = len(ctx.Out.Seen)
	if len(ctx.Out.Seen) > 20000 { // keep result files small; the count is what matters
		ctx.Out.Seen = ctx.Out.Seen[:20000]
	}
	ctx.Out.Done = true
	return nil
}

// Count adds to a named counter of observed events.
func (c *Ctx) Count(key string) { c.Out.Stats[key]++ }
func (c *Ctx) Add(key string, n int) { c.Out.Stats[key] += n }

// Eval counts one evaluation (one call of the code under test checked by the oracle).
func (c *Ctx) Eval() { c.Out.Evaluations++ }

// See records a distinct non-trivial case by its hash/fingerprint.
func (c *Ctx) See(h string) { c.seen[h] = struct{}{} }

// Sample keeps up to three example cases verbatim for the evidence file.
func (c *Ctx) Sample(v interface{}) {
	if len(c.Out.Samples) >= 3 {
		return
	}
	b, err := json.Marshal(v)
	if err == nil {
		c.Out.Samples = append(c.Out.Samples, b)
	}
}

// Violate records an oracle failure. cs is the failing case: it is written to a witness
// file that `lib --prop <P> --replay <file>` must be able to re-run. At most 3 reports per
// (check, sig) are kept per process.
func (c *Ctx) Violate(check, sig string, cs interface{}, format string, args ...interface{}) {
	key := check + "|" + sig
	c.vkeys[key]++
	c.Count("violations_" + check)
	if c.vkeys[key] > 3 {
		return
	}
	msg := fmt.Sprintf(format, args...)
	b, _ := json.Marshal(cs)
	w := ""
	if c.Work != "" {
		os.MkdirAll(c.Work, 0o755)
		w = filepath.Join(c.Work, fmt.Sprintf("witness-%s-%s-%d-%d-%d.json", c.Prop, sanitize(check), c.Seed, c.Shard, len(c.Out.Violations)))
		wb, _ := json.MarshalIndent(map[string]interface{}{"prop": c.Prop, "check": check, "sig": sig, "msg": msg, "case": json.RawMessage(b)}, "", " ")
		os.WriteFile(w, wb, 0o644)
	}
	c.Out.Violations = append(c.Out.Violations, Violation{Prop: c.Prop, Check: check, Sig: sig, Msg: msg, Witness: w, Case: b})
	if c.Replay != "" || c.Verbose {
		fmt.Printf("MONITOR property=%s check=%s sig=%s: %s\n", c.Prop, check, sig, msg)
	}
}

func sanitize(s string) string {
	return strings.Map(func(r rune) rune {
		if r >= 'a' && r <= 'z' || r >= 'A' && r <= 'Z' || r >= '0' && r <= '9' || r == '-' {
			return r
		}
		return '_'
	}, s)
}

// Guard runs fn and converts a panic into (message, stack-site).
func Guard(fn func()) (panicMsg, site string) {
	defer func() {
		if e := recover(); e != nil {
			panicMsg = fmt.Sprintf("%v", e)
			site = PanicSite(string(debug.Stack()))
		}
	}()
	fn()
	return "", ""
}

// PanicSite returns the first repository frame below the panic.
func PanicSite(stack string) string {
	lines := strings.Split(stack, "\n")
	seenPanic := false
	for _, l := range lines {
		if strings.HasPrefix(l, "panic(") {
			seenPanic = true
			continue
		}
		if seenPanic && strings.Contains(l, "github.com/containers/nri-plugins/") {
			fn := strings.TrimSpace(l)
			if j := strings.LastIndex(fn, "("); j > 0 {
				fn = fn[:j]
			}
			return strings.TrimPrefix(fn, "github.com/containers/nri-plugins/")
		}
	}
	return "unknown"
}

// LoadCase reads the "case" member of a witness file into v.
func LoadCase(path string, v interface{}) error {
	data, err := os.ReadFile(path)
	if err != nil {
		return err
	}
	var w struct {
		Case json.RawMessage `json:"case"`
	}
	if err := json.Unmarshal(data, &w); err != nil {
		return err
	}
	return json.Unmarshal(w.Case, v)
}
