package libdrv

// C16 — hardware discovery is faithful and the topology-aware pool tree is well-formed on
// every machine.
//
// Code under test: pkg/sysfs (DiscoverSystemAt and every accessor of sysfs.System / CPU / Node /
// CPUPackage / Cache) and cmd/plugins/topology-aware/policy (Backend.Setup: checkConstraints,
// buildPoolsByTopology, getCpuSupply, getMemSupply, getClosestSpecialMem; GetTopologyZones).
//
// The oracle is the machine model M (sysgen.Machine) that generated the sysfs tree, never the
// discovered system: every expected value below is computed from M and the configuration only.
//
// Part A, fidelity (check ids "fidelity-sys|cpu|cache|pkg|node|sets", sig = accessor name):
//   system : CPUIDs CPUSet CPUCount Possible/Present/Online/Offline(Offlined)/Isolated(IsolatedCPUs),
//            PackageIDs PackageCount SocketCount NodeIDs NUMANodeCount Min/MaxThreadCount,
//            CoreKinds CoreKindCPUs, FilterNodes(NodeHasMemory | NodeHasLocalCPUs)
//   cpu    : (online CPUs) ID PackageID DieID ClusterID NodeID CoreID ThreadCPUSet Online Isolated
//            BaseFrequency FrequencyRange EPP CoreKind; (offline CPUs) only Online()==false
//   cache  : CacheCount, GetCaches (D12), GetCacheByIndex (level, type, size, id, SharedCPUSet),
//            GetCachesByLevel(1..4), GetNthLevelCacheCPUSet(1..3), GetLastLevelCaches,
//            GetLastLevelCacheCPUSet
//   pkg    : ID CPUSet DieIDs NodeIDs DieCPUSet DieNodeIDs DieClusterIDs DieClusterCPUSet
//   node   : ID CPUSet Distance DistanceFrom sys.NodeDistance MemoryInfo (bytes = kB*1024)
//            HasNormalMemory PackageID/DieID (CPU nodes) GetMemoryType Node.ClosestNodes
//            sys.ClosestNodes(NodeHasLocalCPUs)
//   sets   : AllThreadsForCPUs SingleThreadForCPUs AllCPUsSharingNthLevelCacheWithCPUs(2)
//            NodeHintToCPUs on 4 sampled sets per machine
//   The memory TYPE is compared only where the documented size heuristic (system.go: "a node with
//   only memory and no CPUs is PMEM or HBM; smaller than the average DRAM per node = HBM, else
//   PMEM") is unambiguous: the average is computed with and without memory-less CPU nodes in the
//   divisor and with and without integer truncation; if the four readings differ the node is
//   skipped (counter memtype_ambiguous). A node whose CPUs are all offline is CPU-less by that
//   heuristic (the generator's Node.Type says DRAM for it; the disagreement is only counted).
//   A failing discovery is check "discover-error" (sig = input class).
//
// Part B, pool tree, on every configuration Backend.Setup accepts (rejections are counted):
//   setup-panic        Setup / GetTopologyZones must not panic
//   single-root        exactly one pool without parent, and it is the policy's root
//   virtual-root       a "virtual node" pool exists iff M has > 1 package with online CPUs
//   tree-shape         multiset of (kind, ids, parent) == expected tree: sockets; die pools iff the
//                      socket has > 1 die; NUMA pools iff the parent has > 1 NUMA node with online
//                      CPUs, except nodes without memory (folded into the parent)
//   pool-cpus          isolated ∪ reserved ∪ sharable == (online CPUs of the unit in M) ∩ available
//   split-disjoint     the three sets are pairwise disjoint
//   isolated-set       isolated == kernel-isolated ∩ available ∩ unit
//   reserved-set       reserved == reserved CPUs ∩ unit (cpuset form: the configured set; quantity
//                      form: the policy's own pick, which must have ceil(q) CPUs, all available and
//                      none kernel-isolated: reserved-quantity)
//   siblings-disjoint  children of one parent have pairwise disjoint CPUs
//   parent-contains    parent CPUs ⊇ union of the children's
//   root-cpus          root CPUs == available ∩ online
//   root-memory        every node with memory is in the root's memory set
//   mem-subset         child memory set ⊆ parent memory set
//   mem-local          (documentation: pools get the memory of their own NUMA nodes) the CPU-bearing
//                      nodes with memory in a pool's memory set == those of its unit in M
//   special-attach     a CPU-less node with memory is in a non-root pool's memory set iff the pool's
//                      unit contains one of the CPU-bearing nodes closest to it by M's distances
//   memset-type        DRAM/PMEM/HBM lists agree with the heuristic type (where unambiguous)
//   zones-agree        GetTopologyZones: same names/parents/types as the snapshot, "shared cpuset",
//                      "reserved cpuset", "isolated cpuset", "memory set" equal the snapshot's sets
//   Not pinned: which CPUs a reserved *quantity* picks, pool order, pool depth, pool names beyond
//   the kind and the numeric ids they carry.
//
// Generation: machines = sysgen.Catalogue() + N machines from sysgen.Random(ctx.RNG.Fork(), ..,
// maxCPUs) with maxCPUs 64 (quick) / 128 (thorough). Per machine 3 (quick) / 5 (thorough)
// configurations: the first is "all online CPUs, reserved = lowest non-isolated CPU" (so that every
// machine has one accepted setup), the others draw available ∈ {absent, random subset of online}
// and reserved ∈ {cpuset inside available and not isolated, quantity 500m..3, and with small
// probability a quantity that cannot be satisfied or a cpuset outside available to exercise the
// rejection path}. A reserved cpuset that is kernel-isolated is never generated (excluded by C16).
//
// Generator artefact repaired here (sysgen may not be edited): when L2Cluster does not divide the
// cores per node, sysgen lets an L2 domain straddle a NUMA node / die boundary; no hardware does
// that and cpuallocator answers with a deliberate sanity panic inside Setup. c16SplitL2AtNodes
// splits such domains at the node boundary before the tree is written (counter
// machines_l2_split_at_node_boundary); the repaired M is the oracle.
//
// N = number of random machines. Evaluations = accessor comparisons + discoveries + setups.
// See() rule: one fingerprint per (machine shape parameters, configuration class) for accepted
// setups whose tree has at least 2 pools.
// Replay: a witness without "config" re-runs discovery + Part A on its machine; one with "config"
// re-runs discovery + exactly that Setup (Part B only).
// Stats time_write_us / time_discover_us / time_setup_us are wall-clock measurements (evidence
// only, no decision depends on them). Writing the tree dominates on a disk-backed work directory
// (~0.4 s per machine against ~10 ms on tmpfs): give this driver a tmpfs --work.

import (
	"fmt"
	"os"
	"path/filepath"
	"regexp"
	"sort"
	"strconv"
	"strings"
	"time"

	topologyaware "github.com/containers/nri-plugins/cmd/plugins/topology-aware/policy"
	tacfg "github.com/containers/nri-plugins/pkg/apis/config/v1alpha1/resmgr/policy/topologyaware"
	"github.com/containers/nri-plugins/pkg/resmgr/cache"
	policyapi "github.com/containers/nri-plugins/pkg/resmgr/policy"
	"github.com/containers/nri-plugins/pkg/sysfs"
	"github.com/containers/nri-plugins/pkg/utils/cpuset"

	"verif/harness/sysgen"
)

func init() { Register("C16", runC16) }

type c16Config struct {
	HasAvail bool   `json:"has_avail"`
	Avail    []int  `json:"avail,omitempty"`
	Reserved string `json:"reserved"` // "cpuset:<list>" or a quantity
	Class    string `json:"class"`
}

// c16Case is the replayable case. sysgen.Machine tags both NodesPer and Nodes as json "nodes", so
// encoding/json silently drops both; they are carried separately and restored on load.
type c16Case struct {
	Machine  *sysgen.Machine `json:"machine"`
	Nodes    []sysgen.Node   `json:"machine_nodes"`
	NodesPer int             `json:"machine_nodes_per_die"`
	Config   *c16Config      `json:"config,omitempty"`      // nil: fidelity only
	Prev     *c16Config      `json:"prev_config,omitempty"` // set: Setup(Prev) then Reconfigure(Config)
}

func c16NewCase(m *sysgen.Machine, cfg *c16Config) *c16Case {
	return &c16Case{Machine: m, Nodes: m.Nodes, NodesPer: m.NodesPer, Config: cfg}
}

// ---------------------------------------------------------------- int-set helpers

func c16Set(xs []int) map[int]bool {
	s := make(map[int]bool, len(xs))
	for _, x := range xs {
		s[x] = true
	}
	return s
}

func c16Sorted(xs []int) []int {
	s := c16Set(xs)
	r := make([]int, 0, len(s))
	for x := range s {
		r = append(r, x)
	}
	sort.Ints(r)
	return r
}

func c16Eq(a, b []int) bool {
	a, b = c16Sorted(a), c16Sorted(b)
	if len(a) != len(b) {
		return false
	}
	for i := range a {
		if a[i] != b[i] {
			return false
		}
	}
	return true
}

func c16Inter(a, b []int) []int {
	sb := c16Set(b)
	var r []int
	for _, x := range c16Sorted(a) {
		if sb[x] {
			r = append(r, x)
		}
	}
	return r
}

func c16Diff(a, b []int) []int {
	sb := c16Set(b)
	var r []int
	for _, x := range c16Sorted(a) {
		if !sb[x] {
			r = append(r, x)
		}
	}
	return r
}

func c16Union(xs ...[]int) []int {
	var all []int
	for _, x := range xs {
		all = append(all, x...)
	}
	return c16Sorted(all)
}

func c16Subset(a, b []int) bool { return len(c16Diff(a, b)) == 0 }

func c16L(xs []int) string {
	if len(xs) == 0 {
		return "{}"
	}
	return "{" + sysgen.CPUList(xs) + "}"
}

// c16ParseList parses "0-3,8" / "0,1,2" / "" into a sorted id list.
func c16ParseList(s string) ([]int, error) {
	s = strings.TrimSpace(s)
	if s == "" {
		return nil, nil
	}
	var r []int
	for _, part := range strings.Split(s, ",") {
		part = strings.TrimSpace(part)
		if i := strings.Index(part, "-"); i > 0 {
			lo, e1 := strconv.Atoi(part[:i])
			hi, e2 := strconv.Atoi(part[i+1:])
			if e1 != nil || e2 != nil || hi < lo {
				return nil, fmt.Errorf("bad range %q", part)
			}
			for x := lo; x <= hi; x++ {
				r = append(r, x)
			}
		} else {
			x, err := strconv.Atoi(part)
			if err != nil {
				return nil, fmt.Errorf("bad id %q", part)
			}
			r = append(r, x)
		}
	}
	return c16Sorted(r), nil
}

// ---------------------------------------------------------------- the model view of M

type c16Model struct {
	m        *sysgen.Machine
	all      []int
	online   []int
	offline  []int
	isolated []int
	pkgs     []int // packages with online CPUs
	pkgCPUs  map[int][]int
	pkgDies  map[int][]int
	pkgNodes map[int][]int
	dieCPUs  map[[2]int][]int
	dieNodes map[[2]int][]int
	clusters map[[2]int][]int // (pkg,die) -> cluster ids
	clCPUs   map[[3]int][]int // (pkg,die,cluster) -> CPUs
	nodeCPUs map[int][]int    // online CPUs per node
	memNodes []int            // nodes with MemKB > 0
	cpuNodes []int            // nodes with online CPUs
	special  []int            // nodes with memory and no online CPU
	memType  map[int]string   // heuristic type; "" = ambiguous or undefined
	feat     map[string]bool
}

func c16NewModel(m *sysgen.Machine) *c16Model {
	mod := &c16Model{m: m, pkgCPUs: map[int][]int{}, pkgDies: map[int][]int{}, pkgNodes: map[int][]int{},
		dieCPUs: map[[2]int][]int{}, dieNodes: map[[2]int][]int{}, clusters: map[[2]int][]int{},
		clCPUs: map[[3]int][]int{}, nodeCPUs: map[int][]int{}, memType: map[int]string{}, feat: map[string]bool{}}
	for _, c := range m.CPUs {
		mod.all = append(mod.all, c.ID)
		if !c.Online {
			mod.offline = append(mod.offline, c.ID)
			continue
		}
		mod.online = append(mod.online, c.ID)
		mod.pkgCPUs[c.Pkg] = append(mod.pkgCPUs[c.Pkg], c.ID)
		mod.pkgDies[c.Pkg] = append(mod.pkgDies[c.Pkg], c.Die)
		mod.pkgNodes[c.Pkg] = append(mod.pkgNodes[c.Pkg], c.Node)
		d := [2]int{c.Pkg, c.Die}
		mod.dieCPUs[d] = append(mod.dieCPUs[d], c.ID)
		mod.dieNodes[d] = append(mod.dieNodes[d], c.Node)
		mod.clusters[d] = append(mod.clusters[d], c.Cluster)
		k := [3]int{c.Pkg, c.Die, c.Cluster}
		mod.clCPUs[k] = append(mod.clCPUs[k], c.ID)
		mod.nodeCPUs[c.Node] = append(mod.nodeCPUs[c.Node], c.ID)
	}
	mod.all, mod.online, mod.offline = c16Sorted(mod.all), c16Sorted(mod.online), c16Sorted(mod.offline)
	mod.isolated = c16Sorted(m.Isolated)
	for p := range mod.pkgCPUs {
		mod.pkgs = append(mod.pkgs, p)
		mod.pkgDies[p] = c16Sorted(mod.pkgDies[p])
		mod.pkgNodes[p] = c16Sorted(mod.pkgNodes[p])
	}
	sort.Ints(mod.pkgs)
	for d := range mod.dieCPUs {
		mod.dieNodes[d] = c16Sorted(mod.dieNodes[d])
		mod.clusters[d] = c16Sorted(mod.clusters[d])
	}
	var dramSum uint64
	cntAll, cntMem := uint64(0), uint64(0)
	for _, n := range m.Nodes {
		if n.MemKB > 0 {
			mod.memNodes = append(mod.memNodes, n.ID)
		}
		if len(mod.nodeCPUs[n.ID]) > 0 {
			mod.cpuNodes = append(mod.cpuNodes, n.ID)
			dramSum += n.MemKB * 1024
			cntAll++
			if n.MemKB > 0 {
				cntMem++
			}
		} else if n.MemKB > 0 {
			mod.special = append(mod.special, n.ID)
		}
	}
	for _, n := range m.Nodes {
		switch {
		case len(mod.nodeCPUs[n.ID]) > 0:
			mod.memType[n.ID] = sysgen.DRAM
		case n.MemKB == 0:
			mod.memType[n.ID] = "" // neither CPUs nor memory: the heuristic says nothing
		case cntMem == 0:
			mod.memType[n.ID] = ""
		default:
			mem := n.MemKB * 1024
			readings := []bool{
				mem*cntMem < dramSum, mem < dramSum/cntMem,
				mem*cntAll < dramSum, mem < dramSum/cntAll,
			}
			same := true
			for _, r := range readings {
				if r != readings[0] {
					same = false
				}
			}
			switch {
			case !same:
				mod.memType[n.ID] = ""
			case readings[0]:
				mod.memType[n.ID] = sysgen.HBM
			default:
				mod.memType[n.ID] = sysgen.PMEM
			}
		}
	}
	// features
	f := mod.feat
	f["multi_socket"] = len(mod.pkgs) > 1
	for _, p := range mod.pkgs {
		if len(mod.pkgDies[p]) > 1 {
			f["multi_die"] = true
		}
	}
	for d, ns := range mod.dieNodes {
		_ = d
		if len(ns) > 1 {
			f["snc"] = true
		}
	}
	for _, n := range m.Nodes {
		if n.Home >= 0 && n.Type == sysgen.PMEM {
			f["pmem"] = true
		}
		if n.Home >= 0 && n.Type == sysgen.HBM {
			f["hbm"] = true
		}
		if n.Home < 0 && n.MemKB == 0 {
			f["memless"] = true
		}
		if n.Home < 0 && len(mod.nodeCPUs[n.ID]) == 0 {
			f["fully_offline_node"] = true
		}
		if n.Home >= 0 && !n.Normal {
			f["movable_only"] = true
		}
	}
	f["offline"] = len(mod.offline) > 0
	f["isolated"] = len(mod.isolated) > 0
	f["hybrid"] = m.Hybrid
	f["smt"] = m.Threads > 1
	return mod
}

func (mod *c16Model) shape() string {
	m := mod.m
	np, nh, nm := 0, 0, 0
	for _, n := range m.Nodes {
		if n.Home >= 0 && n.Type == sysgen.PMEM {
			np++
		}
		if n.Home >= 0 && n.Type == sysgen.HBM {
			nh++
		}
		if n.Home < 0 && n.MemKB == 0 {
			nm++
		}
	}
	return fmt.Sprintf("p%dd%dn%dc%dt%d/h%v/i%v/off%d/iso%d/pm%d/hb%d/ml%d/mv%v", m.Packages, m.Dies, m.NodesPer, m.Cores,
		m.Threads, m.Hybrid, m.Interleaved, len(mod.offline), len(mod.isolated), np, nh, nm, mod.feat["movable_only"])
}

// closest returns the CPU-bearing nodes nearest to node s by M's distance matrix.
func (mod *c16Model) closest(s int) []int {
	best := -1
	var r []int
	for _, c := range mod.cpuNodes {
		if c == s {
			continue
		}
		d := mod.m.Nodes[s].Dist[c]
		if best < 0 || d < best {
			best, r = d, []int{c}
		} else if d == best {
			r = append(r, c)
		}
	}
	return r
}

// ---------------------------------------------------------------- reporting helper

type c16Rep struct {
	ctx  *Ctx
	cs   *c16Case
	done map[string]bool // at most one report per (check, sig) per machine / setup
}

func (r *c16Rep) bad(check, sig, format string, args ...interface{}) {
	key := check + "|" + sig
	if r.done[key] {
		r.ctx.Count("suppressed_repeat_" + check)
		return
	}
	r.done[key] = true
	r.ctx.Violate(check, sig, r.cs, "machine %s: "+format, append([]interface{}{r.cs.Machine.Name}, args...)...)
}

func (r *c16Rep) tick() {
	r.ctx.Eval()
	r.ctx.Count("accessor_comparisons")
}

func (r *c16Rep) ints(check, sig, what string, got, want []int) bool {
	r.tick()
	if !c16Eq(got, want) {
		r.bad(check, sig, "%s = %s, model says %s", what, c16L(c16Sorted(got)), c16L(c16Sorted(want)))
		return false
	}
	return true
}

// seq compares ordered int slices.
func (r *c16Rep) seq(check, sig, what string, got, want []int) bool {
	r.tick()
	ok := len(got) == len(want)
	for i := 0; ok && i < len(got); i++ {
		ok = got[i] == want[i]
	}
	if !ok {
		r.bad(check, sig, "%s = %v, model says %v", what, got, want)
	}
	return ok
}

func (r *c16Rep) val(check, sig, what string, got, want interface{}) bool {
	r.tick()
	if fmt.Sprint(got) != fmt.Sprint(want) {
		r.bad(check, sig, "%s = %v, model says %v", what, got, want)
		return false
	}
	return true
}

// ---------------------------------------------------------------- Part A

var c16EPP = map[string]sysfs.EPP{
	"performance":         sysfs.EPPPerformance,
	"balance_performance": sysfs.EPPBalancePerformance,
	"balance_power":       sysfs.EPPBalancePower,
	"power":               sysfs.EPPPower,
}

func c16Kind(k string) sysfs.CoreKind {
	if k == "E" {
		return sysfs.EfficientCore
	}
	return sysfs.PerformanceCore
}

func c16MemType(t sysfs.MemoryType) string {
	switch t {
	case sysfs.MemoryTypeDRAM:
		return sysgen.DRAM
	case sysfs.MemoryTypePMEM:
		return sysgen.PMEM
	case sysfs.MemoryTypeHBM:
		return sysgen.HBM
	}
	return fmt.Sprintf("type(%d)", int(t))
}

func c16Groups(dist []int, self int, keep func(int) bool) ([][]int, []int) {
	by := map[int][]int{}
	for j, d := range dist {
		if j == self || (keep != nil && !keep(j)) {
			continue
		}
		by[d] = append(by[d], j)
	}
	var ds []int
	for d := range by {
		ds = append(ds, d)
	}
	sort.Ints(ds)
	var gs [][]int
	for _, d := range ds {
		gs = append(gs, c16Sorted(by[d]))
	}
	return gs, ds
}

func c16Fidelity(ctx *Ctx, cs *c16Case, mod *c16Model, sys sysfs.System) {
	r := &c16Rep{ctx: ctx, cs: cs, done: map[string]bool{}}
	m := mod.m

	// ---- system-wide sets
	gotIDs := sys.CPUIDs()
	r.seq("fidelity-sys", "sys.CPUIDs", "CPUIDs()", gotIDs, mod.all)
	have := c16Set(gotIDs)
	r.ints("fidelity-sys", "sys.CPUSet", "CPUSet()", sys.CPUSet().List(), mod.all)
	r.val("fidelity-sys", "sys.CPUCount", "CPUCount()", sys.CPUCount(), len(mod.all))
	r.ints("fidelity-sys", "sys.PossibleCPUs", "PossibleCPUs()", sys.PossibleCPUs().List(), mod.all)
	r.ints("fidelity-sys", "sys.PresentCPUs", "PresentCPUs()", sys.PresentCPUs().List(), mod.all)
	r.ints("fidelity-sys", "sys.OnlineCPUs", "OnlineCPUs()", sys.OnlineCPUs().List(), mod.online)
	r.ints("fidelity-sys", "sys.OfflineCPUs", "OfflineCPUs()", sys.OfflineCPUs().List(), mod.offline)
	r.ints("fidelity-sys", "sys.Offlined", "Offlined()", sys.Offlined().List(), mod.offline)
	r.ints("fidelity-sys", "sys.IsolatedCPUs", "IsolatedCPUs()", sys.IsolatedCPUs().List(), mod.isolated)
	r.ints("fidelity-sys", "sys.Isolated", "Isolated()", sys.Isolated().List(), mod.isolated)
	gotPkgs := sys.PackageIDs()
	r.seq("fidelity-sys", "sys.PackageIDs", "PackageIDs()", gotPkgs, mod.pkgs)
	r.val("fidelity-sys", "sys.PackageCount", "PackageCount()", sys.PackageCount(), len(mod.pkgs))
	r.val("fidelity-sys", "sys.SocketCount", "SocketCount()", sys.SocketCount(), len(mod.pkgs))
	var nodeIDs []int
	for _, n := range m.Nodes {
		nodeIDs = append(nodeIDs, n.ID)
	}
	gotNodes := sys.NodeIDs()
	r.seq("fidelity-sys", "sys.NodeIDs", "NodeIDs()", gotNodes, nodeIDs)
	r.val("fidelity-sys", "sys.NUMANodeCount", "NUMANodeCount()", sys.NUMANodeCount(), len(nodeIDs))
	minT, maxT := 0, 0
	for _, id := range mod.online {
		t := len(m.CPUs[id].Threads)
		if minT == 0 || t < minT {
			minT = t
		}
		if t > maxT {
			maxT = t
		}
	}
	r.val("fidelity-sys", "sys.MinThreadCount", "MinThreadCount()", sys.MinThreadCount(), minT)
	r.val("fidelity-sys", "sys.MaxThreadCount", "MaxThreadCount()", sys.MaxThreadCount(), maxT)

	// core kinds
	kindCPUs := map[sysfs.CoreKind][]int{}
	for _, id := range mod.online {
		k := c16Kind(m.CPUs[id].Kind)
		kindCPUs[k] = append(kindCPUs[k], id)
	}
	for _, k := range []sysfs.CoreKind{sysfs.PerformanceCore, sysfs.EfficientCore} {
		r.ints("fidelity-sys", "sys.CoreKindCPUs", fmt.Sprintf("CoreKindCPUs(%d)", int(k)), sys.CoreKindCPUs(k).List(), kindCPUs[k])
	}
	var gotKinds, wantKinds []int
	for _, k := range sys.CoreKinds() {
		gotKinds = append(gotKinds, int(k))
	}
	for k := range kindCPUs {
		wantKinds = append(wantKinds, int(k))
	}
	r.ints("fidelity-sys", "sys.CoreKinds", "CoreKinds()", gotKinds, wantKinds)

	// ---- CPUs
	for _, c := range m.CPUs {
		if !have[c.ID] {
			continue // already reported by CPUIDs
		}
		cpu := sys.CPU(c.ID)
		w := fmt.Sprintf("CPU(%d).", c.ID)
		r.val("fidelity-cpu", "cpu.Online", w+"Online()", cpu.Online(), c.Online)
		if !c.Online {
			continue // the property demands nothing else of an offline CPU
		}
		r.val("fidelity-cpu", "cpu.ID", w+"ID()", cpu.ID(), c.ID)
		r.val("fidelity-cpu", "cpu.PackageID", w+"PackageID()", cpu.PackageID(), c.Pkg)
		r.val("fidelity-cpu", "cpu.DieID", w+"DieID()", cpu.DieID(), c.Die)
		r.val("fidelity-cpu", "cpu.ClusterID", w+"ClusterID()", cpu.ClusterID(), c.Cluster)
		r.val("fidelity-cpu", "cpu.NodeID", w+"NodeID()", cpu.NodeID(), c.Node)
		r.val("fidelity-cpu", "cpu.CoreID", w+"CoreID()", cpu.CoreID(), c.Core)
		r.ints("fidelity-cpu", "cpu.ThreadCPUSet", w+"ThreadCPUSet()", cpu.ThreadCPUSet().List(), c.Threads)
		r.val("fidelity-cpu", "cpu.Isolated", w+"Isolated()", cpu.Isolated(), c16Set(mod.isolated)[c.ID])
		r.val("fidelity-cpu", "cpu.BaseFrequency", w+"BaseFrequency()", cpu.BaseFrequency(), c.Base)
		r.val("fidelity-cpu", "cpu.FrequencyRange", w+"FrequencyRange()", cpu.FrequencyRange(), fmt.Sprintf("{%d %d}", c.MinF, c.MaxF))
		if e, ok := c16EPP[c.EPP]; ok {
			r.val("fidelity-cpu", "cpu.EPP", w+"EPP()", int(cpu.EPP()), int(e))
		}
		r.val("fidelity-cpu", "cpu.CoreKind", w+"CoreKind()", int(cpu.CoreKind()), int(c16Kind(c.Kind)))

		// caches: the generator writes index0..3 = L1d, L1i, L2, L3
		type xc struct {
			level  int
			kind   sysfs.CacheType
			size   uint64
			id     int
			shared []int
		}
		want := []xc{
			{1, sysfs.DataCache, 32 << 10, c.Pkg*1000 + c.Core, c.Threads},
			{1, sysfs.InstructionCache, 32 << 10, c.Pkg*1000 + c.Core, c.Threads},
			{2, sysfs.UnifiedCache, 1024 << 10, c.L2ID, c.L2},
			{3, sysfs.UnifiedCache, 16384 << 10, c.L3ID, c.L3},
		}
		r.val("fidelity-cache", "cpu.CacheCount", w+"CacheCount()", cpu.CacheCount(), len(want))
		all := cpu.GetCaches()
		r.tick()
		if len(all) != len(want) {
			r.bad("fidelity-cache", "cpu.GetCaches", "%sGetCaches() returns %d caches, CacheCount() = %d, the tree has %d cache/index* entries",
				w, len(all), cpu.CacheCount(), len(want))
		} else {
			for i, k := range all {
				r.val("fidelity-cache", "cpu.GetCaches", fmt.Sprintf("%sGetCaches()[%d].Level()", w, i), k.Level(), want[i].level)
				r.ints("fidelity-cache", "cpu.GetCaches", fmt.Sprintf("%sGetCaches()[%d].SharedCPUSet()", w, i), k.SharedCPUSet().List(), want[i].shared)
			}
		}
		for i, x := range want {
			k := cpu.GetCacheByIndex(i)
			wi := fmt.Sprintf("%sGetCacheByIndex(%d).", w, i)
			r.tick()
			if k == nil {
				r.bad("fidelity-cache", "cpu.GetCacheByIndex", "%s returns nil", wi)
				continue
			}
			r.val("fidelity-cache", "cache.Level", wi+"Level()", k.Level(), x.level)
			r.val("fidelity-cache", "cache.Type", wi+"Type()", int(k.Type()), int(x.kind))
			r.val("fidelity-cache", "cache.Size", wi+"Size()", k.Size(), x.size)
			r.val("fidelity-cache", "cache.ID", wi+"ID()", k.ID(), x.id)
			r.ints("fidelity-cache", "cache.SharedCPUSet", wi+"SharedCPUSet()", k.SharedCPUSet().List(), x.shared)
		}
		for lvl := 1; lvl <= 4; lvl++ {
			var ws [][]int
			var wu []int
			for _, x := range want {
				if x.level == lvl {
					ws = append(ws, x.shared)
					wu = c16Union(wu, x.shared)
				}
			}
			got := cpu.GetCachesByLevel(lvl)
			wl := fmt.Sprintf("%sGetCachesByLevel(%d)", w, lvl)
			if r.val("fidelity-cache", "cpu.GetCachesByLevel", "len("+wl+")", len(got), len(ws)) {
				for i, k := range got {
					r.val("fidelity-cache", "cpu.GetCachesByLevel", fmt.Sprintf("%s[%d].Level()", wl, i), k.Level(), lvl)
					r.ints("fidelity-cache", "cpu.GetCachesByLevel", fmt.Sprintf("%s[%d].SharedCPUSet()", wl, i), k.SharedCPUSet().List(), ws[i])
				}
			}
			if lvl <= 3 {
				r.ints("fidelity-cache", "cpu.GetNthLevelCacheCPUSet", fmt.Sprintf("%sGetNthLevelCacheCPUSet(%d)", w, lvl),
					cpu.GetNthLevelCacheCPUSet(lvl).List(), wu)
			}
		}
		llc := cpu.GetLastLevelCaches()
		r.tick()
		okLLC := len(llc) == 1
		for _, k := range llc {
			if k.Level() != 3 {
				okLLC = false
			}
		}
		if !okLLC {
			var lv []int
			for _, k := range llc {
				lv = append(lv, k.Level())
			}
			r.bad("fidelity-cache", "cpu.GetLastLevelCaches", "%sGetLastLevelCaches() returns caches of levels %v, the tree has exactly one last-level (L3) cache", w, lv)
		} else {
			r.ints("fidelity-cache", "cpu.GetLastLevelCaches", w+"GetLastLevelCaches()[0].SharedCPUSet()", llc[0].SharedCPUSet().List(), c.L3)
		}
		r.ints("fidelity-cache", "cpu.GetLastLevelCacheCPUSet", w+"GetLastLevelCacheCPUSet()", cpu.GetLastLevelCacheCPUSet().List(), c.L3)
	}

	// ---- packages
	havePkg := c16Set(gotPkgs)
	for _, p := range mod.pkgs {
		if !havePkg[p] {
			continue
		}
		pkg := sys.Package(p)
		w := fmt.Sprintf("Package(%d).", p)
		r.val("fidelity-pkg", "pkg.ID", w+"ID()", pkg.ID(), p)
		r.ints("fidelity-pkg", "pkg.CPUSet", w+"CPUSet()", pkg.CPUSet().List(), mod.pkgCPUs[p])
		r.seq("fidelity-pkg", "pkg.DieIDs", w+"DieIDs()", pkg.DieIDs(), mod.pkgDies[p])
		r.seq("fidelity-pkg", "pkg.NodeIDs", w+"NodeIDs()", pkg.NodeIDs(), mod.pkgNodes[p])
		for _, d := range mod.pkgDies[p] {
			k := [2]int{p, d}
			r.ints("fidelity-pkg", "pkg.DieCPUSet", fmt.Sprintf("%sDieCPUSet(%d)", w, d), pkg.DieCPUSet(d).List(), mod.dieCPUs[k])
			r.seq("fidelity-pkg", "pkg.DieNodeIDs", fmt.Sprintf("%sDieNodeIDs(%d)", w, d), pkg.DieNodeIDs(d), mod.dieNodes[k])
			r.seq("fidelity-pkg", "pkg.DieClusterIDs", fmt.Sprintf("%sDieClusterIDs(%d)", w, d), pkg.DieClusterIDs(d), mod.clusters[k])
			for _, cl := range mod.clusters[k] {
				r.ints("fidelity-pkg", "pkg.DieClusterCPUSet", fmt.Sprintf("%sDieClusterCPUSet(%d,%d)", w, d, cl),
					pkg.DieClusterCPUSet(d, cl).List(), mod.clCPUs[[3]int{p, d, cl}])
			}
		}
	}

	// ---- nodes
	haveNode := c16Set(gotNodes)
	hasCPU := func(j int) bool { return len(mod.nodeCPUs[j]) > 0 }
	for _, n := range m.Nodes {
		if !haveNode[n.ID] {
			continue
		}
		node := sys.Node(n.ID)
		w := fmt.Sprintf("Node(%d).", n.ID)
		r.val("fidelity-node", "node.ID", w+"ID()", node.ID(), n.ID)
		r.ints("fidelity-node", "node.CPUSet", w+"CPUSet()", node.CPUSet().List(), mod.nodeCPUs[n.ID])
		r.seq("fidelity-node", "node.Distance", w+"Distance()", node.Distance(), n.Dist)
		for j := range n.Dist {
			r.val("fidelity-node", "node.DistanceFrom", fmt.Sprintf("%sDistanceFrom(%d)", w, j), node.DistanceFrom(j), n.Dist[j])
			r.val("fidelity-node", "sys.NodeDistance", fmt.Sprintf("NodeDistance(%d,%d)", n.ID, j), sys.NodeDistance(n.ID, j), n.Dist[j])
		}
		mi, err := node.MemoryInfo()
		r.tick()
		if err != nil || mi == nil {
			r.bad("fidelity-node", "node.MemoryInfo", "%sMemoryInfo() failed: %v", w, err)
		} else {
			r.val("fidelity-node", "node.MemoryInfo", w+"MemoryInfo().MemTotal", mi.MemTotal, n.MemKB*1024)
			r.val("fidelity-node", "node.MemoryInfo", w+"MemoryInfo().MemFree", mi.MemFree, n.FreeKB*1024)
			r.val("fidelity-node", "node.MemoryInfo", w+"MemoryInfo().MemUsed", mi.MemUsed, (n.MemKB-n.FreeKB)*1024)
		}
		r.val("fidelity-node", "node.HasNormalMemory", w+"HasNormalMemory()", node.HasNormalMemory(), n.MemKB > 0 && n.Normal)
		if hasCPU(n.ID) {
			first := m.CPUs[mod.nodeCPUs[n.ID][0]]
			r.val("fidelity-node", "node.PackageID", w+"PackageID()", node.PackageID(), first.Pkg)
			r.val("fidelity-node", "node.DieID", w+"DieID()", node.DieID(), first.Die)
		}
		if t := mod.memType[n.ID]; t != "" {
			r.val("fidelity-node", "node.GetMemoryType", w+"GetMemoryType()", c16MemType(node.GetMemoryType()), t)
			if t != n.Type {
				ctx.Count("memtype_generator_differs_from_heuristic")
			}
		} else {
			ctx.Count("memtype_ambiguous")
		}
		// closest nodes: groups of equal distance, nearest first
		wg, wd := c16Groups(n.Dist, n.ID, nil)
		gg, gd := node.ClosestNodes()
		c16CmpGroups(r, "node.ClosestNodes", w+"ClosestNodes()", c16GroupsOf(gg), gd, wg, wd)
		wg, wd = c16Groups(n.Dist, n.ID, hasCPU)
		sg, sd := sys.ClosestNodes(n.ID, sysfs.NodeHasLocalCPUs)
		c16CmpGroups(r, "sys.ClosestNodes", fmt.Sprintf("ClosestNodes(%d, NodeHasLocalCPUs)", n.ID), c16GroupsOf(sg), sd, wg, wd)
	}
	var fm, fc []int
	for id := range sys.FilterNodes(nodeIDs, sysfs.NodeHasMemory) {
		fm = append(fm, id)
	}
	for id := range sys.FilterNodes(nodeIDs, sysfs.NodeHasLocalCPUs) {
		fc = append(fc, id)
	}
	r.ints("fidelity-node", "sys.FilterNodes", "FilterNodes(all, NodeHasMemory)", fm, mod.memNodes)
	r.ints("fidelity-node", "sys.FilterNodes", "FilterNodes(all, NodeHasLocalCPUs)", fc, mod.cpuNodes)

	// ---- derived set accessors on sampled cpusets (sample generator depends on M only: replayable)
	rng := sysgen.NewRNG(hashStr(m.Name) + uint64(len(m.CPUs))*131 + uint64(len(m.Nodes)))
	for s := 0; s < 4; s++ {
		var sample []int
		den := 2 + rng.Intn(4)
		for _, id := range mod.online {
			if rng.Chance(1, den) {
				sample = append(sample, id)
			}
		}
		if len(sample) == 0 {
			sample = []int{mod.online[rng.Intn(len(mod.online))]}
		}
		cs := cpuset.New(sample...)
		var wantAll, wantL2, wantSingle []int
		seenCore := map[[2]int]bool{}
		for _, id := range sample { // ascending
			c := m.CPUs[id]
			wantAll = c16Union(wantAll, c.Threads)
			wantL2 = c16Union(wantL2, c.L2)
			if k := m.CoreKey(id); !seenCore[k] {
				seenCore[k] = true
				wantSingle = append(wantSingle, id)
			}
		}
		r.ints("fidelity-sets", "sys.AllThreadsForCPUs", fmt.Sprintf("AllThreadsForCPUs(%s)", c16L(sample)), sys.AllThreadsForCPUs(cs).List(), wantAll)
		r.ints("fidelity-sets", "sys.SingleThreadForCPUs", fmt.Sprintf("SingleThreadForCPUs(%s)", c16L(sample)), sys.SingleThreadForCPUs(cs).List(), wantSingle)
		r.ints("fidelity-sets", "sys.AllCPUsSharingNthLevelCacheWithCPUs", fmt.Sprintf("AllCPUsSharingNthLevelCacheWithCPUs(2, %s)", c16L(sample)),
			sys.AllCPUsSharingNthLevelCacheWithCPUs(2, cs).List(), wantL2)
		var ns, wantN []int
		for _, n := range m.Nodes {
			if rng.Chance(1, 2) {
				ns = append(ns, n.ID)
				wantN = c16Union(wantN, mod.nodeCPUs[n.ID])
			}
		}
		if len(ns) > 0 {
			got, err := c16ParseList(sys.NodeHintToCPUs(sysgen.CPUList(ns)))
			r.tick()
			if err != nil || !c16Eq(got, wantN) {
				r.bad("fidelity-sets", "sys.NodeHintToCPUs", "NodeHintToCPUs(%q) = %s (%v), model says %s", sysgen.CPUList(ns), c16L(got), err, c16L(wantN))
			}
		}
	}
}

func c16GroupsOf[S ~map[int]struct{}](gs []S) [][]int {
	var r [][]int
	for _, g := range gs {
		var x []int
		for id := range g {
			x = append(x, id)
		}
		r = append(r, c16Sorted(x))
	}
	return r
}

func c16CmpGroups(r *c16Rep, sig, what string, gotG [][]int, gotD []int, wantG [][]int, wantD []int) {
	r.tick()
	ok := len(gotG) == len(wantG) && len(gotD) == len(wantD)
	for i := 0; ok && i < len(wantG); i++ {
		if !c16Eq(gotG[i], wantG[i]) || gotD[i] != wantD[i] {
			ok = false
		}
	}
	if !ok {
		r.bad("fidelity-node", sig, "%s = %v at distances %v, model says %v at %v (nearest first)", what, gotG, gotD, wantG, wantD)
	}
}

// ---------------------------------------------------------------- Part B

type c16XPool struct {
	key, parent string
	kind        string
	hw          []int // online CPUs of the unit
	nodes       []int // NUMA nodes with online CPUs in the unit
}

var c16Num = regexp.MustCompile(`[0-9]+`)

func c16Key(kind, name string) string {
	return kind + "|" + strings.Join(c16Num.FindAllString(name, -1), "/")
}

// expected tree from M by the documented rules
func (mod *c16Model) expectedPools() []c16XPool {
	var xs []c16XPool
	multi := len(mod.pkgs) > 1
	rootKey := ""
	if multi {
		rootKey = c16Key("virtual node", "root")
		xs = append(xs, c16XPool{key: rootKey, kind: "virtual node", hw: mod.online, nodes: mod.cpuNodes})
	}
	numa := func(parent string, nodes []int) {
		if len(nodes) < 2 {
			return
		}
		for _, n := range nodes {
			if mod.m.Nodes[n].MemKB == 0 {
				continue // documented folding of memory-less nodes into the parent
			}
			xs = append(xs, c16XPool{key: c16Key("numa node", strconv.Itoa(n)), parent: parent, kind: "numa node",
				hw: c16Sorted(mod.nodeCPUs[n]), nodes: []int{n}})
		}
	}
	for _, p := range mod.pkgs {
		sk := c16Key("socket", strconv.Itoa(p))
		xs = append(xs, c16XPool{key: sk, parent: rootKey, kind: "socket", hw: c16Sorted(mod.pkgCPUs[p]), nodes: mod.pkgNodes[p]})
		if dies := mod.pkgDies[p]; len(dies) > 1 {
			for _, d := range dies {
				dk := c16Key("die", fmt.Sprintf("%d/%d", p, d))
				xs = append(xs, c16XPool{key: dk, parent: sk, kind: "die", hw: c16Sorted(mod.dieCPUs[[2]int{p, d}]), nodes: mod.dieNodes[[2]int{p, d}]})
				numa(dk, mod.dieNodes[[2]int{p, d}])
			}
		} else {
			numa(sk, mod.pkgNodes[p])
		}
	}
	return xs
}

func (mod *c16Model) availOf(cfg *c16Config) []int {
	if cfg.HasAvail {
		return c16Sorted(cfg.Avail)
	}
	return mod.online
}

// expectAccept tells whether the documented constraints are met (used only to classify rejections).
func (mod *c16Model) expectAccept(cfg *c16Config) bool {
	avail := mod.availOf(cfg)
	if strings.HasPrefix(cfg.Reserved, "cpuset:") {
		res, err := c16ParseList(strings.TrimPrefix(cfg.Reserved, "cpuset:"))
		return err == nil && len(res) > 0 && c16Subset(res, avail)
	}
	milli, ok := c16Milli(cfg.Reserved)
	if !ok || milli <= 0 {
		return false
	}
	return (milli+999)/1000 <= len(c16Diff(avail, mod.isolated))
}

func c16Milli(q string) (int, bool) {
	if strings.HasSuffix(q, "m") {
		v, err := strconv.Atoi(strings.TrimSuffix(q, "m"))
		return v, err == nil
	}
	v, err := strconv.Atoi(q)
	return v * 1000, err == nil
}

func c16GenConfig(rng *sysgen.RNG, mod *c16Model, k int) *c16Config {
	cfg := &c16Config{}
	if k == 0 {
		free := c16Diff(mod.online, mod.isolated)
		if len(free) > 0 {
			cfg.Reserved = "cpuset:" + strconv.Itoa(free[0])
			cfg.Class = "all/cpuset"
			return cfg
		}
	}
	avail := mod.online
	if rng.Chance(1, 2) {
		den := rng.Range(2, 8)
		var sub []int
		for _, id := range mod.online {
			if !rng.Chance(1, den) {
				sub = append(sub, id)
			}
		}
		if len(sub) == 0 {
			sub = []int{mod.online[rng.Intn(len(mod.online))]}
		}
		cfg.HasAvail, cfg.Avail, avail = true, sub, sub
	}
	cls := "all"
	if cfg.HasAvail {
		cls = "subset"
	}
	free := c16Diff(avail, mod.isolated)
	switch {
	case rng.Chance(1, 16): // rejection path: reserved outside available / unsatisfiable quantity
		out := c16Diff(mod.all, avail)
		if len(out) > 0 && rng.Chance(1, 2) {
			cfg.Reserved = "cpuset:" + strconv.Itoa(out[rng.Intn(len(out))])
			cfg.Class = cls + "/cpuset-outside"
		} else {
			cfg.Reserved = strconv.Itoa(len(free) + 1 + rng.Intn(3))
			cfg.Class = cls + "/quantity-too-big"
		}
	case len(free) > 0 && rng.Chance(1, 2):
		n := rng.Range(1, 4)
		if n > len(free) {
			n = len(free)
		}
		pick := map[int]bool{}
		for len(pick) < n {
			pick[free[rng.Intn(len(free))]] = true
		}
		var res []int
		for _, id := range free {
			if pick[id] {
				res = append(res, id)
			}
		}
		cfg.Reserved = "cpuset:" + sysgen.CPUList(res)
		cfg.Class = cls + "/cpuset"
	default:
		cfg.Reserved = sysgen.Pick(rng, []string{"500m", "750m", "1", "1", "1500m", "2", "2", "3"})
		cfg.Class = cls + "/quantity"
	}
	return cfg
}

type c16Obs struct {
	topologyaware.VerifPool
	key, parentKey string
	cpus, mems     []int
}

func c16Setup(ctx *Ctx, cs *c16Case, mod *c16Model, sys sysfs.System, dir string) {
	cfg := cs.Config
	r := &c16Rep{ctx: ctx, cs: cs, done: map[string]bool{}}
	ctx.Eval()
	ctx.Count("setups")
	ctx.Count("config_" + cfg.Class)

	os.RemoveAll(dir)
	os.MkdirAll(dir, 0o755)
	cch, err := cache.NewCache(cache.Options{CacheDir: dir})
	if err != nil {
		ctx.Count("harness_cache_errors")
		return
	}
	tc := &tacfg.Config{PinCPU: true, PinMemory: true,
		ReservedResources: tacfg.Constraints{tacfg.CPU: tacfg.Amount(cfg.Reserved)}}
	if cfg.HasAvail {
		tc.AvailableResources = tacfg.Constraints{tacfg.CPU: tacfg.Amount("cpuset:" + sysgen.CPUList(cfg.Avail))}
	}
	topologyaware.VerifResetGlobals()
	backend := topologyaware.New()
	var serr error
	t0 := time.Now()
	pm, site := Guard(func() {
		if cs.Prev == nil {
			serr = backend.Setup(&policyapi.BackendOptions{System: sys, Cache: cch,
				SendEvent: func(interface{}) error { return nil }, Config: tc})
			return
		}
		ptc := &tacfg.Config{PinCPU: true, PinMemory: true,
			ReservedResources: tacfg.Constraints{tacfg.CPU: tacfg.Amount(cs.Prev.Reserved)}}
		if cs.Prev.HasAvail {
			ptc.AvailableResources = tacfg.Constraints{tacfg.CPU: tacfg.Amount("cpuset:" + sysgen.CPUList(cs.Prev.Avail))}
		}
		if perr := backend.Setup(&policyapi.BackendOptions{System: sys, Cache: cch,
			SendEvent: func(interface{}) error { return nil }, Config: ptc}); perr != nil {
			// the previous configuration is not usable on this machine: plain Setup with the one under test
			ctx.Count("reconfigure_prev_rejected")
			topologyaware.VerifResetGlobals()
			backend = topologyaware.New()
			serr = backend.Setup(&policyapi.BackendOptions{System: sys, Cache: cch,
				SendEvent: func(interface{}) error { return nil }, Config: tc})
			return
		}
		ctx.Count("setups_via_reconfigure")
		serr = backend.Reconfigure(tc)
	})
	ctx.Add("time_setup_us", int(time.Since(t0).Microseconds()))
	if pm != "" {
		r.bad("setup-panic", site, "Setup(available=%v %s, reserved=%s) panicked: %s", cfg.HasAvail, c16L(cfg.Avail), cfg.Reserved, pm)
		return
	}
	if serr != nil {
		ctx.Count("setups_rejected")
		if mod.expectAccept(cfg) {
			ctx.Count("setups_rejected_unexpected")
			ctx.Count("unexpected_reject: " + c16Short(serr.Error()))
		}
		return
	}
	ctx.Count("setups_accepted")
	if !mod.expectAccept(cfg) {
		ctx.Count("setups_accepted_though_constraints_unmet")
	}

	var snap *topologyaware.VerifSnap
	var zones []*policyapi.TopologyZone
	pm, site = Guard(func() {
		snap = topologyaware.VerifSnapshot(backend)
		zones = backend.GetTopologyZones()
	})
	if pm != "" {
		r.bad("setup-panic", site, "GetTopologyZones/snapshot after accepted Setup panicked: %s", pm)
		return
	}
	if snap == nil {
		r.bad("single-root", "no-root", "accepted Setup left the policy without a root pool")
		return
	}

	avail := mod.availOf(cfg)
	availOnline := c16Inter(avail, mod.online)
	kiso := c16Inter(mod.isolated, avail)

	// reserved CPUs of the whole system
	var reserved []int
	if strings.HasPrefix(cfg.Reserved, "cpuset:") {
		reserved, _ = c16ParseList(strings.TrimPrefix(cfg.Reserved, "cpuset:"))
	} else {
		reserved = c16Sorted(snap.Reserved) // the pick is unspecified; its size and range are not
		milli, _ := c16Milli(cfg.Reserved)
		if len(reserved) != (milli+999)/1000 || !c16Subset(reserved, c16Diff(availOnline, kiso)) {
			r.bad("reserved-quantity", "checkConstraints", "reserved quantity %s picked CPUs %s: want %d CPUs out of available non-isolated %s",
				cfg.Reserved, c16L(reserved), (milli+999)/1000, c16L(c16Diff(availOnline, kiso)))
		}
	}

	// observed pools
	obs := map[string]*c16Obs{}
	byName := map[string]*c16Obs{}
	var order []*c16Obs
	for _, p := range snap.Pools {
		o := &c16Obs{VerifPool: p, key: c16Key(p.Kind, p.Name)}
		o.cpus = c16Union(p.Isolated, p.Reserved, p.Sharable)
		o.mems = c16Union(p.DRAM, p.PMEM, p.HBM)
		order = append(order, o)
		byName[p.Name] = o
	}
	var roots []string
	for _, o := range order {
		if o.Parent == "" {
			roots = append(roots, o.Name)
		} else if po, ok := byName[o.Parent]; ok {
			o.parentKey = po.key
		} else {
			o.parentKey = "?" + o.Parent
		}
	}
	ctx.Add("pools_checked", len(order))
	if len(roots) != 1 || roots[0] != snap.Root {
		r.bad("single-root", "buildRootPool", "pools without parent: %q, policy root %q", roots, snap.Root)
	}
	multi := len(mod.pkgs) > 1
	hasV := false
	for _, o := range order {
		if o.Kind == "virtual node" {
			hasV = true
		}
	}
	if hasV != multi {
		r.bad("virtual-root", "buildRootPool", "virtual root present=%v but the machine has %d socket(s) with online CPUs", hasV, len(mod.pkgs))
	}

	// tree shape
	xs := mod.expectedPools()
	want := map[string]int{}
	got := map[string]int{}
	xByKey := map[string]*c16XPool{}
	for i := range xs {
		want[xs[i].key+" <- "+xs[i].parent]++
		xByKey[xs[i].key] = &xs[i]
	}
	for _, o := range order {
		got[o.key+" <- "+o.parentKey]++
		if _, dup := obs[o.key]; !dup {
			obs[o.key] = o
		}
	}
	var missing, extra []string
	for k, n := range want {
		if got[k] < n {
			missing = append(missing, k)
		}
	}
	for k, n := range got {
		if want[k] < n {
			extra = append(extra, k)
		}
	}
	sort.Strings(missing)
	sort.Strings(extra)
	if len(missing)+len(extra) > 0 {
		sig := "shape"
		if len(missing) > 0 {
			sig = "missing:" + strings.SplitN(missing[0], "|", 2)[0]
		} else {
			sig = "extra:" + strings.SplitN(extra[0], "|", 2)[0]
		}
		r.bad("tree-shape", sig, "pool tree differs from the documented shape: missing %q, unexpected %q", missing, extra)
	}

	// per pool
	children := map[string][]*c16Obs{}
	for _, o := range order {
		if o.Parent != "" {
			children[o.Parent] = append(children[o.Parent], o)
		}
	}
	attached := 0
	for _, o := range order {
		x := xByKey[o.key]
		if len(c16Inter(o.Isolated, o.Reserved))+len(c16Inter(o.Isolated, o.Sharable))+len(c16Inter(o.Reserved, o.Sharable)) > 0 {
			r.bad("split-disjoint", o.Kind, "pool %q: isolated %s reserved %s sharable %s overlap", o.Name, c16L(o.Isolated), c16L(o.Reserved), c16L(o.Sharable))
		}
		if x != nil {
			wantCPUs := c16Inter(x.hw, avail)
			if !c16Eq(o.cpus, wantCPUs) {
				r.bad("pool-cpus", o.Kind, "pool %q holds CPUs %s, its unit's available CPUs are %s", o.Name, c16L(o.cpus), c16L(wantCPUs))
			}
			if w := c16Inter(kiso, x.hw); !c16Eq(o.Isolated, w) {
				r.bad("isolated-set", o.Kind, "pool %q isolated %s, kernel-isolated available CPUs of the unit are %s", o.Name, c16L(o.Isolated), c16L(w))
			}
			if w := c16Inter(reserved, x.hw); !c16Eq(o.Reserved, w) {
				r.bad("reserved-set", o.Kind, "pool %q reserved %s, reserved CPUs of the unit are %s", o.Name, c16L(o.Reserved), c16L(w))
			}
		}
		// children
		var union []int
		kids := children[o.Name]
		for i, a := range kids {
			union = c16Union(union, a.cpus)
			for _, b := range kids[i+1:] {
				if ov := c16Inter(a.cpus, b.cpus); len(ov) > 0 {
					r.bad("siblings-disjoint", a.Kind, "sibling pools %q and %q share CPUs %s", a.Name, b.Name, c16L(ov))
				}
			}
			if !c16Subset(a.mems, o.mems) {
				off := c16Diff(a.mems, o.mems)
				sig := "node-with-memory"
				if len(c16Inter(off, mod.memNodes)) == 0 {
					sig = "memless-node-in-child"
				}
				r.bad("mem-subset", sig, "pool %q memory set %s is not within its parent %q's %s (offending nodes %s)", a.Name, c16L(a.mems), o.Name, c16L(o.mems), c16L(off))
			}
		}
		if !c16Subset(union, o.cpus) {
			r.bad("parent-contains", o.Kind, "pool %q CPUs %s do not contain its children's %s", o.Name, c16L(o.cpus), c16L(union))
		}
		if o.Parent == "" {
			if !c16Eq(o.cpus, availOnline) {
				r.bad("root-cpus", o.Kind, "root %q holds %s, available online CPUs are %s", o.Name, c16L(o.cpus), c16L(availOnline))
			}
			if !c16Subset(mod.memNodes, o.mems) {
				r.bad("root-memory", o.Kind, "root %q memory set %s lacks nodes with memory %s", o.Name, c16L(o.mems), c16L(c16Diff(mod.memNodes, o.mems)))
			}
		} else if x != nil {
			// CPU-local memory nodes
			var gotLocal, wantLocal []int
			for _, n := range o.mems {
				if len(mod.nodeCPUs[n]) > 0 && mod.m.Nodes[n].MemKB > 0 {
					gotLocal = append(gotLocal, n)
				}
			}
			for _, n := range x.nodes {
				if mod.m.Nodes[n].MemKB > 0 {
					wantLocal = append(wantLocal, n)
				}
			}
			if !c16Eq(gotLocal, wantLocal) {
				r.bad("mem-local", o.Kind, "pool %q has CPU-bearing memory nodes %s, its unit's are %s", o.Name, c16L(gotLocal), c16L(wantLocal))
			}
			// special nodes
			for _, s := range mod.special {
				near := mod.closest(s)
				wantAtt := len(c16Inter(near, x.nodes)) > 0
				gotAtt := c16Set(o.mems)[s]
				if wantAtt != gotAtt {
					sig := "attached-to-distant-pool"
					if wantAtt {
						sig = "missing-from-closest-pool"
					}
					r.bad("special-attach", sig, "CPU-less node %d (closest CPU-bearing nodes %s): pool %q (nodes %s) attached=%v, expected %v",
						s, c16L(near), o.Name, c16L(x.nodes), gotAtt, wantAtt)
				} else if gotAtt {
					attached++
				}
			}
		}
		// types
		for ti, list := range [][]int{o.DRAM, o.PMEM, o.HBM} {
			t := []string{sysgen.DRAM, sysgen.PMEM, sysgen.HBM}[ti]
			for _, n := range list {
				if n < 0 || n >= len(mod.m.Nodes) {
					r.bad("memset-type", "unknown-node", "pool %q lists unknown node %d", o.Name, n)
				} else if w := mod.memType[n]; w != "" && w != t {
					r.bad("memset-type", t, "pool %q lists node %d as %s, heuristic type is %s", o.Name, n, t, w)
				}
			}
		}
	}
	ctx.Add("special_nodes_attached", attached)

	// zones vs snapshot
	zr := func(format string, args ...interface{}) { r.bad("zones-agree", "GetTopologyZones", format, args...) }
	if len(zones) != len(order) {
		zr("GetTopologyZones returns %d zones, the policy has %d pools", len(zones), len(order))
	}
	for _, z := range zones {
		o, ok := byName[z.Name]
		if !ok {
			zr("zone %q is not a pool", z.Name)
			continue
		}
		if z.Parent != o.Parent || z.Type != o.Kind {
			zr("zone %q parent %q type %q, pool parent %q kind %q", z.Name, z.Parent, z.Type, o.Parent, o.Kind)
		}
		attr := map[string]string{}
		for _, a := range z.Attributes {
			attr[a.Name] = a.Value
		}
		for ai, w := range [][]int{o.Sharable, o.Reserved, o.Isolated, o.mems} {
			name := []string{policyapi.SharedCPUsAttribute, policyapi.ReservedCPUsAttribute,
				policyapi.IsolatedCPUsAttribute, policyapi.MemsetAttribute}[ai]
			g, err := c16ParseList(attr[name])
			if err != nil || !c16Eq(g, w) {
				zr("zone %q attribute %q = %q, pool has %s", z.Name, name, attr[name], c16L(w))
			}
		}
	}

	if len(order) >= 2 {
		ctx.See(mod.shape() + "|" + cfg.Class)
	}
	ctx.Sample(map[string]interface{}{"machine": mod.m.Name, "shape": mod.shape(), "config": cfg, "pools": len(order)})
}

func c16Short(s string) string {
	s = c16Num.ReplaceAllString(s, "N")
	if len(s) > 90 {
		s = s[:90]
	}
	return s
}

// ---------------------------------------------------------------- driver

// c16SplitL2AtNodes repairs an artefact of sysgen.Generate: with L2Cluster not dividing the
// cores per node an L2 domain straddles a NUMA node (or die) boundary, which no hardware has
// and which cpuallocator's discoverCacheGroups answers with a deliberate sanity-check panic.
// Every such L2 domain is split at the node boundary (new unique cache and cluster ids). The
// repaired M is what gets written and what the oracle uses. Idempotent (replay re-applies it).
// c16MovableOnlyNode turns, on every fifth generated machine (decided by the machine's name, no PRNG draw), one
// CPU-bearing DRAM node other than node 0 that has memory into a node whose memory is onlined movable-only
// (movable_node / online_movable set-ups): listed in has_memory, absent from has_normal_memory. Such a node HAS memory,
// so the documented pool tree keeps its NUMA pool. Not applied in replay (the witness stores the machine as run).
func c16MovableOnlyNode(m *sysgen.Machine) bool {
	h := hashStr(m.Name)
	if h%5 != 0 {
		return false
	}
	var cand []int
	for i, n := range m.Nodes {
		if n.ID > 0 && n.Type == sysgen.DRAM && len(n.CPUs) > 0 && n.MemKB > 0 && n.Normal {
			cand = append(cand, i)
		}
	}
	if len(cand) == 0 {
		return false
	}
	m.Nodes[cand[int((h/5)%uint64(len(cand)))]].Normal = false
	return true
}

func c16SplitL2AtNodes(m *sysgen.Machine) bool {
	nodesOf := map[int]map[int]bool{}
	for _, c := range m.CPUs {
		if nodesOf[c.L2ID] == nil {
			nodesOf[c.L2ID] = map[int]bool{}
		}
		nodesOf[c.L2ID][c.Node] = true
	}
	straddle := false
	for _, ns := range nodesOf {
		if len(ns) > 1 {
			straddle = true
		}
	}
	if !straddle {
		return false
	}
	type key struct{ pkg, l2, node int }
	seen := map[key]bool{}
	var keys []key
	for _, c := range m.CPUs {
		k := key{c.Pkg, c.L2ID, c.Node}
		if !seen[k] {
			seen[k] = true
			keys = append(keys, k)
		}
	}
	sort.Slice(keys, func(i, j int) bool {
		a, b := keys[i], keys[j]
		if a.pkg != b.pkg {
			return a.pkg < b.pkg
		}
		if a.l2 != b.l2 {
			return a.l2 < b.l2
		}
		return a.node < b.node
	})
	newID := map[key]int{}
	newCluster := map[key]int{}
	perPkg := map[int]int{}
	for i, k := range keys {
		newID[k] = i
		newCluster[k] = perPkg[k.pkg]
		perPkg[k.pkg]++
	}
	members := map[int][]int{}
	for i := range m.CPUs {
		c := &m.CPUs[i]
		k := key{c.Pkg, c.L2ID, c.Node}
		c.L2ID, c.Cluster = newID[k], newCluster[k]
		if c.Online {
			members[c.L2ID] = append(members[c.L2ID], c.ID)
		}
	}
	for i := range m.CPUs {
		c := &m.CPUs[i]
		c.L2 = append([]int(nil), members[c.L2ID]...)
		sort.Ints(c.L2)
	}
	return true
}

func c16RunMachine(ctx *Ctx, m *sysgen.Machine, idx int, fidelity bool, cfgs []*c16Config) {
	if c16SplitL2AtNodes(m) {
		ctx.Count("machines_l2_split_at_node_boundary")
	}
	mod := c16NewModel(m)
	cs := c16NewCase(m, nil)
	root := filepath.Join(ctx.Work, fmt.Sprintf("c16-m%d", idx))
	os.RemoveAll(root)
	defer os.RemoveAll(root)
	t0 := time.Now()
	if err := m.Write(root); err != nil {
		ctx.Count("harness_write_errors")
		return
	}
	ctx.Add("time_write_us", int(time.Since(t0).Microseconds()))
	ctx.Count("machines")
	for _, f := range []string{"multi_socket", "multi_die", "snc", "pmem", "hbm", "memless", "offline", "isolated", "hybrid", "smt", "movable_only", "fully_offline_node"} {
		if mod.feat[f] {
			ctx.Count("machines_" + f)
		}
	}
	if m.LegacyNames {
		ctx.Count("machines_legacy_attribute_names")
	}
	ctx.Add("cpus_total", len(m.CPUs))

	var sys sysfs.System
	var derr error
	t0 = time.Now()
	pm, site := Guard(func() { sys, derr = sysfs.DiscoverSystemAt(filepath.Join(root, "sys")) })
	ctx.Add("time_discover_us", int(time.Since(t0).Microseconds()))
	ctx.Eval()
	rep := &c16Rep{ctx: ctx, cs: cs, done: map[string]bool{}}
	if pm != "" {
		rep.bad("discover-error", "panic:"+site, "DiscoverSystemAt panicked: %s", pm)
		return
	}
	if derr != nil || sys == nil {
		sig := "discover"
		for _, n := range m.Nodes {
			if len(mod.nodeCPUs[n.ID]) == 0 && n.MemKB == 0 {
				sig = "discoverNodes:node-without-online-cpus-and-memory"
			}
		}
		rep.bad("discover-error", sig, "DiscoverSystemAt failed: %v", derr)
		return
	}
	if fidelity {
		if pm, site := Guard(func() { c16Fidelity(ctx, cs, mod, sys) }); pm != "" {
			rep.bad("fidelity-panic", site, "accessor panicked: %s", pm)
		}
	}
	for i, cfg := range cfgs {
		cs := c16NewCase(m, cfg)
		if i > 0 && i%2 == 1 {
			// every other configuration is taken into use by Reconfigure() on a backend that was set up with the previous
			// one: the tree must be the one of the configuration in effect, whatever was there before
			cs.Prev = cfgs[i-1]
		}
		c16Setup(ctx, cs, mod, sys, filepath.Join(root, "cache"))
	}
}

func runC16(ctx *Ctx) {
	if ctx.Replay != "" {
		var cs c16Case
		if err := LoadCase(ctx.Replay, &cs); err != nil || cs.Machine == nil {
			fmt.Printf("replay: cannot load case: %v\n", err)
			ctx.Count("replay_load_errors")
			return
		}
		cs.Machine.Nodes, cs.Machine.NodesPer = cs.Nodes, cs.NodesPer
		var cfgs []*c16Config
		if cs.Config != nil {
			cfgs = append(cfgs, cs.Config)
		}
		c16RunMachine(ctx, cs.Machine, 0, cs.Config == nil, cfgs) // a Part B witness re-runs only its configuration
		return
	}
	maxCPUs, nCfg := 64, 3
	if ctx.Tier == "thorough" {
		maxCPUs, nCfg = 128, 5
	}
	machines := sysgen.Catalogue()
	for i := 0; i < ctx.N; i++ {
		machines = append(machines, sysgen.Random(ctx.RNG.Fork(), fmt.Sprintf("r%d-%d-%d", ctx.Seed, ctx.Shard, i), maxCPUs))
	}
	for idx, m := range machines {
		rng := ctx.RNG.Fork()
		if c16SplitL2AtNodes(m) {
			ctx.Count("machines_l2_split_at_node_boundary")
		}
		if c16MovableOnlyNode(m) {
			ctx.Count("machines_with_movable_only_cpu_node")
		}
		mod := c16NewModel(m)
		var cfgs []*c16Config
		for k := 0; k < nCfg; k++ {
			cfgs = append(cfgs, c16GenConfig(rng, mod, k))
		}
		c16RunMachine(ctx, m, idx, true, cfgs)
	}
}
