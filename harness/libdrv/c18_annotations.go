package libdrv

// C18 (resource-policy CACHE part) — effective annotations: container-specific beats pod-wide
// beats the bare key; annotations addressed to other containers have no effect; the result does
// not depend on the order in which annotations are stored.
//
// Subjects are REAL cache pods/containers (cache.NewCache + InsertPod + InsertContainer).
//
// Oracle (written from the interface comment of Pod.GetEffectiveAnnotation in
// pkg/resmgr/cache/cache.go: "For any given key $K and container $C it will look for annotations
// in this order and return the first one found: $K/container.$C, $K/pod, $K"):
//
//	ref(K, C) = ann[K+"/container."+C]  if present
//	            ann[K+"/pod"]            else if present
//	            ann[K]                   else if present
//	            ("", false)              otherwise
//
// checks
//
//	effective        Pod.GetEffectiveAnnotation(K, name) == ref(K, name) for every queried key and
//	                 name (names of the pod's containers and names of containers that do not exist)
//	effective-ctr    Container.GetEffectiveAnnotation(K) == ref(K, own name)
//	other-container  removing every annotation that is not one of the three forms for (K, C) does
//	                 not change the real result for (K, C)
//	typed:*          helpers that sit on top of the resolver, with the real keys:
//	                 Container.PreserveCpuResources / PreserveMemoryResources / MemoryTypes,
//	                 RDT / block-I/O class picked up at InsertContainer, and the topology-aware
//	                 policy's preference helpers (prefer-isolated-cpus, prefer-shared-cpus,
//	                 prefer-cpu-priority, hide-hyperthreads, memory-type, cold-start,
//	                 prefer-reserved-cpus) read through the overlay accessor VerifPreferences.
//	                 Expected values are derived from ref() and the documented value syntax only;
//	                 for values whose meaning the documentation does not define ("True", "1", "")
//	                 the typed oracle is silent (the raw resolver check still applies).
//
// Every map is stored in 4 insertion orders (as generated, reversed, two shuffles): the pod and its
// containers are inserted with the first one; for the others the Annotations map of the very
// *api.PodSandbox the cache holds is replaced by a map re-built in the other order (one InsertPod
// costs a cache.Save(), i.e. file I/O). Every query is evaluated 16 times per order (Go randomises map iteration per range
// loop; repetition samples iteration orders).
//
// N = number of annotation maps. Each map produces |keys| x |names| queries x 16 x 4 evaluations.
//
// ctx.See rule (distinct NON-TRIVIAL case): the map holds, for at least one queried key, either two
// or more of the three forms that apply to one real container, or one such form together with at
// least one look-alike / other-container entry. The hash covers keys, container names and the
// sorted annotation set.

import (
	"crypto/sha1"
	"encoding/hex"
	"fmt"
	"os"
	"path/filepath"
	"sort"
	"strings"

	"github.com/containerd/nri/pkg/api"
	topologyaware "github.com/containers/nri-plugins/cmd/plugins/topology-aware/policy"
	"github.com/containers/nri-plugins/pkg/resmgr/cache"
	libmem "github.com/containers/nri-plugins/pkg/resmgr/lib/memory"

	"verif/harness/sysgen"
)

func init() { Register("C18", runC18) }

const (
	c18Reps   = 16
	c18Domain = "resource-policy.nri.io"
)

// real keys (spelled out from the documentation; the cache's exported constants are used where
// they exist so that a renamed constant cannot silently detach the check from the code)
var (
	c18KeyCPUPreserve = cache.PreserveCpuKey
	c18KeyMemPreserve = cache.PreserveMemoryKey
	c18KeyMemType     = cache.MemoryTypeKey
	c18KeyRDT         = cache.RDTClassKey
	c18KeyBlockIO     = cache.BlockIOClassKey
	c18KeyTopoHints   = cache.TopologyHintsKey
	c18KeyIsolated    = "prefer-isolated-cpus." + c18Domain
	c18KeyShared      = "prefer-shared-cpus." + c18Domain
	c18KeyPrio        = "prefer-cpu-priority." + c18Domain
	c18KeyHideHT      = "hide-hyperthreads." + c18Domain
	c18KeyColdStart   = "cold-start." + c18Domain
	c18KeyReserved    = "prefer-reserved-cpus." + c18Domain
	c18KeyBalloon     = "balloon.balloons." + c18Domain
)

type c18Case struct {
	Idx    int         `json:"idx"`
	Mode   string      `json:"mode"` // generic | typed
	Keys   []string    `json:"keys"` // queried keys
	Ctrs   []string    `json:"ctrs"` // names of the pod's real containers
	Ghosts []string    `json:"ghosts"`
	Ann    [][2]string `json:"ann"` // annotations in generated insertion order (keys unique)
	Shuf   []uint64    `json:"shuf"`
}

func c18Ref(ann map[string]string, key, ctr string) (string, bool) {
	if v, ok := ann[key+"/container."+ctr]; ok {
		return v, true
	}
	if v, ok := ann[key+"/pod"]; ok {
		return v, true
	}
	v, ok := ann[key]
	return v, ok
}

func c18ValidLabel(s string) bool {
	if len(s) == 0 || len(s) > 63 {
		return false
	}
	for i := 0; i < len(s); i++ {
		c := s[i]
		alnum := c >= 'a' && c <= 'z' || c >= '0' && c <= '9'
		if !alnum && c != '-' {
			return false
		}
		if !alnum && (i == 0 || i == len(s)-1) {
			return false
		}
	}
	return true
}

func c18Names(r *sysgen.RNG) (ctrs, ghosts []string) {
	base := sysgen.Pick(r, []string{"app", "web", "c", "nginx", "a-b", "x1", "pod", "container"})
	cand := []string{base, base + "-1", base + "-sidecar", base + "0", "x" + base, base + "-" + base, base + base}
	if len(base) > 1 {
		cand = append(cand, base[:len(base)-1], base[1:])
	}
	var ok []string
	seen := map[string]bool{}
	for _, c := range cand {
		if c18ValidLabel(c) && !seen[c] {
			seen[c] = true
			ok = append(ok, c)
		}
	}
	// target first, then 0..3 others in random order
	n := r.Range(1, 4)
	perm := c18Perm(r, len(ok))
	for _, i := range perm {
		if len(ctrs) < n {
			ctrs = append(ctrs, ok[i])
		} else if len(ghosts) < 2 {
			ghosts = append(ghosts, ok[i])
		}
	}
	ghosts = append(ghosts, ctrs[0]+".1", "")
	return
}

func c18Perm(r *sysgen.RNG, n int) []int {
	p := make([]int, n)
	for i := range p {
		p[i] = i
	}
	for i := n - 1; i > 0; i-- {
		j := r.Intn(i + 1)
		p[i], p[j] = p[j], p[i]
	}
	return p
}

func c18Lookalikes(r *sysgen.RNG, k string, names []string) []string {
	c := sysgen.Pick(r, names)
	l := []string{
		k + "/container.", k + "/container", k + "/container." + c + "x", k + "/container.x" + c,
		k + "/container." + strings.ToUpper(c), k + "/container." + c + "/pod", k + "/container." + c + ".",
		k + "/container." + c + "-", k + "/containers." + c, k + "/container-" + c, k + "/container." + c + ".1",
		k + "/pod/", k + "/Pod", k + "/pods", k + "/", k + "x", "x" + k, k + "/pod/container." + c,
		k + ".container." + c, k + "/container/" + c, k + "/pod." + c,
	}
	if len(c) > 1 {
		l = append(l, k+"/container."+c[:len(c)-1], k+"/container."+c[1:])
	}
	if len(k) > 1 {
		l = append(l, k[:len(k)-1], k[1:])
	}
	return l
}

var c18TypedValues = map[string][]string{}

func init() {
	bools := []string{"true", "false", "true", "false", "True", "1", ""}
	c18TypedValues[c18KeyCPUPreserve] = bools
	c18TypedValues[c18KeyMemPreserve] = bools
	c18TypedValues[c18KeyIsolated] = bools
	c18TypedValues[c18KeyShared] = bools
	c18TypedValues[c18KeyHideHT] = bools
	c18TypedValues[c18KeyReserved] = bools
	c18TypedValues[c18KeyMemType] = []string{"dram", "pmem", "hbm", "dram,pmem", "pmem,hbm", "dram,hbm", "dram,pmem,hbm", "mixed", "DRAM,HBM", "sram", ""}
	c18TypedValues[c18KeyPrio] = []string{"high", "normal", "low", "none", "default", "urgent"}
	c18TypedValues[c18KeyColdStart] = []string{"duration: 1s", "duration: 2s", "duration: 3s", "duration: 5s", "duration: 60s", "duration: 90m", "duration: 2h", "bogus: ["}
	c18TypedValues[c18KeyRDT] = []string{"gold", "silver", "bronze", "c0", ""}
	c18TypedValues[c18KeyBlockIO] = []string{"fast", "slow", "throttled", ""}
	c18TypedValues[c18KeyTopoHints] = []string{"true", "false", "devices", "none"}
	c18TypedValues[c18KeyBalloon] = []string{"perf", "batch", "default", "reserved", "nosuch"}
}

var c18TypedKeys = []string{}

func init() {
	for k := range c18TypedValues {
		c18TypedKeys = append(c18TypedKeys, k)
	}
	sort.Strings(c18TypedKeys)
}

func c18Gen(r *sysgen.RNG, idx int) *c18Case {
	cs := &c18Case{Idx: idx, Mode: "generic"}
	if r.Chance(2, 5) {
		cs.Mode = "typed"
	}
	cs.Ctrs, cs.Ghosts = c18Names(r)
	names := append(append([]string{}, cs.Ctrs...), cs.Ghosts...)
	if cs.Mode == "typed" {
		perm := c18Perm(r, len(c18TypedKeys))
		n := r.Range(1, 5)
		for _, i := range perm[:n] {
			cs.Keys = append(cs.Keys, c18TypedKeys[i])
		}
	} else {
		base := sysgen.Pick(r, []string{"k", "key.example.io", "a/b", "x/pod", "x/container." + cs.Ctrs[0], "", "x", "some.key." + c18Domain})
		cs.Keys = []string{base}
		// look-alike keys are queried as keys in their own right as well
		switch r.Intn(4) {
		case 0:
			cs.Keys = append(cs.Keys, base+"/pod")
		case 1:
			cs.Keys = append(cs.Keys, base+"/container."+cs.Ctrs[0])
		case 2:
			if len(base) > 1 {
				cs.Keys = append(cs.Keys, base[:len(base)-1])
			}
		}
	}
	used := map[string]bool{}
	nval := 0
	add := func(k, key string) {
		if used[k] {
			return
		}
		used[k] = true
		v := fmt.Sprintf("v%d", nval)
		nval++
		if vals, ok := c18TypedValues[key]; ok && cs.Mode == "typed" {
			v = sysgen.Pick(r, vals)
		} else if r.Chance(1, 12) {
			v = ""
		}
		cs.Ann = append(cs.Ann, [2]string{k, v})
	}
	for _, k := range cs.Keys {
		// any subset of the three forms for the target, per real container independently
		if r.Chance(1, 2) {
			add(k, k)
		}
		if r.Chance(1, 2) {
			add(k+"/pod", k)
		}
		for _, c := range names {
			if r.Chance(2, 5) {
				add(k+"/container."+c, k)
			}
		}
		la := c18Lookalikes(r, k, names[:len(names)-1])
		for n := r.Range(0, 4); n > 0; n-- {
			add(sysgen.Pick(r, la), k)
		}
	}
	// unrelated noise so that maps grow past one bucket sometimes
	for n := r.Intn(12); n > 0; n-- {
		add(fmt.Sprintf("noise-%d.example.io/%d", r.Intn(50), r.Intn(5)), "")
	}
	// generated insertion order is itself random
	perm := c18Perm(r, len(cs.Ann))
	ann := make([][2]string, len(cs.Ann))
	for i, j := range perm {
		ann[i] = cs.Ann[j]
	}
	cs.Ann = ann
	cs.Shuf = []uint64{r.Uint64(), r.Uint64()}
	return cs
}

func (cs *c18Case) nontrivial() bool {
	m := map[string]bool{}
	for _, kv := range cs.Ann {
		m[kv[0]] = true
	}
	for _, k := range cs.Keys {
		for _, c := range cs.Ctrs {
			forms := 0
			for _, f := range []string{k, k + "/pod", k + "/container." + c} {
				if m[f] {
					forms++
				}
			}
			others := 0
			for a := range m {
				if strings.HasPrefix(a, k) && a != k && a != k+"/pod" && a != k+"/container."+c {
					others++
				}
			}
			if forms >= 2 || forms >= 1 && others >= 1 {
				return true
			}
		}
	}
	return false
}

func (cs *c18Case) hash() string {
	s := append([][2]string{}, cs.Ann...)
	sort.Slice(s, func(i, j int) bool { return s[i][0] < s[j][0] })
	h := sha1.New()
	fmt.Fprintf(h, "%q|%q|%q", cs.Keys, cs.Ctrs, s)
	return hex.EncodeToString(h.Sum(nil))[:16]
}

func c18Orders(cs *c18Case) [][][2]string {
	n := len(cs.Ann)
	rev := make([][2]string, n)
	for i := range cs.Ann {
		rev[n-1-i] = cs.Ann[i]
	}
	out := [][][2]string{cs.Ann, rev}
	for _, s := range cs.Shuf {
		r := sysgen.NewRNG(s)
		o := make([][2]string, n)
		for i, j := range c18Perm(r, n) {
			o[i] = cs.Ann[j]
		}
		out = append(out, o)
	}
	return out
}

var c18MemBits = map[string]int{
	"dram":  int(libmem.TypeMaskDRAM),
	"pmem":  int(libmem.TypeMaskPMEM),
	"hbm":   int(libmem.TypeMaskHBM),
	"mixed": int(libmem.TypeMaskDRAM | libmem.TypeMaskPMEM | libmem.TypeMaskHBM),
}

var c18ColdNs = map[string]int64{
	"duration: 1s": 1e9, "duration: 2s": 2e9, "duration: 3s": 3e9, "duration: 5s": 5e9, "duration: 60s": 60e9,
}

// c18Typed checks the typed helpers for one real container against expectations derived from ref().
func c18Typed(ctx *Ctx, cs *c18Case, ord int, ann map[string]string, pod cache.Pod, c cache.Container, insert bool) {
	name := c.GetName()
	fail := func(check, key, format string, args ...interface{}) {
		ctx.Violate("typed:"+check, key, cs, "order %d container %q: "+format, append([]interface{}{ord, name}, args...)...)
	}
	boolOf := func(key string) (val, present, defined bool) {
		v, ok := c18Ref(ann, key, name)
		if !ok {
			return false, false, true
		}
		switch v {
		case "true":
			return true, true, true
		case "false":
			return false, true, true
		}
		return false, true, false
	}
	has := func(key string) bool {
		for _, k := range cs.Keys {
			if k == key {
				return true
			}
		}
		return false
	}
	var prefs topologyaware.VerifPrefs
	if msg, site := Guard(func() { prefs = topologyaware.VerifPreferences(pod, c) }); msg != "" {
		ctx.Count("typed_panics")
		ctx.Violate("typed:panic", site, cs, "preference helpers panicked for container %q: %s", name, msg)
		return
	}
	for rep := 0; rep < 4; rep++ {
		if has(c18KeyCPUPreserve) {
			if want, _, def := boolOf(c18KeyCPUPreserve); def {
				ctx.Eval()
				if got := c.PreserveCpuResources(); got != want {
					fail("preserve-cpu", c18KeyCPUPreserve, "PreserveCpuResources()=%v, effective annotation says %v", got, want)
				}
			} else {
				ctx.Count("typed_silent")
			}
		}
		if has(c18KeyMemPreserve) {
			if want, _, def := boolOf(c18KeyMemPreserve); def {
				ctx.Eval()
				if got := c.PreserveMemoryResources(); got != want {
					fail("preserve-memory", c18KeyMemPreserve, "PreserveMemoryResources()=%v, effective annotation says %v", got, want)
				}
			} else {
				ctx.Count("typed_silent")
			}
		}
		if has(c18KeyMemType) {
			ctx.Eval()
			got, gerr := c.MemoryTypes()
			v, ok := c18Ref(ann, c18KeyMemType, name)
			if !ok {
				if got != 0 || gerr != nil {
					fail("memory-types", c18KeyMemType, "MemoryTypes()=(%v,%v) without any effective annotation", got, gerr)
				}
			} else {
				want, werr := libmem.ParseTypeMask(v)
				if (gerr != nil) != (werr != nil) || gerr == nil && got != want {
					fail("memory-types", c18KeyMemType, "MemoryTypes()=(%v,%v), effective value %q parses to (%v,%v)", got, gerr, v, want, werr)
				}
			}
		}
	}
	if insert {
		// classes are picked up when the container is inserted; they are only comparable on a
		// container that was inserted while this very map was in place
		if has(c18KeyRDT) {
			ctx.Eval()
			want, _ := c18Ref(ann, c18KeyRDT, name)
			if got := c.GetRDTClass(); got != want {
				fail("rdt-class", c18KeyRDT, "RDT class after insertion %q, effective annotation %q", got, want)
			}
		}
		if has(c18KeyBlockIO) {
			ctx.Eval()
			want, _ := c18Ref(ann, c18KeyBlockIO, name)
			if got := c.GetBlockIOClass(); got != want {
				fail("blockio-class", c18KeyBlockIO, "block I/O class after insertion %q, effective annotation %q", got, want)
			}
		}
	}
	if has(c18KeyIsolated) {
		if want, present, def := boolOf(c18KeyIsolated); def {
			ctx.Eval()
			if prefs.Isolated != want || prefs.IsolatedAnnotated != present {
				fail("ta-isolated", c18KeyIsolated, "isolatedCPUsPreference=(%v, annotated %v), expected (%v, %v)", prefs.Isolated, prefs.IsolatedAnnotated, want, present)
			}
		}
	}
	if has(c18KeyShared) {
		if want, present, def := boolOf(c18KeyShared); def {
			ctx.Eval()
			if prefs.Shared != want || prefs.SharedAnnotated != present {
				fail("ta-shared", c18KeyShared, "sharedCPUsPreference=(%v, annotated %v), expected (%v, %v)", prefs.Shared, prefs.SharedAnnotated, want, present)
			}
		}
	}
	if has(c18KeyHideHT) {
		if want, _, def := boolOf(c18KeyHideHT); def {
			ctx.Eval()
			if prefs.HideHT != want {
				fail("ta-hide-ht", c18KeyHideHT, "hideHyperthreadsPreference=%v, expected %v", prefs.HideHT, want)
			}
		}
	}
	if has(c18KeyReserved) {
		if want, present, def := boolOf(c18KeyReserved); def {
			ctx.Eval()
			if prefs.Reserved != want || prefs.ReservedExplicit != present {
				fail("ta-reserved", c18KeyReserved, "checkReservedCPUsAnnotations=(%v,%v), expected (%v,%v)", prefs.Reserved, prefs.ReservedExplicit, want, present)
			}
		}
	}
	if has(c18KeyPrio) {
		v, ok := c18Ref(ann, c18KeyPrio, name)
		want, def := "none", true
		if ok {
			switch v {
			case "high", "normal", "low", "none":
				want = v
			default:
				def = false
			}
		}
		if def {
			ctx.Eval()
			if prefs.CPUPrio != want {
				fail("ta-cpu-prio", c18KeyPrio, "cpuPrioPreference=%q, expected %q", prefs.CPUPrio, want)
			}
		}
	}
	if has(c18KeyMemType) {
		pres, _, pdef := boolOf(c18KeyMemPreserve)
		if pdef && !pres {
			v, ok := c18Ref(ann, c18KeyMemType, name)
			want, def := 0, true
			if ok && v != "" {
				for _, t := range strings.Split(v, ",") {
					b, known := c18MemBits[t]
					if !known {
						def = false
					}
					want |= b
				}
			} else if ok {
				def = false
			}
			if def {
				ctx.Eval()
				if prefs.MemType != want || prefs.MemPreserve {
					fail("ta-memory-type", c18KeyMemType, "memoryTypePreference=%#x (preserve %v), expected %#x", prefs.MemType, prefs.MemPreserve, want)
				}
			}
		} else if pdef && pres {
			ctx.Eval()
			if !prefs.MemPreserve {
				fail("ta-memory-type", c18KeyMemPreserve, "memoryTypePreference=%#x although memory.preserve is effectively true", prefs.MemType)
			}
		}
	}
	if has(c18KeyColdStart) {
		v, ok := c18Ref(ann, c18KeyColdStart, name)
		want, def := int64(0), true
		if ok {
			want, def = c18ColdNs[v]
		}
		if def {
			ctx.Eval()
			if prefs.ColdStartNs != want || prefs.ColdStartErr != "" {
				fail("ta-cold-start", c18KeyColdStart, "coldStartPreference=(%d ns, %q), expected %d ns", prefs.ColdStartNs, prefs.ColdStartErr, want)
			}
		}
	}
}

// c18World is the real cache the pods live in. Every insertion makes the cache save itself to
// disk, so pods are not deleted one by one (another save each); the whole cache is replaced by a
// fresh one every c18Batch maps instead.
type c18World struct {
	dir  string
	cch  cache.Cache
	next int
	maps int
}

const c18Batch = 16

func (w *c18World) fresh() error {
	os.RemoveAll(w.dir)
	if err := os.MkdirAll(w.dir, 0o755); err != nil {
		return err
	}
	cch, err := cache.NewCache(cache.Options{CacheDir: w.dir})
	if err != nil {
		return err
	}
	w.cch, w.maps = cch, 0
	return nil
}

func c18Run(ctx *Ctx, w *c18World, cs *c18Case) {
	if cs.nontrivial() {
		ctx.See(cs.hash())
	}
	ctx.Count("maps")
	ctx.Count("maps_" + cs.Mode)
	names := append(append([]string{}, cs.Ctrs...), cs.Ghosts...)
	var (
		pod    cache.Pod
		apiPod *api.PodSandbox
		ctrs   = map[string]cache.Container{}
		ids    []string
		podID  string
	)
	_ = ids
	for ord, list := range c18Orders(cs) {
		ann := map[string]string{}   // the reference's own copy
		given := map[string]string{} // handed to the cache (it keeps and may mutate it)
		for _, kv := range list {
			ann[kv[0]] = kv[1]
			given[kv[0]] = kv[1]
		}
		if ord == 0 {
			// a real pod with real containers, inserted while the first map is in place
			w.next++
			podID = fmt.Sprintf("pod-%d-%d", cs.Idx, w.next)
			apiPod = &api.PodSandbox{
				Id: podID, Uid: "uid-" + podID, Name: "p-" + podID, Namespace: "default",
				Annotations: given, Labels: map[string]string{},
				Linux:       &api.LinuxPodSandbox{CgroupParent: "/kubepods.slice/kubepods-burstable.slice/kubepods-burstable-pod" + podID + ".slice"},
			}
			msg, site := Guard(func() {
				pod = w.cch.InsertPod(apiPod, nil)
				for i, n := range cs.Ctrs {
					id := fmt.Sprintf("%s-c%d", podID, i)
					c, err := w.cch.InsertContainer(&api.Container{
						Id: id, PodSandboxId: podID, Name: n, State: api.ContainerState_CONTAINER_CREATED,
						Labels: map[string]string{}, Annotations: map[string]string{},
					})
					if err != nil {
						panic(fmt.Sprintf("InsertContainer: %v", err))
					}
					ids = append(ids, id)
					ctrs[n] = c
				}
			})
			if msg != "" {
				ctx.Count("insert_panics")
				ctx.Violate("insert", site, cs, "inserting the pod/containers failed: %s", msg)
				return
			}
		} else {
			// the same annotations stored in another insertion order: the cache keeps the
			// *api.PodSandbox it was given, so the pod now reads the re-built map
			apiPod.Annotations = given
		}
		for _, k := range cs.Keys {
			for _, n := range names {
				wantV, wantOK := c18Ref(ann, k, n)
				for rep := 0; rep < c18Reps; rep++ {
					ctx.Eval()
					gotV, gotOK := pod.GetEffectiveAnnotation(k, n)
					if gotV != wantV || gotOK != wantOK {
						ctx.Violate("effective", "Pod.GetEffectiveAnnotation", cs,
							"order %d rep %d: Pod.GetEffectiveAnnotation(%q, %q) = (%q,%v), reference (%q,%v)", ord, rep, k, n, gotV, gotOK, wantV, wantOK)
						break
					}
					if c, real := ctrs[n]; real {
						ctx.Eval()
						gotV, gotOK = c.GetEffectiveAnnotation(k)
						if gotV != wantV || gotOK != wantOK {
							ctx.Violate("effective-ctr", "Container.GetEffectiveAnnotation", cs,
								"order %d rep %d: container %q GetEffectiveAnnotation(%q) = (%q,%v), reference (%q,%v)", ord, rep, n, k, gotV, gotOK, wantV, wantOK)
							break
						}
					}
				}
				if wantOK {
					ctx.Count("resolved")
				} else {
					ctx.Count("unresolved")
				}
			}
		}
		if cs.Mode == "typed" {
			for _, n := range cs.Ctrs {
				c18Typed(ctx, cs, ord, ann, pod, ctrs[n], ord == 0)
			}
		}
		// annotations addressed to anything else must not matter: strip them (the cache keeps the
		// map we handed over, so deleting from it changes what the real pod sees) and ask again
		if ord == 0 {
			k, c := cs.Keys[0], cs.Ctrs[0]
			beforeV, beforeOK := pod.GetEffectiveAnnotation(k, c)
			for a := range given {
				if a != k && a != k+"/pod" && a != k+"/container."+c {
					delete(given, a)
				}
			}
			ctx.Eval()
			afterV, afterOK := pod.GetEffectiveAnnotation(k, c)
			if beforeV != afterV || beforeOK != afterOK {
				ctx.Violate("other-container", "Pod.GetEffectiveAnnotation", cs,
					"(%q,%q): (%q,%v) with all annotations, (%q,%v) once every annotation not addressed to it is removed", k, c, beforeV, beforeOK, afterV, afterOK)
			}
		}
	}
}

func runC18(ctx *Ctx) {
	w := &c18World{dir: filepath.Join(ctx.Work, "c18-cache")}
	defer os.RemoveAll(w.dir)
	if err := w.fresh(); err != nil {
		ctx.Count("setup_failed")
		return
	}
	if ctx.Replay != "" {
		cs := &c18Case{}
		if err := LoadCase(ctx.Replay, cs); err != nil {
			fmt.Println("replay: cannot load case:", err)
			ctx.Violate("replay", "load", nil, "cannot load %s: %v", ctx.Replay, err)
			return
		}
		c18Run(ctx, w, cs)
		return
	}
	for i := 0; i < ctx.N; i++ {
		cs := c18Gen(ctx.RNG.Fork(), i)
		if i%(ctx.N/3+1) == 0 {
			ctx.Sample(cs)
		}
		if w.maps >= c18Batch {
			if err := w.fresh(); err != nil {
				ctx.Count("setup_failed")
				return
			}
		}
		w.maps++
		c18Run(ctx, w, cs)
	}
}
