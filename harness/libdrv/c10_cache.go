package libdrv

// C10 — the persisted pod/container cache round-trips and survives crashes during save.
//
// Code under test: pkg/resmgr/cache (NewCache, checkPerm, mkdirAll, Save, Load, Snapshot, Restore,
// SetPolicyEntry/GetPolicyEntry, the pod and container getters).
//
// The oracle compares caches only through c10Fingerprint(): a canonical, sorted rendering of every
// PUBLIC getter of every pod and container plus GetActivePolicy() and the policy entries read back
// with GetPolicyEntry (queried over fixed key universes, because the API cannot enumerate keys).
// Creation times and pending-change markers are excluded (not in the statement).
//
// Clauses (check ids):
//   roundtrip          build a cache from generated content, Save() must return nil, a second
//                      cache.NewCache on the same directory must load and have the same fingerprint
//                      (also: second generation — a reloaded cache that is saved again reloads equal)
//   rename-only        an uninjected child run under strace: <dir>/cache is never opened for
//                      writing / created / truncated and never the source of a rename
//   kill-load-failed / kill-state-mismatch
//                      child (prop C10child) performs K ops each ending in a save and logs
//                      "BEGIN i <pre> <post> <kind>" / "END i <hash> <flag>" to <dir>/oplog; the parent
//                      kills it with strace inject=<call>:signal=SIGKILL:when=N for call in write,
//                      renameat, openat, close, N swept until the child survives (injection restricted
//                      with -P to cache, cache.saving and the oplog), then loads <dir>/state itself:
//                      it must load and equal END i (op finished) or pre/post of the unfinished op
//   truncated-temp     next to an intact cache file every prefix of the NEXT snapshot (all lengths
//                      below 4 KiB, ~200 sampled otherwise) and garbage is planted as cache.saving:
//                      NewCache must load the PREVIOUS snapshot; a following Save must work
//   error-load-failed / error-state-mismatch / error-child-crashed
//                      write:error=ENOSPC|EIO, renameat:error=EDQUOT, openat:error=EACCES on the N-th
//                      such call on the cache file / its temporary; the child stops after the op
//                      whose save did not replace the cache file; the state must load and be pre or
//                      post of that op, and post if an explicit Save() returned nil
//   refusal-accepted / refusal-rejected-valid / refusal-side-effect
//                      {cache file, state dir, containers dir} x {symlink, wrong type, g+w, o+w,
//                      g+w+o+w} must be refused by NewCache; correct set-ups must be accepted
//
// The child pins its goroutine to one thread (runtime.LockOSThread), so strace's per-thread when=N is
// the N-th call of the history: sweeps are reproducible and complete (every openat/write/close/
// renameat of every save, every oplog write between ops). Injection is restricted with -P to
// <state>/cache, <state>/cache.saving (and the oplog for kills); the twin's files are never hit.
// Informational counters (never violations): info_temp_symlink_followed (cache.saving is not among
// the checked objects; Save() writes through a symbolic link planted there), info_load_error_swallowed
// (an EACCES on reading the cache file makes Load() start empty without an error).
// harness_* counters flag runs the driver discarded because its own machinery misbehaved.
//
// N (ctx.N) = number of round-trip caches. Sweep sizes derive from the tier:
//   quick:    1 child history (K=10 ops), truncated-temp on 3 snapshot pairs
//   thorough: 8 child histories (K=8 ops), truncated-temp on 20 snapshot pairs
// ctx.Shard selects different child seeds / contents (everything derives from ctx.RNG).
//
// See() rule: one hash per distinct content SHAPE of a round trip (pods, containers, which optional
// parts are present, which entry types) — "rt:<shape>"; one per distinct kill point
// "kill:<op kind>:<syscall>:<path class>:<N>"; one per error point "err:<op kind>:<call>:<errno>:<N>";
// one per refusal case and per truncated-prefix snapshot pair.

import (
	"bufio"
	"context"
	"crypto/sha256"
	"encoding/base64"
	"encoding/hex"
	"encoding/json"
	"fmt"
	"math"
	"math/big"
	"os"
	"os/exec"
	"path/filepath"
	"runtime"
	"sort"
	"strconv"
	"strings"
	"syscall"
	"time"

	nri "github.com/containerd/nri/pkg/api"
	"github.com/containers/nri-plugins/pkg/agent/podresapi"
	resmgr "github.com/containers/nri-plugins/pkg/apis/resmgr/v1alpha1"
	"github.com/containers/nri-plugins/pkg/cgroups"
	"github.com/containers/nri-plugins/pkg/kubernetes"
	"github.com/containers/nri-plugins/pkg/resmgr/cache"
	"github.com/containers/nri-plugins/pkg/utils/cpuset"
	corev1 "k8s.io/api/core/v1"
	"k8s.io/apimachinery/pkg/api/resource"
	podresv1 "k8s.io/kubelet/pkg/apis/podresources/v1"

	"verif/harness/sysgen"
)

func init() {
	Register("C10", runC10)
	Register("C10child", runC10Child)
}

// ------------------------------------------------------------------------------------------
// key universes (the fingerprint queries exactly these keys)

var (
	c10CtrNames     = []string{"c0", "c1", "c2", "c3"}
	c10PodLabelKeys = []string{"app", "tier", "pod-template-hash", kubernetes.ResmgrKey("group"), "io.kubernetes.pod.name"}
	c10AnnBases     = []string{
		cache.RDTClassKey, cache.BlockIOClassKey, cache.ToptierLimitKey, cache.TopologyHintsKey,
		cache.PreserveCpuKey, cache.PreserveMemoryKey, cache.MemoryTypeKey,
		"prefer-isolated-cpus." + kubernetes.ResmgrKeyNamespace,
		"allow." + cache.TopologyHintsKey, "deny." + cache.TopologyHintsKey,
	}
	c10AffinityKey     = kubernetes.ResmgrKey("affinity")
	c10AntiAffinityKey = kubernetes.ResmgrKey("anti-affinity")
	c10PlainPodAnn     = []string{"kubernetes.io/config.source", "note", c10AffinityKey, c10AntiAffinityKey}
	c10CtrLabelKeys    = []string{"io.kubernetes.container.name", "io.kubernetes.pod.uid", "x", kubernetes.ResmgrKey("hint")}
	c10CtrAnnKeys      = []string{"io.kubernetes.container.hash", "note", "json", kubernetes.ResmgrKey("opt")}
	c10EnvKeys         = []string{"PATH", "HOME", "EMPTY", "X_Y", "NOEQ"}
	c10TagKeys         = []string{"prefer-shared", "group", "ttl", "", "topology-aware/pool"}
	c10EntryTypes      = []string{"string", "bool", "int", "uint", "int32", "uint32", "int64", "uint64", "cpuset", "cpusetmap", "stringmap"}
	c10EntriesPerType  = 2
	c10PodAnnKeysCache []string
)

func c10PodAnnKeys() []string {
	if c10PodAnnKeysCache != nil {
		return c10PodAnnKeysCache
	}
	var ks []string
	for _, b := range c10AnnBases {
		ks = append(ks, b, b+"/pod")
		for _, n := range c10CtrNames {
			ks = append(ks, b+"/container."+n)
		}
	}
	ks = append(ks, c10PlainPodAnn...)
	sort.Strings(ks)
	c10PodAnnKeysCache = ks
	return ks
}

func c10EntryKey(typ string, i int) string { return "pe:" + typ + ":" + strconv.Itoa(i) }

func c10Sha(s string) string {
	h := sha256.Sum256([]byte(s))
	return hex.EncodeToString(h[:])
}

// ------------------------------------------------------------------------------------------
// fingerprint

// c10Qty renders a quantity by value (independent of format and internal representation).
func c10Qty(q resource.Quantity) string {
	qq := q.DeepCopy()
	d := qq.AsDec()
	u := new(big.Int).Set(d.UnscaledBig())
	scale := int(d.Scale())
	ten := big.NewInt(10)
	if u.Sign() == 0 {
		return "0"
	}
	for scale > 0 {
		m := new(big.Int)
		qv, _ := new(big.Int).QuoRem(u, ten, m)
		if m.Sign() != 0 {
			break
		}
		u = qv
		scale--
	}
	for scale < 0 {
		u.Mul(u, ten)
		scale++
	}
	return u.String() + "e-" + strconv.Itoa(scale)
}

func c10ResList(name string, l corev1.ResourceList) string {
	var ks []string
	for k := range l {
		ks = append(ks, string(k))
	}
	sort.Strings(ks)
	var sb strings.Builder
	sb.WriteString(name + "{")
	for _, k := range ks {
		fmt.Fprintf(&sb, "%s=%s;", k, c10Qty(l[corev1.ResourceName(k)]))
	}
	sb.WriteString("}")
	return sb.String()
}

func c10Req(r corev1.ResourceRequirements) string {
	return c10ResList("requests", r.Requests) + " " + c10ResList("limits", r.Limits)
}

func c10Expr(e *resmgr.Expression) string {
	if e == nil {
		return "<nil>"
	}
	vals := append([]string{}, e.Values...)
	switch e.Op {
	case resmgr.In, resmgr.NotIn, resmgr.MatchesAny, resmgr.MatchesNone:
		sort.Strings(vals) // set semantics: order is not observable behaviour
	}
	return fmt.Sprintf("(%q %s %q)", e.Key, e.Op, vals)
}

func c10Opt(ok bool, v string) string {
	if !ok {
		return "<absent>"
	}
	return strconv.Quote(v)
}

// c10Fingerprint renders everything observable through the public getters, canonically.
func c10Fingerprint(c cache.Cache) string { return c10FingerprintSkip(c, nil) }

// c10FingerprintSkip is c10Fingerprint that does not read the policy entries in skip (entries whose
// stored form was found unreadable: GetPolicyEntry would terminate the process with log.Fatal).
func c10FingerprintSkip(c cache.Cache, skip map[string]bool) string {
	var lines []string
	add := func(format string, a ...interface{}) { lines = append(lines, fmt.Sprintf(format, a...)) }

	add("active-policy %q", c.GetActivePolicy())

	pods := c.GetPods()
	sort.Slice(pods, func(i, j int) bool { return pods[i].GetID() < pods[j].GetID() })
	for _, p := range pods {
		pre := "pod " + p.GetID() + " "
		add(pre+"uid=%q name=%q namespace=%q qos=%q cgroupparent=%q", p.GetUID(), p.GetName(), p.GetNamespace(), p.GetQOSClass(), p.GetCgroupParent())
		for _, k := range c10PodLabelKeys {
			if v, ok := p.GetLabel(k); ok {
				add(pre+"label %q=%q", k, v)
			}
		}
		for _, k := range c10PodAnnKeys() {
			if v, ok := p.GetAnnotation(k); ok {
				add(pre+"annotation %q=%q", k, v)
			}
		}
		for _, b := range c10AnnBases {
			for _, n := range append([]string{"other"}, c10CtrNames...) {
				if v, ok := p.GetEffectiveAnnotation(b, n); ok {
					add(pre+"effective %q[%s]=%q", b, n, v)
				}
			}
		}
		if v, ok := p.GetResmgrAnnotation("affinity"); ok {
			add(pre+"resmgr-annotation affinity=%q", v)
		}
		if v, ok := p.GetResmgrLabel("group"); ok {
			add(pre+"resmgr-label group=%q", v)
		}
		var ids []string
		for _, pc := range p.GetContainers() {
			ids = append(ids, pc.GetID())
		}
		sort.Strings(ids)
		add(pre+"containers=%q", ids)
	}

	ctrs := c.GetContainers()
	sort.Slice(ctrs, func(i, j int) bool { return ctrs[i].GetID() < ctrs[j].GetID() })
	for _, k := range ctrs {
		pre := "ctr " + k.GetID() + " "
		_, hasPod := k.GetPod()
		add(pre+"pod=%q haspod=%v name=%q namespace=%q state=%d qos=%q", k.GetPodID(), hasPod, k.GetName(), k.GetNamespace(), int32(k.GetState()), k.GetQOSClass())
		add(pre+"args=%q", k.GetArgs())
		for _, e := range c10EnvKeys {
			if v, ok := k.GetEnv(e); ok {
				add(pre+"env %q=%q", e, v)
			}
		}
		for _, l := range c10CtrLabelKeys {
			if v, ok := k.GetLabel(l); ok {
				add(pre+"label %q=%q", l, v)
			}
		}
		for _, a := range c10CtrAnnKeys {
			if v, ok := k.GetAnnotation(a, nil); ok {
				add(pre+"annotation %q=%q", a, v)
			}
		}
		if v, ok := k.GetResmgrAnnotation("opt", nil); ok {
			add(pre+"resmgr-annotation opt=%q", v)
		}
		for _, b := range c10AnnBases {
			if v, ok := k.GetEffectiveAnnotation(b); ok {
				add(pre+"effective %q=%q", b, v)
			}
		}
		for i, m := range k.GetMounts() {
			add(pre+"mount[%d] dst=%q src=%q type=%q options=%q", i, m.Destination, m.Source, m.Type, m.Options)
		}
		for i, d := range k.GetDevices() {
			fm, uid, gid := "<absent>", "<absent>", "<absent>"
			if d.FileMode != nil {
				fm = strconv.FormatUint(uint64(d.FileMode.Value), 8)
			}
			if d.Uid != nil {
				uid = strconv.FormatUint(uint64(d.Uid.Value), 10)
			}
			if d.Gid != nil {
				gid = strconv.FormatUint(uint64(d.Gid.Value), 10)
			}
			add(pre+"device[%d] path=%q type=%q %d:%d mode=%s uid=%s gid=%s", i, d.Path, d.Type, d.Major, d.Minor, fm, uid, gid)
		}
		add(pre+"requirements %s", c10Req(k.GetResourceRequirements()))
		if u, ok := k.GetResourceUpdates(); ok {
			add(pre+"updates %s", c10Req(u))
		} else {
			add(pre + "updates <none>")
		}
		add(pre+"cpu shares=%d quota=%d period=%d cpus=%q mems=%q", k.GetCPUShares(), k.GetCPUQuota(), k.GetCPUPeriod(), k.GetCpusetCpus(), k.GetCpusetMems())
		add(pre+"memory limit=%d swap=%d", k.GetMemoryLimit(), k.GetMemorySwap())
		mt, mterr := k.MemoryTypes()
		add(pre+"preserve cpu=%v memory=%v memtypes=%d memtypes-err=%v", k.PreserveCpuResources(), k.PreserveMemoryResources(), uint64(mt), mterr != nil)
		for _, t := range c10TagKeys {
			if v, ok := k.GetTag(t); ok {
				add(pre+"tag %q=%q", t, v)
			}
		}
		hints := k.GetTopologyHints()
		var hk []string
		for n := range hints {
			hk = append(hk, n)
		}
		sort.Strings(hk)
		for _, n := range hk {
			h := hints[n]
			add(pre+"hint %q provider=%q cpus=%q numas=%q sockets=%q", n, h.Provider, h.CPUs, h.NUMAs, h.Sockets)
		}
		var affs []string
		var afferr error
		pmsg, _ := Guard(func() {
			var al []*cache.Affinity
			al, afferr = k.GetAffinity()
			for _, a := range al {
				if a == nil {
					affs = append(affs, "<nil>")
					continue
				}
				affs = append(affs, fmt.Sprintf("scope=%s match=%s weight=%d", c10Expr(a.Scope), c10Expr(a.Match), a.Weight))
			}
		})
		sort.Strings(affs) // weights add up: the order of a container's affinities is not behaviour
		switch {
		case pmsg != "":
			add(pre + "affinity <panic>")
		case afferr != nil:
			add(pre + "affinity <error>")
		default:
			for _, a := range affs {
				add(pre+"affinity %s", a)
			}
		}
		add(pre+"rdtclass=%q blockioclass=%q cgroupdir=%q", k.GetRDTClass(), k.GetBlockIOClass(), k.GetCgroupDir())
	}

	for _, typ := range c10EntryTypes {
		for i := 0; i < c10EntriesPerType; i++ {
			key := c10EntryKey(typ, i)
			if skip[key] {
				add("entry %s <unreadable>", key)
				continue
			}
			if s, ok := c10ReadEntry(c, typ, key); ok {
				add("entry %s %s", key, s)
			}
		}
	}
	return strings.Join(lines, "\n")
}

// c10ReadEntry reads a policy entry with exactly the Go type it was stored with.
func c10ReadEntry(c cache.Cache, typ, key string) (string, bool) {
	switch typ {
	case "string":
		var v string
		if c.GetPolicyEntry(key, &v) {
			return strconv.Quote(v), true
		}
	case "bool":
		var v bool
		if c.GetPolicyEntry(key, &v) {
			return fmt.Sprint(v), true
		}
	case "int":
		var v int
		if c.GetPolicyEntry(key, &v) {
			return fmt.Sprint(v), true
		}
	case "uint":
		var v uint
		if c.GetPolicyEntry(key, &v) {
			return fmt.Sprint(v), true
		}
	case "int32":
		var v int32
		if c.GetPolicyEntry(key, &v) {
			return fmt.Sprint(v), true
		}
	case "uint32":
		var v uint32
		if c.GetPolicyEntry(key, &v) {
			return fmt.Sprint(v), true
		}
	case "int64":
		var v int64
		if c.GetPolicyEntry(key, &v) {
			return fmt.Sprint(v), true
		}
	case "uint64":
		var v uint64
		if c.GetPolicyEntry(key, &v) {
			return fmt.Sprint(v), true
		}
	case "cpuset":
		var v cpuset.CPUSet
		if c.GetPolicyEntry(key, &v) {
			return "cpus[" + v.String() + "]", true
		}
	case "cpusetmap":
		var v map[string]cpuset.CPUSet
		if c.GetPolicyEntry(key, &v) {
			var ks []string
			for k := range v {
				ks = append(ks, k)
			}
			sort.Strings(ks)
			s := "{"
			for _, k := range ks {
				s += strconv.Quote(k) + ":[" + v[k].String() + "];"
			}
			return s + "}", true
		}
	case "stringmap":
		var v map[string]string
		if c.GetPolicyEntry(key, &v) {
			var ks []string
			for k := range v {
				ks = append(ks, k)
			}
			sort.Strings(ks)
			s := "{"
			for _, k := range ks {
				s += strconv.Quote(k) + ":" + strconv.Quote(v[k]) + ";"
			}
			return s + "}", true
		}
	}
	return "", false
}

// c10UnreadableEntries inspects the policy entries stored in <dir>/cache (documented snapshot form:
// member PolicyJSON, key -> JSON text) and returns the keys of our universe whose stored text cannot
// be decoded into the type it was stored with. Reading such a key would end in log.Fatal.
func c10UnreadableEntries(dir string) map[string]bool {
	bad := map[string]bool{}
	data, err := os.ReadFile(filepath.Join(dir, "cache"))
	if err != nil || len(data) == 0 {
		return bad
	}
	var snap struct {
		PolicyJSON map[string]string
	}
	if json.Unmarshal(data, &snap) != nil {
		return bad
	}
	for _, typ := range c10EntryTypes {
		for i := 0; i < c10EntriesPerType; i++ {
			key := c10EntryKey(typ, i)
			raw, ok := snap.PolicyJSON[key]
			if !ok {
				continue
			}
			var err error
			switch typ {
			case "string":
				var v string
				err = json.Unmarshal([]byte(raw), &v)
			case "bool":
				var v bool
				err = json.Unmarshal([]byte(raw), &v)
			case "int":
				var v int
				err = json.Unmarshal([]byte(raw), &v)
			case "uint":
				var v uint
				err = json.Unmarshal([]byte(raw), &v)
			case "int32":
				var v int32
				err = json.Unmarshal([]byte(raw), &v)
			case "uint32":
				var v uint32
				err = json.Unmarshal([]byte(raw), &v)
			case "int64":
				var v int64
				err = json.Unmarshal([]byte(raw), &v)
			case "uint64":
				var v uint64
				err = json.Unmarshal([]byte(raw), &v)
			case "cpuset":
				var v string
				if err = json.Unmarshal([]byte(raw), &v); err == nil {
					_, err = cpuset.Parse(v)
				}
			case "cpusetmap":
				var v map[string]string
				if err = json.Unmarshal([]byte(raw), &v); err == nil {
					for _, s := range v {
						if _, e := cpuset.Parse(s); e != nil {
							err = e
						}
					}
				}
			case "stringmap":
				var v map[string]string
				err = json.Unmarshal([]byte(raw), &v)
			}
			if err != nil {
				bad[key] = true
			}
		}
	}
	return bad
}

// c10LoadedFingerprint fingerprints a cache that was loaded from dir, protecting the process
// against log.Fatal on unreadable stored entries.
func c10LoadedFingerprint(dir string, c cache.Cache) (string, map[string]bool) {
	bad := c10UnreadableEntries(dir)
	return c10FingerprintSkip(c, bad), bad
}

func c10FirstDiff(a, b string) string {
	al, bl := strings.Split(a, "\n"), strings.Split(b, "\n")
	for i := 0; i < len(al) || i < len(bl); i++ {
		x, y := "<no line>", "<no line>"
		if i < len(al) {
			x = al[i]
		}
		if i < len(bl) {
			y = bl[i]
		}
		if x != y {
			return fmt.Sprintf("line %d: saved cache has [%s], reloaded cache has [%s]", i, x, y)
		}
	}
	return "no difference"
}

// c10DiffClass names the kind of the first differing line (used as the violation signature).
func c10DiffClass(a, b string) string {
	al, bl := strings.Split(a, "\n"), strings.Split(b, "\n")
	for i := 0; i < len(al) || i < len(bl); i++ {
		x, y := "", ""
		if i < len(al) {
			x = al[i]
		}
		if i < len(bl) {
			y = bl[i]
		}
		if x != y {
			l := x
			if l == "" {
				l = y
			}
			f := strings.Fields(l)
			switch {
			case len(f) >= 3 && (f[0] == "pod" || f[0] == "ctr"):
				w := f[2]
				if j := strings.IndexAny(w, "=["); j > 0 {
					w = w[:j]
				}
				return f[0] + ":" + w
			case len(f) >= 2 && f[0] == "entry":
				p := strings.Split(f[1], ":")
				if len(p) >= 2 {
					return "entry:" + p[1]
				}
			}
			if len(f) > 0 {
				return f[0]
			}
		}
	}
	return "none"
}

// ------------------------------------------------------------------------------------------
// content generation. Everything is a function of (cache content, op seed, op index), so the
// same op applied to two caches in the same state performs the same mutation on both.

type c10Op struct {
	Kind    string `json:"kind,omitempty"` // forced kind; "" = drawn from the seed
	Seed    uint64 `json:"seed"`
	Idx     int    `json:"idx"`
	Cascade bool   `json:"cascade,omitempty"` // delpod also deletes the pod's containers (several saves)
}

var c10Strs = []string{"", "a", "web", "x y", "quo\"te", "back\\slash", "ünï-çødé", "new\nline", "<&>", "0", "true", "{\"a\":1}"}

func c10Str(r *sysgen.RNG) string { return sysgen.Pick(r, c10Strs) }

func c10AnnValue(r *sysgen.RNG, base string) string {
	switch base {
	case cache.RDTClassKey:
		return sysgen.Pick(r, []string{"gold", "silver", "bronze", cache.RDTClassPodQoS})
	case cache.BlockIOClassKey:
		return sysgen.Pick(r, []string{"fast", "slow", "default"})
	case cache.ToptierLimitKey:
		return sysgen.Pick(r, []string{"1G", "500M", "0", "2Gi"})
	case cache.TopologyHintsKey:
		return sysgen.Pick(r, []string{"true", "false", "mounts", "devices,pod-resources", "pod-resources", "none", "all", "bogus"})
	case cache.PreserveCpuKey, cache.PreserveMemoryKey:
		return sysgen.Pick(r, []string{"true", "false"})
	case cache.MemoryTypeKey:
		return sysgen.Pick(r, []string{"dram", "dram,pmem", "hbm", "pmem,hbm,dram", "bogus"})
	case "allow." + cache.TopologyHintsKey:
		return sysgen.Pick(r, []string{"type: prefix\npaths:\n  - podresourceapi:vendor.com/gpu\n", "type: glob\npaths:\n  - podresourceapi:*\n"})
	case "deny." + cache.TopologyHintsKey:
		return sysgen.Pick(r, []string{"type: prefix\npaths:\n  - podresourceapi:vendor.com\n", "type: prefix\npaths:\n  - podresourceapi:example.org/nic\n", "type: glob\npaths:\n  - /sys/devices/*\n"})
	}
	return sysgen.Pick(r, []string{"true", "false", "x"})
}

func c10AffinityValue(r *sysgen.RNG, podName string) string {
	switch r.Intn(7) {
	case 0:
		return "c0: [c1]\n"
	case 1:
		return "c0: [c1, c2, c3]\nc3: [c0]\n"
	case 2:
		return "c1:\n- match:\n    key: name\n    operator: In\n    values: [c0, c2]\n  weight: 10\n"
	case 3:
		return "c0:\n- scope:\n    key: pod/name\n    operator: Equals\n    values: [\"" + podName + "\"]\n  match:\n    key: labels/x\n    operator: Exists\n  weight: 5000\n" +
			"- match:\n    key: tags/group\n    operator: MatchesAny\n    values: [\"g*\", \"a?\"]\n"
	case 4:
		return "c2:\n- scope:\n    operator: AlwaysTrue\n  match:\n    key: namespace\n    operator: NotIn\n    values: [kube-system, default]\n  weight: -3\n"
	case 5:
		return "c0: 7\n" // invalid: GetAffinity reports an error
	}
	return "c3: [c3]\n"
}

func c10LinuxResources(r *sysgen.RNG) *nri.LinuxResources {
	if r.Chance(1, 6) {
		return nil
	}
	res := &nri.LinuxResources{}
	if r.Chance(4, 5) {
		cpu := &nri.LinuxCPU{}
		if r.Chance(3, 4) {
			cpu.Shares = nri.UInt64(uint64(sysgen.Pick(r, []int{0, 2, 102, 512, 1024, 4096, 262144})))
		}
		if r.Chance(2, 3) {
			cpu.Quota = nri.Int64(int64(sysgen.Pick(r, []int{-1, 0, 1000, 50000, 150000, 400000})))
		}
		if r.Chance(2, 3) {
			cpu.Period = nri.UInt64(uint64(sysgen.Pick(r, []int{0, 100000, 50000})))
		}
		if r.Chance(1, 8) {
			cpu.RealtimeRuntime = nri.Int64(int64(950000))
			cpu.RealtimePeriod = nri.UInt64(uint64(1000000))
		}
		cpu.Cpus = sysgen.Pick(r, []string{"", "", "0-3", "1,3,5", "0-63"})
		cpu.Mems = sysgen.Pick(r, []string{"", "", "0", "0-1"})
		res.Cpu = cpu
	}
	if r.Chance(3, 4) {
		mem := &nri.LinuxMemory{}
		if r.Chance(3, 4) {
			mem.Limit = nri.Int64(sysgen.Pick(r, []int64{0, 1 << 20, 123456789, 1 << 30, 3 << 31, math.MaxInt64}))
		}
		if r.Chance(1, 3) {
			mem.Swap = nri.Int64(sysgen.Pick(r, []int64{0, -1, 1 << 30}))
		}
		if r.Chance(1, 6) {
			mem.Reservation = nri.Int64(int64(1 << 20))
			mem.Swappiness = nri.UInt64(uint64(60))
			mem.DisableOomKiller = nri.Bool(r.Chance(1, 2))
		}
		res.Memory = mem
	}
	if r.Chance(1, 6) {
		res.HugepageLimits = []*nri.HugepageLimit{{PageSize: "2MB", Limit: uint64(r.Range(0, 1<<20))}}
	}
	if r.Chance(1, 6) {
		res.Unified = map[string]string{"memory.high": "max", "cpu.weight": strconv.Itoa(r.Range(1, 10000))}
	}
	if r.Chance(1, 4) {
		res.Devices = []*nri.LinuxDeviceCgroup{{Allow: true, Type: "c", Major: nri.Int64(int64(1)), Minor: nri.Int64(int64(3)), Access: sysgen.Pick(r, []string{"rwm", "r"})}}
		if r.Chance(1, 2) {
			res.Devices = append(res.Devices, &nri.LinuxDeviceCgroup{Allow: false, Access: "rwm"})
		}
	}
	if r.Chance(1, 8) {
		res.RdtClass = nri.String(sysgen.Pick(r, []string{"", "preset"}))
	}
	if r.Chance(1, 8) {
		res.BlockioClass = nri.String("preset-io")
	}
	return res
}

func c10GenPod(r *sysgen.RNG, id string) (*nri.PodSandbox, <-chan *podresapi.PodResources) {
	name := "pod-" + id
	if r.Chance(1, 20) {
		name = ""
	}
	p := &nri.PodSandbox{
		Id:        id,
		Name:      name,
		Uid:       "uid-" + id + "-" + strconv.FormatUint(r.Uint64()%100000, 16),
		Namespace: sysgen.Pick(r, []string{"default", "kube-system", "ns-x", "monitoring", ""}),
	}
	if r.Chance(1, 4) {
		p.RuntimeHandler = sysgen.Pick(r, []string{"runc", "kata"})
	}
	if r.Chance(1, 4) {
		p.Pid = uint32(r.Range(1, 4000000))
	}
	if r.Chance(4, 5) {
		p.Labels = map[string]string{}
		for _, k := range c10PodLabelKeys {
			if r.Chance(1, 2) {
				p.Labels[k] = c10Str(r)
			}
		}
	}
	if r.Chance(5, 6) {
		p.Annotations = map[string]string{}
		for _, b := range c10AnnBases {
			if r.Chance(1, 4) {
				sfx := ""
				switch r.Intn(3) {
				case 0:
					sfx = "/pod"
				case 1:
					sfx = "/container." + sysgen.Pick(r, c10CtrNames)
				}
				p.Annotations[b+sfx] = c10AnnValue(r, b)
			}
			if r.Chance(1, 12) {
				p.Annotations[b+"/container."+sysgen.Pick(r, c10CtrNames)] = c10AnnValue(r, b)
			}
		}
		if r.Chance(1, 3) {
			p.Annotations[c10AffinityKey] = c10AffinityValue(r, name)
		}
		if r.Chance(1, 4) {
			p.Annotations[c10AntiAffinityKey] = c10AffinityValue(r, name)
		}
		if r.Chance(1, 3) {
			p.Annotations["kubernetes.io/config.source"] = "api"
		}
		if r.Chance(1, 3) {
			p.Annotations["note"] = c10Str(r)
		}
	}
	if r.Chance(7, 8) {
		l := &nri.LinuxPodSandbox{
			CgroupParent: sysgen.Pick(r, []string{
				"/kubepods/besteffort/pod" + id, "/kubepods/burstable/pod" + id, "/kubepods/pod" + id,
				"/kubepods.slice/kubepods-burstable.slice/kubepods-burstable-pod" + id + ".slice", ""}),
		}
		if r.Chance(1, 4) {
			l.CgroupsPath = l.CgroupParent + "/sandbox"
		}
		if r.Chance(1, 4) {
			l.PodOverhead = c10LinuxResources(r)
		}
		if r.Chance(1, 4) {
			l.PodResources = c10LinuxResources(r)
		}
		if r.Chance(1, 6) {
			l.Namespaces = []*nri.LinuxNamespace{{Type: "network", Path: "/run/netns/" + id}, {Type: "ipc"}}
		}
		p.Linux = l
	}
	var ch chan *podresapi.PodResources
	if r.Chance(1, 2) {
		ch = make(chan *podresapi.PodResources, 1)
		if r.Chance(1, 5) {
			ch <- nil
		} else {
			pr := &podresv1.PodResources{Name: p.Name, Namespace: p.Namespace}
			for _, cn := range c10CtrNames {
				if !r.Chance(2, 3) {
					continue
				}
				cr := &podresv1.ContainerResources{Name: cn}
				for d := r.Intn(3); d > 0; d-- {
					dev := &podresv1.ContainerDevices{
						ResourceName: sysgen.Pick(r, []string{"vendor.com/gpu", "example.org/nic", "vendor.com/fpga"}),
						DeviceIds:    []string{"dev" + strconv.Itoa(r.Intn(8))},
					}
					if r.Chance(4, 5) {
						dev.Topology = &podresv1.TopologyInfo{}
						for n := r.Intn(3); n >= 0; n-- {
							dev.Topology.Nodes = append(dev.Topology.Nodes, &podresv1.NUMANode{ID: int64(r.Intn(4))})
						}
					}
					cr.Devices = append(cr.Devices, dev)
				}
				if r.Chance(1, 3) {
					cr.CpuIds = []int64{int64(r.Intn(64)), 64}
				}
				if r.Chance(1, 4) {
					cr.Memory = []*podresv1.ContainerMemory{{MemoryType: "memory", Size_: 1 << 30, Topology: &podresv1.TopologyInfo{Nodes: []*podresv1.NUMANode{{ID: 0}}}}}
				}
				pr.Containers = append(pr.Containers, cr)
			}
			ch <- &podresapi.PodResources{PodResources: pr}
		}
	}
	return p, ch
}

func c10GenContainer(r *sysgen.RNG, id, podID string, nth int) (*nri.Container, []cache.InsertContainerOption) {
	name := c10CtrNames[nth%len(c10CtrNames)]
	if r.Chance(1, 10) {
		name = sysgen.Pick(r, []string{"init", "c0", ""})
	}
	c := &nri.Container{
		Id:           id,
		PodSandboxId: podID,
		Name:         name,
		State: sysgen.Pick(r, []nri.ContainerState{cache.ContainerStateCreating, cache.ContainerStateUnknown, cache.ContainerStateCreated,
			cache.ContainerStateRunning, cache.ContainerStateRunning, cache.ContainerStateExited}),
	}
	if r.Chance(3, 4) {
		c.Labels = map[string]string{}
		for _, k := range c10CtrLabelKeys {
			if r.Chance(1, 2) {
				c.Labels[k] = c10Str(r)
			}
		}
	}
	if r.Chance(2, 3) {
		c.Annotations = map[string]string{}
		for _, k := range c10CtrAnnKeys {
			if r.Chance(1, 2) {
				c.Annotations[k] = c10Str(r)
			}
		}
	}
	for n := r.Intn(4); n > 0; n-- {
		c.Args = append(c.Args, c10Str(r))
	}
	if r.Chance(1, 10) {
		c.Args = []string{}
	}
	for _, k := range c10EnvKeys {
		if r.Chance(1, 2) {
			switch {
			case k == "EMPTY":
				c.Env = append(c.Env, "EMPTY=")
			case k == "NOEQ":
				c.Env = append(c.Env, "NOEQ")
			default:
				c.Env = append(c.Env, k+"="+c10Str(r))
			}
		}
	}
	if r.Chance(1, 10) {
		c.Env = append(c.Env, "=weird", "PATH=second")
	}
	for n := r.Intn(4); n > 0; n-- {
		m := &nri.Mount{
			Destination: sysgen.Pick(r, []string{"/data", "/etc/hosts", "/dev/termination-log", "/var/run/secrets", "/c10-nonexistent/vol"}),
			Source:      sysgen.Pick(r, []string{"/c10-nonexistent/src", "/var/lib/kubelet/pods/0123-abcd/volumes/kubernetes.io~secret/tok", "/c10-nonexistent/pods/x/etc-hosts"}),
			Type:        sysgen.Pick(r, []string{"bind", "", "tmpfs"}),
		}
		switch r.Intn(4) {
		case 0:
			m.Options = []string{"ro"}
		case 1:
			m.Options = []string{"rw", "rbind", "rprivate"}
		case 2:
			m.Options = []string{}
		}
		c.Mounts = append(c.Mounts, m)
	}
	if r.Chance(5, 6) {
		l := &nri.LinuxContainer{}
		for n := r.Intn(3); n > 0; n-- {
			d := &nri.LinuxDevice{Path: sysgen.Pick(r, []string{"/dev/null", "/dev/c10x", "/dev/fuse"}), Type: sysgen.Pick(r, []string{"c", "b"}),
				Major: int64(sysgen.Pick(r, []int{1, 10, 250, 0})), Minor: int64(r.Intn(300))}
			if r.Chance(1, 2) {
				d.FileMode = &nri.OptionalFileMode{Value: uint32(sysgen.Pick(r, []int{0, 0o666, 0o600, 0o20666}))}
			}
			if r.Chance(1, 2) {
				d.Uid = &nri.OptionalUInt32{Value: uint32(sysgen.Pick(r, []int{0, 1000, 65534}))}
			}
			if r.Chance(1, 3) {
				d.Gid = &nri.OptionalUInt32{Value: uint32(r.Intn(3))}
			}
			l.Devices = append(l.Devices, d)
		}
		l.Resources = c10LinuxResources(r)
		if r.Chance(2, 3) {
			l.OomScoreAdj = &nri.OptionalInt{Value: int64(sysgen.Pick(r, []int{-997, 0, 3, 500, 936, 999, 1000}))}
		}
		if r.Chance(1, 2) {
			l.CgroupsPath = "/kubepods/pod" + podID + "/" + id
		}
		if r.Chance(1, 6) {
			l.Namespaces = []*nri.LinuxNamespace{{Type: "pid"}}
		}
		c.Linux = l
	}
	if r.Chance(1, 6) {
		c.Pid = uint32(r.Range(2, 1<<22))
	}
	if r.Chance(1, 8) {
		c.Rlimits = []*nri.POSIXRlimit{{Type: "RLIMIT_NOFILE", Hard: 1 << 20, Soft: 1024}}
	}
	if r.Chance(1, 10) {
		c.Hooks = &nri.Hooks{Prestart: []*nri.Hook{{Path: "/bin/true", Args: []string{"true"}, Env: []string{"A=b"}}}}
	}
	var opts []cache.InsertContainerOption
	if r.Chance(1, 4) {
		opts = append(opts, cache.WithContainerState(sysgen.Pick(r, []nri.ContainerState{cache.ContainerStateCreating, cache.ContainerStateCreated, cache.ContainerStateRunning, cache.ContainerStateStale})))
	}
	return c, opts
}

func c10SetEntry(c cache.Cache, r *sysgen.RNG) string {
	typ := sysgen.Pick(r, c10EntryTypes)
	key := c10EntryKey(typ, r.Intn(c10EntriesPerType))
	randSet := func() cpuset.CPUSet {
		switch r.Intn(5) {
		case 0:
			return cpuset.New()
		case 1:
			return cpuset.New(0)
		case 2:
			return cpuset.New(0, 1, 2, 5, 7, 8, 9)
		case 3:
			return cpuset.New(1023, 511)
		}
		var ids []int
		for n := r.Range(1, 12); n > 0; n-- {
			ids = append(ids, r.Intn(256))
		}
		return cpuset.New(ids...)
	}
	switch typ {
	case "string":
		c.SetPolicyEntry(key, c10Str(r))
	case "bool":
		c.SetPolicyEntry(key, r.Chance(1, 2))
	case "int":
		c.SetPolicyEntry(key, sysgen.Pick(r, []int{0, -1, 42, math.MaxInt64, math.MinInt64, 1 << 53, 1<<53 + 1}))
	case "uint":
		c.SetPolicyEntry(key, sysgen.Pick(r, []uint{0, 7, math.MaxUint64, 1<<53 + 1}))
	case "int32":
		c.SetPolicyEntry(key, sysgen.Pick(r, []int32{0, -5, math.MaxInt32, math.MinInt32}))
	case "uint32":
		c.SetPolicyEntry(key, sysgen.Pick(r, []uint32{0, 9, math.MaxUint32}))
	case "int64":
		c.SetPolicyEntry(key, sysgen.Pick(r, []int64{0, -9, math.MaxInt64, math.MinInt64, 1<<53 + 1}))
	case "uint64":
		c.SetPolicyEntry(key, sysgen.Pick(r, []uint64{0, 11, math.MaxUint64, 1<<63 + 1}))
	case "cpuset":
		c.SetPolicyEntry(key, randSet())
	case "cpusetmap":
		var m map[string]cpuset.CPUSet
		if !r.Chance(1, 6) {
			m = map[string]cpuset.CPUSet{}
			for n := r.Intn(4); n > 0; n-- {
				m[c10Str(r)] = randSet()
			}
		}
		c.SetPolicyEntry(key, m)
	case "stringmap":
		var m map[string]string
		if !r.Chance(1, 6) {
			m = map[string]string{}
			for n := r.Intn(4); n > 0; n-- {
				m[c10Str(r)] = c10Str(r)
			}
		}
		c.SetPolicyEntry(key, m)
	}
	return typ
}

func c10SortedPodIDs(c cache.Cache) []string {
	var ids []string
	for _, p := range c.GetPods() {
		ids = append(ids, p.GetID())
	}
	sort.Strings(ids)
	return ids
}

func c10SortedCtrIDs(c cache.Cache) []string {
	ids := c.GetContainerIds()
	sort.Strings(ids)
	return ids
}

// c10MutateContainer applies one non-saving mutation to a container.
func c10MutateContainer(k cache.Container, r *sysgen.RNG) string {
	switch r.Intn(14) {
	case 0, 1:
		k.SetTag(sysgen.Pick(r, c10TagKeys), c10Str(r))
		return "settag"
	case 2:
		k.DeleteTag(sysgen.Pick(r, c10TagKeys))
		return "deltag"
	case 3:
		k.SetCpusetCpus(sysgen.Pick(r, []string{"0", "2-5", "0,2,4,6", "8-15,24-31", ""}))
		return "cpus"
	case 4:
		k.SetCpusetMems(sysgen.Pick(r, []string{"0", "0-1", "1,3", ""}))
		return "mems"
	case 5:
		k.SetCPUShares(int64(sysgen.Pick(r, []int{2, 205, 1024, 2048})))
		return "shares"
	case 6:
		k.SetCPUQuota(int64(sysgen.Pick(r, []int{-1, 25000, 100000, 350000})))
		k.SetCPUPeriod(int64(sysgen.Pick(r, []int{100000, 50000})))
		return "quota"
	case 7:
		k.SetMemoryLimit(sysgen.Pick(r, []int64{0, 1 << 28, 999999999, 1 << 40}))
		if r.Chance(1, 2) {
			k.SetMemorySwap(sysgen.Pick(r, []int64{0, 1 << 29}))
		}
		return "memlimit"
	case 8:
		k.SetRDTClass(sysgen.Pick(r, []string{"gold", "", "BestEffort"}))
		return "rdt"
	case 9:
		k.SetBlockIOClass(sysgen.Pick(r, []string{"slow", "", "Guaranteed"}))
		return "blockio"
	case 10, 11:
		k.UpdateState(sysgen.Pick(r, []nri.ContainerState{cache.ContainerStateCreating, cache.ContainerStateUnknown, cache.ContainerStateCreated,
			cache.ContainerStateRunning, cache.ContainerStateExited, cache.ContainerStateStale}))
		return "state"
	}
	var u *nri.LinuxResources
	if !r.Chance(1, 8) {
		u = c10LinuxResources(r)
	}
	k.SetResourceUpdates(u)
	return "resupdates"
}

// c10Mutate applies op to c. It returns the kind performed, whether the op still needs an explicit
// Save() (kind "mutate"), and a short description. Self-saving kinds have saved exactly once when
// op.Cascade is false.
func c10Mutate(c cache.Cache, op c10Op) (kind string, explicit bool, desc string) {
	r := sysgen.NewRNG(op.Seed)
	pods, ctrs := c10SortedPodIDs(c), c10SortedCtrIDs(c)
	kind = op.Kind
	if kind == "" {
		kind = sysgen.Pick(r, []string{"pod", "pod", "ctr", "ctr", "ctr", "delctr", "delpod", "policy", "policy", "reset", "mutate", "mutate", "mutate", "mutate"})
		if kind == "reset" && !r.Chance(1, 3) {
			kind = "mutate"
		}
	}
	if (kind == "ctr" || kind == "delpod") && len(pods) == 0 {
		kind = "pod"
	}
	if kind == "delctr" && len(ctrs) == 0 {
		kind = "mutate"
	}
	switch kind {
	case "pod":
		id := fmt.Sprintf("p%03d", op.Idx)
		p, ch := c10GenPod(r, id)
		c.InsertPod(p, ch)
		return kind, false, id
	case "ctr":
		podID := sysgen.Pick(r, pods)
		nth := 0
		if p, ok := c.LookupPod(podID); ok {
			nth = len(p.GetContainers())
		}
		id := fmt.Sprintf("k%03d", op.Idx)
		k, opts := c10GenContainer(r, id, podID, nth)
		if _, err := c.InsertContainer(k, opts...); err != nil {
			return "ctr-failed", true, err.Error()
		}
		return kind, false, id
	case "delctr":
		id := sysgen.Pick(r, ctrs)
		c.DeleteContainer(id)
		return kind, false, id
	case "delpod":
		id := sysgen.Pick(r, pods)
		if op.Cascade {
			if p, ok := c.LookupPod(id); ok {
				var ids []string
				for _, k := range p.GetContainers() {
					ids = append(ids, k.GetID())
				}
				sort.Strings(ids)
				for _, k := range ids {
					c.DeleteContainer(k)
				}
			}
		}
		c.DeletePod(id)
		return kind, false, id
	case "policy":
		c.SetActivePolicy(sysgen.Pick(r, []string{"topology-aware", "balloons", "template", "", "pölicy \"x\""}))
		return kind, false, ""
	case "reset":
		c.ResetActivePolicy()
		return kind, false, ""
	}
	// "mutate": a group of non-saving mutations, the caller saves explicitly
	var what []string
	for n := r.Range(1, 5); n > 0; n-- {
		if len(ctrs) > 0 && r.Chance(3, 4) {
			if k, ok := c.LookupContainer(sysgen.Pick(r, ctrs)); ok {
				what = append(what, c10MutateContainer(k, r))
				continue
			}
		}
		what = append(what, "entry:"+c10SetEntry(c, r))
	}
	return "mutate", true, strings.Join(what, ",")
}

// c10BuildPlan returns the ops that build one round-trip content.
func c10BuildPlan(r *sysgen.RNG) []c10Op {
	var ops []c10Op
	idx := 0
	push := func(kind string) {
		ops = append(ops, c10Op{Kind: kind, Seed: r.Uint64(), Idx: idx, Cascade: r.Chance(1, 2)})
		idx++
	}
	if r.Chance(1, 25) {
		return ops // the empty cache
	}
	if r.Chance(1, 3) {
		push("policy")
	}
	for np := r.Intn(5); np > 0; np-- {
		push("pod")
	}
	for nc := r.Intn(9); nc > 0; nc-- {
		push("ctr")
	}
	for nm := r.Intn(10); nm > 0; nm-- {
		push("")
	}
	return ops
}

// c10Shape summarises a cache content for the See() rule.
func c10Shape(c cache.Cache, fp string) string {
	feat := map[string]bool{}
	for _, l := range strings.Split(fp, "\n") {
		f := strings.Fields(l)
		if len(f) >= 3 && (f[0] == "pod" || f[0] == "ctr") {
			w := f[2]
			if j := strings.IndexAny(w, "=["); j > 0 {
				w = w[:j]
			}
			feat[f[0]+":"+w] = true
		} else if len(f) >= 2 && f[0] == "entry" {
			feat["entry:"+strings.Split(f[1], ":")[1]] = true
		}
	}
	var fs []string
	for k := range feat {
		fs = append(fs, k)
	}
	sort.Strings(fs)
	return fmt.Sprintf("p%d/c%d/%s", len(c.GetPods()), len(c.GetContainers()), c10Sha(strings.Join(fs, ","))[:12])
}

// ------------------------------------------------------------------------------------------
// cases, replay

type c10Case struct {
	Clause string `json:"clause"` // roundtrip | rename-only | kill | error | truncated | refusal
	// roundtrip / truncated
	Sub     uint64 `json:"sub,omitempty"`     // sub-seed the content is generated from
	Variant int    `json:"variant,omitempty"` // roundtrip: bit0 fingerprint before Save, bit1 second generation, bit2 fake cgroup dirs
	Prefix  int    `json:"prefix,omitempty"`  // truncated: planted prefix length (-1: garbage)
	// kill / error / rename-only
	ChildSeed uint64 `json:"child_seed,omitempty"`
	K         int    `json:"k,omitempty"`
	Call      string `json:"call,omitempty"`
	When      int    `json:"when,omitempty"`
	Errno     string `json:"errno,omitempty"`
	// what was found on disk after the fault (replayed deterministically by planting it)
	CacheB64  string   `json:"cache_b64,omitempty"`
	SavingB64 string   `json:"saving_b64,omitempty"`
	Accept    []string `json:"accept,omitempty"`
	Oplog     string   `json:"oplog,omitempty"`
	// refusal
	Object string `json:"object,omitempty"`
	Kind   string `json:"kind,omitempty"`
}

type c10Env struct {
	ctx     *Ctx
	root    string // absolute scratch root
	self    string // absolute path of this binary
	seq     int
	cgRoot  string
	emptyFP string
}

func (e *c10Env) newDir(tag string) string {
	e.seq++
	d := filepath.Join(e.root, fmt.Sprintf("%s-%d", tag, e.seq))
	os.RemoveAll(d)
	os.MkdirAll(d, 0o755)
	return d
}

func c10NewEnv(ctx *Ctx) (*c10Env, error) {
	root := ctx.Work
	if root == "" {
		root = os.TempDir()
	}
	root, err := filepath.Abs(filepath.Join(root, fmt.Sprintf("c10-%d-%d", ctx.Seed, ctx.Shard)))
	if err != nil {
		return nil, err
	}
	os.RemoveAll(root)
	if err := os.MkdirAll(root, 0o755); err != nil {
		return nil, err
	}
	self, err := os.Executable()
	if err != nil {
		self = os.Args[0]
	}
	e := &c10Env{ctx: ctx, root: root, self: self, cgRoot: filepath.Join(root, "no-cgroupfs")}
	cgroups.SetMountDir(e.cgRoot) // nothing there: GetCgroupDir() is "" unless a round trip plants a tree
	d := e.newDir("empty")
	c, err := cache.NewCache(cache.Options{CacheDir: filepath.Join(d, "state")})
	if err != nil {
		return nil, fmt.Errorf("cannot create an empty cache: %v", err)
	}
	e.emptyFP = c10Fingerprint(c)
	os.RemoveAll(d)
	return e, nil
}

func runC10(ctx *Ctx) {
	if runtime.GOMAXPROCS(0) > 2 {
		runtime.GOMAXPROCS(2) // the work is sequential; fewer Ps = less scheduler churn on a busy host
	}
	env, err := c10NewEnv(ctx)
	if err != nil {
		ctx.Violate("setup", "setup", nil, "%v", err)
		return
	}
	defer os.RemoveAll(env.root)

	if ctx.Replay != "" {
		var cs c10Case
		if err := LoadCase(ctx.Replay, &cs); err != nil {
			ctx.Violate("replay_load", "replay", nil, "cannot load %s: %v", ctx.Replay, err)
			return
		}
		env.replay(cs)
		return
	}

	thorough := ctx.Tier == "thorough"
	// 1. round trips
	for i := 0; i < ctx.N; i++ {
		cs := c10Case{Clause: "roundtrip", Sub: ctx.RNG.Uint64(), Variant: ctx.RNG.Intn(8)}
		env.roundtrip(cs)
	}
	// 6. refusal matrix (exhaustive, cheap)
	env.refusalMatrix()
	// 4. truncated temp files
	pairs := 3
	if thorough {
		pairs = 20
	}
	for i := 0; i < pairs; i++ {
		env.truncated(c10Case{Clause: "truncated", Sub: ctx.RNG.Uint64(), Prefix: -2})
	}
	// 2, 3, 5. strace-driven clauses
	if _, err := exec.LookPath("strace"); err != nil {
		ctx.Count("strace_missing")
		return
	}
	histories, k := 1, 10
	if thorough {
		histories, k = 8, 8
	}
	for h := 0; h < histories; h++ {
		seed := ctx.RNG.Uint64()
		env.history(seed, k, thorough)
	}
}

func (e *c10Env) replay(cs c10Case) {
	switch cs.Clause {
	case "roundtrip":
		e.roundtrip(cs)
	case "truncated":
		e.truncated(cs)
	case "refusal":
		e.refusalCase(cs.Object, cs.Kind)
	case "rename-only":
		e.renameOnly(cs.ChildSeed, cs.K)
	case "kill", "error":
		e.replayFault(cs)
	default:
		e.ctx.Violate("replay_load", "replay", cs, "unknown clause %q", cs.Clause)
	}
}

// ------------------------------------------------------------------------------------------
// clause 1: round trip

func (e *c10Env) fakeCgroupDirs(c cache.Cache, r *sysgen.RNG) {
	for _, id := range c10SortedCtrIDs(c) {
		k, _ := c.LookupContainer(id)
		p, ok := k.GetPod()
		if !ok || p.GetCgroupParent() == "" || !r.Chance(1, 2) {
			continue
		}
		leaf := sysgen.Pick(r, []string{id, "cri-containerd-" + id + ".scope", "crio-" + id})
		os.MkdirAll(filepath.Join(cgroups.Cpuset.Path(), p.GetCgroupParent(), leaf), 0o755)
	}
}

func (e *c10Env) roundtrip(cs c10Case) {
	ctx := e.ctx
	d := e.newDir("rt")
	defer os.RemoveAll(d)
	dir := filepath.Join(d, "state")
	r := sysgen.NewRNG(cs.Sub)

	orig, err := cache.NewCache(cache.Options{CacheDir: dir})
	if err != nil {
		ctx.Violate("roundtrip", "new-cache-failed", cs, "NewCache on a fresh directory failed: %v", err)
		return
	}
	plan := c10BuildPlan(r)
	var kinds []string
	pmsg, site := Guard(func() {
		for _, op := range plan {
			kind, _, _ := c10Mutate(orig, op)
			kinds = append(kinds, kind)
		}
	})
	if pmsg != "" {
		ctx.Count("build_panics") // not this property's business (C14); skip the case
		ctx.Count("build_panic_at_" + sanitize(site))
		return
	}
	if cs.Variant&4 != 0 {
		// a private fake cgroupfs so that GetCgroupDir() finds (and caches, and persists) directories
		cgroups.SetMountDir(filepath.Join(d, "cgroupfs"))
		defer cgroups.SetMountDir(e.cgRoot)
		e.fakeCgroupDirs(orig, r)
	}
	ctx.Eval()
	var fpOrig string
	if cs.Variant&1 != 0 {
		fpOrig = c10Fingerprint(orig)
	}
	if err := orig.Save(); err != nil {
		ctx.Violate("roundtrip", "save-failed", cs, "Save() failed on ops %v: %v", kinds, err)
		return
	}
	if cs.Variant&1 == 0 {
		fpOrig = c10Fingerprint(orig)
	}
	if again := c10Fingerprint(orig); again != fpOrig {
		// our own rendering must be stable on an unchanged cache, otherwise the comparison means nothing
		ctx.Count("harness_unstable_fingerprint")
		return
	}

	check := func(stage string) bool {
		re, err := cache.NewCache(cache.Options{CacheDir: dir})
		if err != nil {
			ctx.Violate("roundtrip", "load-failed", cs, "%s: NewCache on the saved directory failed: %v (ops %v)", stage, err, kinds)
			return false
		}
		fpRe, bad := c10LoadedFingerprint(dir, re)
		for k := range bad {
			ctx.Violate("roundtrip", "entry-unreadable:"+strings.Split(k, ":")[1], cs, "%s: stored policy entry %s cannot be decoded into the type it was set with (GetPolicyEntry would log.Fatal)", stage, k)
		}
		if fpRe != fpOrig {
			ctx.Violate("roundtrip", "differs:"+c10DiffClass(fpOrig, fpRe), cs, "%s: reloaded cache differs from the saved one: %s (ops %v)", stage, c10FirstDiff(fpOrig, fpRe), kinds)
			return false
		}
		return true
	}
	if !check("reload") {
		return
	}
	ctx.Count("roundtrips")
	ctx.Add("pods_compared", len(orig.GetPods()))
	ctx.Add("containers_compared", len(orig.GetContainers()))
	ctx.Add("policy_entries_compared", strings.Count(fpOrig, "\nentry "))
	ctx.Add("topology_hints_compared", strings.Count(fpOrig, " hint "))
	ctx.Add("affinities_compared", strings.Count(fpOrig, " affinity scope="))
	ctx.Add("cgroupdirs_nonempty", strings.Count(fpOrig, "cgroupdir=\"/"))
	ctx.Add("resource_updates_compared", strings.Count(fpOrig, " updates requests"))
	if len(plan) == 0 {
		ctx.Count("roundtrips_empty_cache")
	}
	ctx.See("rt:" + c10Shape(orig, fpOrig))
	ctx.Sample(map[string]interface{}{"clause": "roundtrip", "sub": cs.Sub, "ops": kinds, "lines": strings.Count(fpOrig, "\n") + 1})

	if cs.Variant&2 != 0 {
		// second generation: a freshly loaded cache saves again, without anybody reading it first
		re, err := cache.NewCache(cache.Options{CacheDir: dir})
		if err != nil {
			ctx.Violate("roundtrip", "load-failed", cs, "second load failed: %v", err)
			return
		}
		if err := re.Save(); err != nil {
			ctx.Violate("roundtrip", "save-failed", cs, "Save() of a reloaded cache failed: %v", err)
			return
		}
		if check("second generation") {
			ctx.Count("roundtrips_second_generation")
		}
	}
}

// ------------------------------------------------------------------------------------------
// clause 6: refusal matrix

var (
	c10RefObjects = []string{"cache-file", "state-dir", "containers-dir"}
	c10RefKinds   = []string{"symlink", "symlink-trailing-slash", "wrong-type-a", "wrong-type-fifo", "perm-g+w", "perm-o+w", "perm-g+w+o+w"}
	c10ValidKinds = []string{"valid-0710-0644-0755", "valid-0700-0600-0700", "valid-0750-0640-0750", "valid-no-cache-file", "valid-no-containers-dir", "valid-no-state-dir", "valid-empty-cache-file"}
)

func (e *c10Env) refusalMatrix() {
	for _, o := range c10RefObjects {
		for _, k := range c10RefKinds {
			if k == "symlink-trailing-slash" && o != "state-dir" {
				continue
			}
			e.refusalCase(o, k)
		}
	}
	for _, k := range c10ValidKinds {
		e.refusalCase("setup", k)
	}
	e.tempSymlinkProbe()
}

// tempSymlinkProbe is informational only (counters, never a violation): the temporary file
// cache.saving is not among the objects NewCache checks. If it is a symbolic link, Save() writes
// through it and then renames the link onto the cache file.
func (e *c10Env) tempSymlinkProbe() {
	d := e.newDir("tmpl")
	defer os.RemoveAll(d)
	state := filepath.Join(d, "state")
	c, err := cache.NewCache(cache.Options{CacheDir: state})
	if err != nil {
		return
	}
	victim := filepath.Join(d, "victim")
	os.WriteFile(victim, []byte("precious"), 0o600)
	if os.Symlink(victim, filepath.Join(state, "cache.saving")) != nil {
		return
	}
	if err := c.Save(); err != nil {
		e.ctx.Count("info_temp_symlink_save_refused")
		return
	}
	if b, _ := os.ReadFile(victim); string(b) != "precious" {
		e.ctx.Count("info_temp_symlink_followed")
	}
	if fi, err := os.Lstat(filepath.Join(state, "cache")); err == nil && fi.Mode()&os.ModeSymlink != 0 {
		e.ctx.Count("info_cache_file_became_symlink")
		if _, err := cache.NewCache(cache.Options{CacheDir: state}); err != nil {
			e.ctx.Count("info_next_start_refuses_own_cache")
		}
	}
}

func c10Tree(root string) string {
	var l []string
	filepath.Walk(root, func(p string, info os.FileInfo, err error) error {
		if err == nil {
			rel, _ := filepath.Rel(root, p)
			l = append(l, fmt.Sprintf("%s %v %d", rel, info.Mode(), func() int64 {
				if info.Mode().IsRegular() {
					return info.Size()
				}
				return 0
			}()))
		}
		return nil
	})
	return strings.Join(l, "\n")
}

// c10NewCacheTimed runs NewCache with a watchdog: accepting a fifo would block in ReadFile.
func c10NewCacheTimed(dir string, fifos ...string) (c cache.Cache, err error, hung bool) {
	type res struct {
		c   cache.Cache
		err error
	}
	ch := make(chan res, 1)
	go func() {
		var r res
		if p, _ := Guard(func() { r.c, r.err = cache.NewCache(cache.Options{CacheDir: dir}) }); p != "" {
			r.err = fmt.Errorf("panic: %s", p)
		}
		ch <- r
	}()
	select {
	case r := <-ch:
		return r.c, r.err, false
	case <-time.After(3 * time.Second):
		for _, f := range fifos { // unblock the reader
			if fd, e := syscall.Open(f, syscall.O_WRONLY|syscall.O_NONBLOCK, 0); e == nil {
				syscall.Close(fd)
			}
		}
		select {
		case r := <-ch:
			return r.c, r.err, true
		case <-time.After(3 * time.Second):
			return nil, nil, true
		}
	}
}

func (e *c10Env) refusalCase(object, kind string) {
	ctx := e.ctx
	cs := c10Case{Clause: "refusal", Object: object, Kind: kind}
	d := e.newDir("ref")
	defer os.RemoveAll(d)

	// a valid, saved state directory to start from (made by the code itself)
	state := filepath.Join(d, "state")
	seedCache, err := cache.NewCache(cache.Options{CacheDir: state})
	if err != nil {
		ctx.Violate("refusal-rejected-valid", "fresh-dir", cs, "NewCache on a fresh directory failed: %v", err)
		return
	}
	c10Mutate(seedCache, c10Op{Kind: "pod", Seed: 7, Idx: 0})
	c10Mutate(seedCache, c10Op{Kind: "ctr", Seed: 8, Idx: 1})
	if err := seedCache.Save(); err != nil {
		ctx.Violate("refusal-rejected-valid", "fresh-dir", cs, "Save failed: %v", err)
		return
	}
	wantFP := c10Fingerprint(seedCache)
	cacheFile, ctrDir := filepath.Join(state, "cache"), filepath.Join(state, "containers")
	os.Chmod(state, 0o710)
	os.Chmod(cacheFile, 0o644)
	os.Chmod(ctrDir, 0o755)
	useDir := state
	var fifos []string
	expectRefusal := object != "setup"
	expectEmpty := false

	must := func(err error) bool {
		if err != nil {
			ctx.Count("harness_refusal_setup_failed")
			return false
		}
		return true
	}
	target := map[string]string{"cache-file": cacheFile, "state-dir": state, "containers-dir": ctrDir}[object]
	base := map[string]os.FileMode{"cache-file": 0o644, "state-dir": 0o710, "containers-dir": 0o755}[object]
	switch kind {
	case "symlink", "symlink-trailing-slash":
		// the object becomes a symbolic link to a perfectly valid object of the right kind
		real := filepath.Join(d, "real-"+object)
		if !must(os.Rename(target, real)) || !must(os.Symlink(real, target)) {
			return
		}
		if kind == "symlink-trailing-slash" {
			useDir = state + "/"
		}
	case "wrong-type-a":
		if object == "cache-file" { // a directory where a file is expected
			if !must(os.Remove(target)) || !must(os.Mkdir(target, 0o755)) {
				return
			}
		} else { // a regular file where a directory is expected
			if !must(os.Rename(target, filepath.Join(d, "moved"))) || !must(os.WriteFile(target, []byte("x"), 0o600)) {
				return
			}
			os.Chmod(target, 0o600)
		}
	case "wrong-type-fifo":
		if object == "cache-file" {
			if !must(os.Remove(target)) {
				return
			}
		} else if !must(os.Rename(target, filepath.Join(d, "moved"))) {
			return
		}
		if !must(syscall.Mkfifo(target, 0o600)) {
			return
		}
		os.Chmod(target, 0o600)
		fifos = append(fifos, target)
	case "perm-g+w":
		must(os.Chmod(target, base|0o020))
	case "perm-o+w":
		must(os.Chmod(target, base|0o002))
	case "perm-g+w+o+w":
		must(os.Chmod(target, base|0o022))
	case "valid-0710-0644-0755":
	case "valid-0700-0600-0700":
		os.Chmod(state, 0o700)
		os.Chmod(cacheFile, 0o600)
		os.Chmod(ctrDir, 0o700)
	case "valid-0750-0640-0750":
		os.Chmod(state, 0o750)
		os.Chmod(cacheFile, 0o640)
		os.Chmod(ctrDir, 0o750)
	case "valid-no-cache-file":
		os.Remove(cacheFile)
		expectEmpty = true
	case "valid-empty-cache-file":
		os.WriteFile(cacheFile, nil, 0o644)
		expectEmpty = true
	case "valid-no-containers-dir":
		os.RemoveAll(ctrDir)
	case "valid-no-state-dir":
		os.RemoveAll(state)
		expectEmpty = true
	default:
		ctx.Violate("replay_load", "replay", cs, "unknown refusal kind %q", kind)
		return
	}

	before := c10Tree(d)
	ctx.Eval()
	ctx.Count("refusal_cases")
	c, err, hung := c10NewCacheTimed(useDir, fifos...)
	sig := object + ":" + kind
	if expectRefusal {
		if hung || err == nil {
			how := "returned a cache and no error"
			if hung {
				how = "did not refuse it (blocked reading it until the watchdog wrote to the fifo)"
			}
			ctx.Violate("refusal-accepted", sig, cs, "NewCache(%q) with %s = %s %s", useDir, object, kind, how)
			return
		}
		if c != nil {
			ctx.Violate("refusal-accepted", sig+":cache-returned", cs, "NewCache returned an error (%v) AND a usable cache", err)
		}
		if after := c10Tree(d); after != before {
			ctx.Violate("refusal-side-effect", sig, cs, "NewCache refused (%v) but changed the directory tree:\nbefore:\n%s\nafter:\n%s", err, before, after)
		}
		ctx.Count("refusals_observed")
		ctx.See("refusal:" + sig)
		return
	}
	if err != nil || hung {
		ctx.Violate("refusal-rejected-valid", kind, cs, "NewCache refused a correct set-up: %v", err)
		return
	}
	fp, _ := c10LoadedFingerprint(state, c)
	want := wantFP
	if expectEmpty {
		want = e.emptyFP
	}
	if fp != want {
		ctx.Violate("refusal-rejected-valid", kind+":content", cs, "accepted set-up loaded unexpected content: %s", c10FirstDiff(want, fp))
		return
	}
	ctx.Count("valid_setups_accepted")
	ctx.See("refusal:" + sig)
}

// ------------------------------------------------------------------------------------------
// clause 4: truncated temporary file next to an intact cache file

func (e *c10Env) truncated(cs c10Case) {
	ctx := e.ctx
	d := e.newDir("trunc")
	defer os.RemoveAll(d)
	dir := filepath.Join(d, "state")
	r := sysgen.NewRNG(cs.Sub)
	c, err := cache.NewCache(cache.Options{CacheDir: dir})
	if err != nil {
		ctx.Violate("truncated-temp", "new-cache-failed", cs, "%v", err)
		return
	}
	var s1, s2 []byte
	var fp1 string
	pmsg, _ := Guard(func() {
		for _, op := range c10BuildPlan(r) {
			c10Mutate(c, op)
		}
	})
	if pmsg != "" {
		ctx.Count("build_panics")
		return
	}
	if err := c.Save(); err != nil {
		ctx.Violate("truncated-temp", "save-failed", cs, "%v", err)
		return
	}
	fp1 = c10Fingerprint(c)
	s1, _ = os.ReadFile(filepath.Join(dir, "cache"))
	pmsg, _ = Guard(func() {
		for i := r.Range(1, 4); i > 0; i-- {
			c10Mutate(c, c10Op{Seed: r.Uint64(), Idx: 100 + i, Cascade: true})
		}
	})
	if pmsg != "" {
		ctx.Count("build_panics")
		return
	}
	if err := c.Save(); err != nil {
		ctx.Violate("truncated-temp", "save-failed", cs, "%v", err)
		return
	}
	s2, _ = os.ReadFile(filepath.Join(dir, "cache"))

	plant := filepath.Join(d, "plant")
	os.MkdirAll(filepath.Join(plant, "containers"), 0o755)
	os.Chmod(plant, 0o710)
	// containers' data directories as the first cache left them (names only matter)
	var lens []int
	switch {
	case cs.Prefix != -2:
		lens = []int{cs.Prefix}
	case len(s2) < 4096:
		for l := 0; l <= len(s2); l++ {
			lens = append(lens, l)
		}
	default:
		seen := map[int]bool{}
		for _, l := range []int{0, 1, 2, len(s2) - 2, len(s2) - 1, len(s2), 4095, 4096, 4097, 8192} {
			if l >= 0 && l <= len(s2) && !seen[l] {
				seen[l] = true
				lens = append(lens, l)
			}
		}
		for len(lens) < 200 {
			if l := r.Intn(len(s2) + 1); !seen[l] {
				seen[l] = true
				lens = append(lens, l)
			}
		}
		sort.Ints(lens)
	}
	if cs.Prefix == -2 {
		lens = append(lens, -1, -3, -4) // garbage variants
	}
	ok := true
	for _, l := range lens {
		var saving []byte
		switch {
		case l >= 0 && l <= len(s2):
			saving = s2[:l]
		case l == -1:
			saving = []byte("\x00\xff{{{ not json")
		case l == -3:
			saving = []byte(`{"Version":"999","Pods":{},"Containers":{}}`)
		default:
			saving = append(append([]byte{}, s2...), s2...)
		}
		os.WriteFile(filepath.Join(plant, "cache"), s1, 0o644)
		os.WriteFile(filepath.Join(plant, "cache.saving"), saving, 0o644)
		ctx.Eval()
		ctx.Count("truncated_prefixes")
		one := cs
		one.Prefix = l
		re, err := cache.NewCache(cache.Options{CacheDir: plant})
		if err != nil {
			ctx.Violate("truncated-temp", "load-failed", one, "intact cache file (%d bytes) + cache.saving holding %d of %d bytes of the next snapshot: NewCache failed: %v", len(s1), l, len(s2), err)
			ok = false
			break
		}
		if fp, _ := c10LoadedFingerprint(plant, re); fp != fp1 {
			ctx.Violate("truncated-temp", "differs:"+c10DiffClass(fp1, fp), one, "with a partial cache.saving (%d of %d bytes) the loaded cache is not the previous snapshot: %s", l, len(s2), c10FirstDiff(fp1, fp))
			ok = false
			break
		}
		if l == -1 || l == len(s2)/2 {
			// the history goes on: the next save must replace the debris and round-trip
			c10Mutate(re, c10Op{Kind: "mutate", Seed: uint64(l) + cs.Sub, Idx: 200})
			if err := re.Save(); err != nil {
				ctx.Violate("truncated-temp", "save-after-debris-failed", one, "Save() after loading next to a stale cache.saving failed: %v", err)
				ok = false
				break
			}
			want := c10Fingerprint(re)
			re2, err := cache.NewCache(cache.Options{CacheDir: plant})
			if err != nil {
				ctx.Violate("truncated-temp", "load-failed", one, "load after save over debris failed: %v", err)
				ok = false
				break
			}
			if fp, _ := c10LoadedFingerprint(plant, re2); fp != want {
				ctx.Violate("truncated-temp", "differs-after-debris", one, "save over debris did not round-trip: %s", c10FirstDiff(want, fp))
				ok = false
				break
			}
			ctx.Count("saves_over_debris")
		}
	}
	if ok {
		ctx.Count("truncated_pairs")
		ctx.Add("truncated_snapshot_bytes", len(s2))
		ctx.See(fmt.Sprintf("trunc:%d:%d:%s", len(s1), len(s2), c10Sha(string(s2))[:10]))
	}
}

// ------------------------------------------------------------------------------------------
// the child (prop C10child): `lib --prop C10child --seed S --n K --work <dir>`
//
// Performs K ops on a cache in <dir>/state; every op ends in exactly one save of that cache. A twin
// cache in <dir>/twin receives every op first, which yields the hash the primary must have after the
// op. oplog lines (each one O_APPEND|O_SYNC write to <dir>/oplog):
//   BEGIN i <pre> <post> <kind>     before op i touches the primary
//   END i <hash> <flag>             after it; flag: "self" (self-saving call), "ok" (explicit Save()
//                                   returned nil)
//   ERR i <quoted error>            explicit Save() failed; the child stops
//   TWINDIFF i <hash>               primary and twin disagree after the op (harness self-check)
//   FATAL <text>                    set-up failure
//   NOSAVE i                        (only with C10_STOP_ON_NOSAVE=1) the cache file was not replaced
//                                   during op i (same inode as before): its save failed; the child
//                                   stops after END i

func runC10Child(ctx *Ctx) {
	// every traced call of this history is made by this goroutine: pinning it to its thread makes
	// strace's per-thread `when=N` count the N-th call of the history, reproducibly
	runtime.LockOSThread()
	runtime.GOMAXPROCS(2) // fewer threads for strace -f to follow
	dir, err := filepath.Abs(ctx.Work)
	if err != nil {
		return
	}
	f, err := os.OpenFile(filepath.Join(dir, "oplog"), os.O_WRONLY|os.O_CREATE|os.O_APPEND|os.O_SYNC, 0o644)
	if err != nil {
		fmt.Fprintln(os.Stderr, "C10child: cannot open oplog:", err)
		os.Exit(3)
	}
	defer f.Close()
	logf := func(format string, a ...interface{}) { f.WriteString(fmt.Sprintf(format, a...) + "\n") }

	cgroups.SetMountDir(filepath.Join(dir, "no-cgroupfs"))
	stopOnNoSave := os.Getenv("C10_STOP_ON_NOSAVE") == "1"
	inode := func() uint64 {
		var st syscall.Stat_t
		if syscall.Stat(filepath.Join(dir, "state", "cache"), &st) != nil {
			return 0
		}
		return st.Ino
	}
	state := filepath.Join(dir, "state")
	prim, err := cache.NewCache(cache.Options{CacheDir: state})
	if err != nil {
		logf("FATAL primary: %v", err)
		return
	}
	twin, err := cache.NewCache(cache.Options{CacheDir: filepath.Join(dir, "twin")})
	if err != nil {
		logf("FATAL twin: %v", err)
		return
	}
	r := sysgen.NewRNG(ctx.Seed ^ 0xC10C10)
	for i := 0; i < ctx.N; i++ {
		op := c10Op{Seed: r.Uint64(), Idx: i}
		pre := c10Sha(c10Fingerprint(prim))
		kind, explicit, _ := c10Mutate(twin, op)
		post := c10Sha(c10Fingerprint(twin))
		logf("BEGIN %d %s %s %s", i, pre, post, kind)
		inoBefore := inode()
		c10Mutate(prim, op)
		flag := "self"
		if explicit {
			if err := prim.Save(); err != nil {
				logf("ERR %d %q", i, err.Error())
				return
			}
			flag = "ok"
		}
		h := c10Sha(c10Fingerprint(prim))
		if h != post {
			logf("TWINDIFF %d %s", i, h)
		}
		noSave := stopOnNoSave && inode() == inoBefore
		if noSave {
			logf("NOSAVE %d", i)
		}
		logf("END %d %s %s", i, h, flag)
		ctx.Count("ops_" + kind)
		if noSave {
			return
		}
	}
}

// ------------------------------------------------------------------------------------------
// running the child under strace

type c10Rec struct {
	Tag        string
	I          int
	Pre, Post  string // BEGIN
	Kind       string
	Hash, Flag string // END
	Msg        string
}

type c10Run struct {
	dir      string
	state    string
	recs     []c10Rec
	oplog    string
	strace   []string // log lines
	killed   bool
	exit     int
	timedOut bool
	stderr   string
}

func c10ParseOplog(text string) []c10Rec {
	var recs []c10Rec
	sc := bufio.NewScanner(strings.NewReader(text))
	sc.Buffer(make([]byte, 1<<20), 1<<20)
	for sc.Scan() {
		f := strings.Fields(sc.Text())
		if len(f) == 0 {
			continue
		}
		rec := c10Rec{Tag: f[0], I: -1}
		if len(f) > 1 {
			if v, err := strconv.Atoi(f[1]); err == nil {
				rec.I = v
			}
		}
		switch f[0] {
		case "BEGIN":
			if len(f) < 5 {
				continue // a torn line cannot happen (single write), but never trust it
			}
			rec.Pre, rec.Post, rec.Kind = f[2], f[3], f[4]
		case "END":
			if len(f) < 4 {
				continue
			}
			rec.Hash, rec.Flag = f[2], f[3]
		default:
			rec.Msg = strings.Join(f[1:], " ")
		}
		recs = append(recs, rec)
	}
	return recs
}

// runChild runs one child under strace with the given extra strace arguments.
func (e *c10Env) runChild(tag string, seed uint64, k int, straceArgs []string, extraEnv ...string) *c10Run {
	runtime.LockOSThread() // Pdeathsig is bound to the forking thread
	defer runtime.UnlockOSThread()
	dir := e.newDir(tag)
	run := &c10Run{dir: dir, state: filepath.Join(dir, "state")}
	logPath := filepath.Join(dir, "strace.log")
	args := append([]string{"-f", "-y", "-o", logPath}, straceArgs...)
	args = append(args, "--", e.self, "--prop", "C10child", "--seed", strconv.FormatUint(seed, 10), "--n", strconv.Itoa(k), "--work", dir)
	c, cancel := context.WithTimeout(context.Background(), 60*time.Second)
	defer cancel()
	cmd := exec.Command("strace", args...)
	cmd.Env = append(os.Environ(), extraEnv...)
	cmd.SysProcAttr = &syscall.SysProcAttr{Setpgid: true, Pdeathsig: syscall.SIGKILL}
	var stderr strings.Builder
	cmd.Stderr = &stderr
	if err := cmd.Start(); err != nil {
		run.exit = -1
		run.stderr = err.Error()
		return run
	}
	done := make(chan error, 1)
	go func() { done <- cmd.Wait() }()
	var werr error
	select {
	case werr = <-done:
	case <-c.Done():
		run.timedOut = true
		syscall.Kill(-cmd.Process.Pid, syscall.SIGKILL)
		werr = <-done
	}
	// nothing of the process group may survive (strace, child, threads)
	syscall.Kill(-cmd.Process.Pid, syscall.SIGKILL)
	if werr != nil {
		if ee, ok := werr.(*exec.ExitError); ok {
			if ws, ok := ee.Sys().(syscall.WaitStatus); ok && ws.Signaled() {
				run.killed = ws.Signal() == syscall.SIGKILL
				run.exit = 128 + int(ws.Signal())
			} else {
				run.exit = ee.ExitCode()
			}
		} else {
			run.exit = -1
		}
	}
	run.stderr = stderr.String()
	if b, err := os.ReadFile(filepath.Join(dir, "oplog")); err == nil {
		run.oplog = string(b)
		run.recs = c10ParseOplog(run.oplog)
	}
	if b, err := os.ReadFile(logPath); err == nil {
		run.strace = strings.Split(string(b), "\n")
		for _, l := range run.strace {
			if strings.Contains(l, "+++ killed by SIGKILL +++") {
				run.killed = true
			}
		}
	}
	e.ctx.Count("strace_runs")
	return run
}

// c10PathClass classifies a strace line by the files of the child it touches.
func (run *c10Run) pathClass(line string) string {
	has := func(p string) bool {
		return strings.Contains(line, "\""+p+"\"") || strings.Contains(line, "<"+p+">")
	}
	switch {
	case has(filepath.Join(run.state, "cache.saving")) && has(filepath.Join(run.state, "cache")):
		return "rename"
	case has(filepath.Join(run.state, "cache.saving")):
		return "temp"
	case has(filepath.Join(run.state, "cache")):
		return "cache"
	case has(filepath.Join(run.dir, "oplog")):
		return "oplog"
	case strings.Contains(line, filepath.Join(run.dir, "twin")):
		return "twin"
	}
	return "other"
}

func c10Syscall(line string) string {
	// "<pid> name(args..." or "<pid> <... name resumed>"
	f := strings.SplitN(line, " ", 2)
	if len(f) < 2 {
		return ""
	}
	rest := strings.TrimSpace(f[1])
	if strings.HasPrefix(rest, "<... ") {
		g := strings.Fields(rest)
		if len(g) >= 2 {
			return g[1]
		}
		return ""
	}
	if j := strings.Index(rest, "("); j > 0 {
		return rest[:j]
	}
	return ""
}

// killPoint finds the call the SIGKILL was injected into: the last unfinished call of that name.
func (run *c10Run) killPoint(call string) (class string, found bool) {
	for i := len(run.strace) - 1; i >= 0; i-- {
		l := run.strace[i]
		if c10Syscall(l) == call && !strings.Contains(l, " resumed>") &&
			(strings.Contains(l, "<unfinished ...>") || strings.HasSuffix(strings.TrimSpace(l), "= ?") || !strings.Contains(l, ") = ")) {
			return run.pathClass(l), true
		}
	}
	return "", false
}

func (run *c10Run) injectedLine() (string, bool) {
	for _, l := range run.strace {
		if strings.Contains(l, "(INJECTED)") {
			return l, true
		}
	}
	return "", false
}

func (run *c10Run) count(call string) int {
	n := 0
	for _, l := range run.strace {
		if c10Syscall(l) == call && !strings.Contains(l, " resumed>") {
			n++
		}
	}
	return n
}

func c10ReadB64(path string) string {
	b, err := os.ReadFile(path)
	if err != nil {
		return ""
	}
	if len(b) == 0 {
		return "-" // exists, empty
	}
	return base64.StdEncoding.EncodeToString(b)
}

// accepted computes, from the oplog, which state hashes the directory may hold and which op was
// in flight. faultOp >= 0: an error was injected into op faultOp, whose save may have failed silently.
func (e *c10Env) accepted(recs []c10Rec, faultOp int) (accept []string, inflight *c10Rec, finished bool) {
	var lastBegin, lastEnd *c10Rec
	for i := range recs {
		switch recs[i].Tag {
		case "BEGIN":
			lastBegin = &recs[i]
			lastEnd = nil
		case "END":
			if lastBegin != nil && recs[i].I == lastBegin.I {
				lastEnd = &recs[i]
			}
		}
	}
	if lastBegin == nil {
		return []string{c10Sha(e.emptyFP)}, nil, true
	}
	if lastEnd != nil {
		if faultOp == lastBegin.I && lastEnd.Flag != "ok" {
			// the swallowed error of a self-saving call: the previous snapshot is a legal outcome
			return []string{lastBegin.Pre, lastEnd.Hash}, lastBegin, true
		}
		return []string{lastEnd.Hash}, lastBegin, true
	}
	return []string{lastBegin.Pre, lastBegin.Post}, lastBegin, false
}

// checkState loads run.state in THIS process and compares it with the accepted hashes.
func (e *c10Env) checkState(stateDir string, accept []string) (loadErr error, hash string, ok bool) {
	var c cache.Cache
	var err error
	if p, _ := Guard(func() { c, err = cache.NewCache(cache.Options{CacheDir: stateDir}) }); p != "" {
		return fmt.Errorf("panic: %s", p), "", false
	}
	if err != nil {
		return err, "", false
	}
	fp, _ := c10LoadedFingerprint(stateDir, c)
	hash = c10Sha(fp)
	for _, a := range accept {
		if a == hash {
			return nil, hash, true
		}
	}
	return nil, hash, false
}

// ------------------------------------------------------------------------------------------
// clauses 2, 3, 5 on one child history

func (e *c10Env) pArgs(dir string, withOplog bool) []string {
	state := filepath.Join(dir, "state")
	a := []string{"-P", filepath.Join(state, "cache"), "-P", filepath.Join(state, "cache.saving")}
	if withOplog {
		a = append(a, "-P", filepath.Join(dir, "oplog"))
	}
	return a
}

// renameOnly is clause 2; it returns the uninjected run (nil if unusable).
func (e *c10Env) renameOnly(seed uint64, k int) *c10Run {
	ctx := e.ctx
	cs := c10Case{Clause: "rename-only", ChildSeed: seed, K: k}
	run := e.runChild("plain", seed, k, []string{"-e", "trace=openat,open,creat,renameat,renameat2,rename,truncate,ftruncate,write,close"})
	defer os.RemoveAll(run.dir)
	if run.exit != 0 || run.timedOut || len(run.strace) < 3 {
		ctx.Count("harness_plain_run_failed")
		if ctx.Verbose {
			fmt.Println("plain run failed:", run.exit, run.stderr)
		}
		return nil
	}
	ends := 0
	for _, r := range run.recs {
		switch r.Tag {
		case "END":
			ends++
		case "TWINDIFF", "FATAL", "ERR":
			ctx.Count("harness_child_" + strings.ToLower(r.Tag))
			return nil
		}
	}
	if ends != k {
		ctx.Count("harness_plain_run_incomplete")
		return nil
	}
	cachePath := filepath.Join(run.state, "cache")
	q, fdp := "\""+cachePath+"\"", "<"+cachePath+">"
	renamesOnto, reads := 0, 0
	ctx.Eval()
	for _, l := range run.strace {
		sc := c10Syscall(l)
		if strings.Contains(l, " resumed>") || sc == "" {
			continue
		}
		switch sc {
		case "openat", "open", "creat":
			if !strings.Contains(l, q) {
				continue
			}
			if sc == "creat" || strings.Contains(l, "O_WRONLY") || strings.Contains(l, "O_RDWR") || strings.Contains(l, "O_TRUNC") || strings.Contains(l, "O_CREAT") || strings.Contains(l, "O_APPEND") {
				ctx.Violate("rename-only", "opened-for-writing", cs, "the cache file itself is opened for writing: %s", l)
				return run
			}
			reads++
		case "truncate":
			if strings.Contains(l, q) {
				ctx.Violate("rename-only", "truncated", cs, "the cache file is truncated in place: %s", l)
				return run
			}
		case "ftruncate", "write":
			if strings.Contains(l, fdp) {
				ctx.Violate("rename-only", "written-in-place", cs, "the cache file is modified in place: %s", l)
				return run
			}
		case "rename", "renameat", "renameat2":
			if !strings.Contains(l, q) {
				continue
			}
			// the target is the last quoted path of the call
			args := strings.TrimSuffix(strings.TrimSpace(l), "<unfinished ...>")
			if j := strings.LastIndex(args, ") = "); j > 0 {
				args = args[:j]
			}
			last := strings.LastIndex(args, q)
			first := strings.Index(args, q)
			tail := args[last+len(q):]
			if first != last || strings.Contains(tail, "\"") {
				ctx.Violate("rename-only", "renamed-away", cs, "the cache file is the source of a rename: %s", l)
				return run
			}
			renamesOnto++
		}
	}
	if renamesOnto < k {
		ctx.Violate("rename-only", "no-rename", cs, "%d saves but only %d renames onto the cache file were seen", k, renamesOnto)
		return run
	}
	ctx.Count("rename_only_runs")
	ctx.Add("renames_onto_cache_file", renamesOnto)
	ctx.Add("cache_file_opened_readonly", reads)
	for _, sc := range []string{"renameat", "renameat2", "rename"} {
		if n := run.count(sc); n > 0 {
			ctx.Add("plain_"+sc+"_calls", n)
		}
	}
	return run
}

func (e *c10Env) violateFault(check, sig string, cs c10Case, run *c10Run, accept []string, format string, a ...interface{}) {
	cs.CacheB64 = c10ReadB64(filepath.Join(run.state, "cache"))
	cs.SavingB64 = c10ReadB64(filepath.Join(run.state, "cache.saving"))
	cs.Accept = accept
	cs.Oplog = run.oplog
	e.ctx.Violate(check, sig, cs, format, a...)
}

// killOne runs the child with SIGKILL injected on the when-th <call>; returns false when the child
// survived (the sweep for this call is over).
func (e *c10Env) killOne(seed uint64, k int, call string, when int) bool {
	ctx := e.ctx
	cs := c10Case{Clause: "kill", ChildSeed: seed, K: k, Call: call, When: when}
	dirGuess := filepath.Join(e.root, fmt.Sprintf("kill-%d", e.seq+1))
	args := append(e.pArgs(dirGuess, true), "-e", "trace=openat,write,renameat,renameat2,close,fsync",
		"-e", fmt.Sprintf("inject=%s:signal=SIGKILL:when=%d", call, when))
	run := e.runChild("kill", seed, k, args)
	defer os.RemoveAll(run.dir)
	if run.dir != dirGuess {
		ctx.Count("harness_dir_guess_wrong")
		return false
	}
	if run.timedOut {
		ctx.Count("harness_child_timeout")
		return true
	}
	if !run.killed {
		if run.exit != 0 {
			ctx.Count("harness_child_failed")
		}
		return false
	}
	for _, r := range run.recs {
		if r.Tag == "TWINDIFF" || r.Tag == "FATAL" {
			ctx.Count("harness_child_" + strings.ToLower(r.Tag))
			return true
		}
	}
	class, found := run.killPoint(call)
	if !found {
		class = "unknown"
	}
	accept, inflight, finished := e.accepted(run.recs, -1)
	opKind, opIdx := "none", -1
	if inflight != nil {
		opKind, opIdx = inflight.Kind, inflight.I
	}
	ctx.Eval()
	ctx.Count("kill_points_hit")
	ctx.Count("kill_points_by_syscall_" + call)
	switch {
	case class == "temp" && !finished:
		ctx.Count("kills_during_temp_write")
	case class == "rename" && !finished:
		ctx.Count("kills_during_rename")
	case finished:
		ctx.Count("kills_between_ops")
	default:
		ctx.Count("kills_in_op_elsewhere")
	}
	ctx.Count("kills_in_opkind_" + opKind)
	if inflight != nil && !finished && inflight.Pre != inflight.Post {
		ctx.Count("kill_points_in_op_changing_state") // previous and new snapshot are distinguishable
	}
	ctx.See(fmt.Sprintf("kill:%s:%s:%s:%d", opKind, call, class, when))
	loadErr, hash, ok := e.checkState(run.state, accept)
	ctx.Count("loads_after_kill")
	if ctx.Replay != "" {
		fmt.Printf("replay: child killed at %s #%d (file class %s) during op %d (%s), op finished=%v; loaded=%s loadErr=%v accepted=%v\n", call, when, class, opIdx, opKind, finished, hash, loadErr, accept)
	}
	sig := fmt.Sprintf("%s:%s:%s", call, class, opKind)
	switch {
	case loadErr != nil:
		e.violateFault("kill-load-failed", sig, cs, run, accept, "child killed at %s #%d (%s, op %d %s): the state directory does not load: %v", call, when, class, opIdx, opKind, loadErr)
	case !ok:
		e.violateFault("kill-state-mismatch", sig, cs, run, accept, "child killed at %s #%d (%s, op %d %s, finished=%v): loaded state %s is none of the accepted %v", call, when, class, opIdx, opKind, finished, hash, accept)
	default:
		if !finished && inflight != nil {
			if hash == inflight.Post && hash != inflight.Pre {
				ctx.Count("kill_left_new_snapshot")
			} else {
				ctx.Count("kill_left_previous_snapshot")
			}
		}
	}
	return true
}

func (e *c10Env) errorOne(seed uint64, k int, call, errno string, when int) {
	ctx := e.ctx
	cs := c10Case{Clause: "error", ChildSeed: seed, K: k, Call: call, When: when, Errno: errno}
	dirGuess := filepath.Join(e.root, fmt.Sprintf("err-%d", e.seq+1))
	// injection restricted (-P) to the cache file and its temporary. The child notices a save that did
	// not replace the cache file (same inode) or an error from an explicit Save(), and stops after that op.
	args := append(e.pArgs(dirGuess, false), "-e", "trace=openat,write,renameat,renameat2,close",
		"-e", fmt.Sprintf("inject=%s:error=%s:when=%d", call, errno, when))
	run := e.runChild("err", seed, k, args, "C10_STOP_ON_NOSAVE=1")
	defer os.RemoveAll(run.dir)
	if run.dir != dirGuess || run.timedOut {
		ctx.Count("harness_child_timeout")
		return
	}
	line, injected := run.injectedLine()
	if !injected {
		ctx.Count("error_injections_missed")
		return
	}
	if strings.Contains(line, "\""+filepath.Join(run.state, "cache")+"\", O_RDONLY") {
		// the failing call was the read of the cache file in the child's own NewCache, not a save.
		// (Observed: Load() then reports no error and starts empty - `len(data) == 0` is tested before
		// `err != nil` in cache.go Load(); outside this property's fault list, counted only.)
		ctx.Count("error_injections_hit_load")
		for _, r := range run.recs {
			if r.Tag == "BEGIN" {
				ctx.Count("info_load_error_swallowed")
				break
			}
		}
		return
	}
	faultOp := -1
	var errRec *c10Rec
	for i, r := range run.recs {
		switch r.Tag {
		case "TWINDIFF":
			ctx.Count("harness_child_twindiff")
			return
		case "FATAL":
			// the injected error hit the child's own NewCache (its Load): not a save
			ctx.Count("error_injections_hit_load")
			return
		case "NOSAVE":
			faultOp = r.I
		case "ERR":
			faultOp = r.I
			errRec = &run.recs[i]
		}
	}
	ctx.Eval()
	ctx.Count("error_injections")
	ctx.Count("error_injections_" + call + "_" + errno)
	accept, inflight, _ := e.accepted(run.recs, faultOp)
	opKind := "none"
	if inflight != nil {
		opKind = inflight.Kind
	}
	sig := fmt.Sprintf("%s:%s:%s", call, errno, opKind)
	ctx.See(fmt.Sprintf("err:%s:%s:%s:%d", opKind, call, errno, when))
	if run.exit != 0 || run.killed {
		e.violateFault("error-child-crashed", sig, cs, run, accept, "with %s failing with %s the process did not survive (exit %d): %s", call, errno, run.exit, strings.TrimSpace(run.stderr))
		return
	}
	switch {
	case faultOp < 0:
		// every save replaced the cache file and no Save() reported an error although a call failed
		// (e.g. the failing call was retried): the final state must simply be the last END
		ctx.Count("error_injections_without_failed_save")
	case errRec != nil:
		ctx.Count("save_errors_reported")
	case inflight != nil && inflight.I == faultOp && (inflight.Kind == "mutate" || inflight.Kind == "ctr-failed"):
		// explicit Save() returned nil but the cache file was not replaced: only the new snapshot is legal
		accept = []string{inflight.Post}
		ctx.Count("save_errors_not_reported")
	default:
		ctx.Count("save_errors_swallowed_by_self_saving_call")
	}
	loadErr, hash, ok := e.checkState(run.state, accept)
	ctx.Count("loads_after_error")
	if ctx.Replay != "" {
		fmt.Printf("replay: %s failed with %s [%s]; failed-save op=%d (%s), Save() error reported=%v; loaded=%s loadErr=%v accepted=%v\n", call, errno, strings.TrimSpace(line), faultOp, opKind, errRec != nil, hash, loadErr, accept)
	}
	opIdx := -1
	if inflight != nil {
		opIdx = inflight.I
	}
	switch {
	case loadErr != nil:
		e.violateFault("error-load-failed", sig, cs, run, accept, "%s -> %s injected in op %d (%s) [%s]: the state directory does not load: %v", call, errno, opIdx, opKind, line, loadErr)
	case !ok:
		e.violateFault("error-state-mismatch", sig, cs, run, accept, "%s -> %s injected in op %d (%s), Save error reported=%v: loaded state %s is none of the accepted %v", call, errno, opIdx, opKind, errRec != nil, hash, accept)
	default:
		if inflight != nil && hash == inflight.Pre && faultOp >= 0 {
			ctx.Count("error_left_previous_snapshot")
		} else {
			ctx.Count("error_left_new_snapshot")
		}
	}
}

func (e *c10Env) history(seed uint64, k int, thorough bool) {
	ctx := e.ctx
	plain := e.renameOnly(seed, k)
	if plain == nil {
		return
	}
	ctx.Count("histories")
	// kill sweep: N = 1.. until the child survives; bounded by the uninjected run's call counts
	for _, call := range []string{"write", "renameat", "renameat2", "openat", "close"} {
		total := plain.count(call)
		if total == 0 {
			continue
		}
		limit := total + 2
		if limit > 8*k+8 {
			limit = 8*k + 8
		}
		for n := 1; n <= limit; n++ {
			if !e.killOne(seed, k, call, n) {
				break
			}
		}
	}
	// error sweep
	for _, p := range [][2]string{{"write", "ENOSPC"}, {"write", "EIO"}, {"renameat", "EDQUOT"}, {"openat", "EACCES"}} {
		step := 1
		if !thorough && p[1] != "ENOSPC" && p[1] != "EDQUOT" {
			step = 2
		}
		for n := 1; n <= k; n += step {
			e.errorOne(seed, k, p[0], p[1], n)
		}
	}
}

// replayFault re-checks a kill/error witness: first deterministically (the files found on disk are
// planted again and loaded), then by repeating the injection run.
func (e *c10Env) replayFault(cs c10Case) {
	ctx := e.ctx
	if cs.CacheB64 != "" || cs.SavingB64 != "" {
		d := e.newDir("replant")
		state := filepath.Join(d, "state")
		os.MkdirAll(filepath.Join(state, "containers"), 0o755)
		os.Chmod(state, 0o710)
		for name, b64 := range map[string]string{"cache": cs.CacheB64, "cache.saving": cs.SavingB64} {
			if b64 == "" {
				continue
			}
			var data []byte
			if b64 != "-" {
				data, _ = base64.StdEncoding.DecodeString(b64)
			}
			os.WriteFile(filepath.Join(state, name), data, 0o644)
		}
		loadErr, hash, ok := e.checkState(state, cs.Accept)
		switch {
		case loadErr != nil:
			ctx.Violate(cs.Clause+"-load-failed", "replanted", cs, "the files left by the fault do not load: %v", loadErr)
		case !ok:
			ctx.Violate(cs.Clause+"-state-mismatch", "replanted", cs, "the files left by the fault load as %s, accepted %v", hash, cs.Accept)
		default:
			fmt.Println("replay: the recorded on-disk files load and match an accepted state")
		}
		os.RemoveAll(d)
	}
	if _, err := exec.LookPath("strace"); err != nil {
		return
	}
	if cs.Clause == "kill" {
		e.killOne(cs.ChildSeed, cs.K, cs.Call, cs.When)
	} else {
		e.errorOne(cs.ChildSeed, cs.K, cs.Call, cs.Errno, cs.When)
	}
}
