package libdrv

// C08 — CPU allocator contract: exact count, subset, set bookkeeping, determinism.
//
// Code under test: pkg/cpuallocator (NewCPUAllocator, AllocateCpus, ReleaseCpus, WithPriority,
// CPUPriority.Option, WithAllocFlags) on top of pkg/sysfs discovery of a synthetic sysfs tree.
//
// Oracle (set algebra on result, error and the mutated *from; nothing about WHICH CPUs are taken):
//   AllocateCpus(&S, n, opts), S0 = S before the call, S1 = *from after it
//     n <= |S0| : alloc_error (err must be nil), alloc_count (|result| == n), alloc_subset (result ⊆ S0),
//                 alloc_bookkeeping (S1 == S0 \ result)
//     n == 0    : same clauses, i.e. empty result and S1 == S0
//     n >  |S0| : alloc_too_many_no_error (err != nil), alloc_too_many_mutates (S1 == S0)
//   ReleaseCpus(&S, n, opts): orientation as the callers rely on it (balloons-policy.go resizeBalloon,
//   deflate branch: `freeCpus = freeCpus ∪ *from`, `bln.Cpus = bln.Cpus \ *from`; deleteBalloon): after
//   the call *from holds exactly the n released CPUs, the return value the |S0|-n kept ones.
//     n <= |S0| : release_error, release_count (|S1| == n and |result| == |S0|-n),
//                 release_partition (result ∩ S1 = ∅ and result ∪ S1 == S0)
//     n >  |S0| : release_too_many_no_error (err != nil), release_too_many_mutates (S1 == S0)
//   determinism: determinism_same_allocator (the same call repeated on the same allocator) and
//                determinism_twin_allocator (the same call on a second allocator built from a second
//                discovery of the same sysfs tree) give the same result, error-ness and S1.
//   A panic in either call is a violation (call_panics): the contract gives every call a defined outcome.
//   A panic/error while *constructing* the allocator or discovering the machine is not part of C08; such
//   machines are skipped and counted (machines_ctor_panicked / machines_discovery_failed).
//
// Cases. N = number of machines. Machines: 3 of 4 "structured" (L2 clusters never span a NUMA node or
// mix P/E cores; hybrid P/E, offline CPUs, cpufreq/EPP classes drawn independently), 1 of 4 from
// sysgen.Random (arbitrary); half of all machines get their cpufreq base frequency / EPP rewritten per package
// (c08VaryFreq) so that machines with all three priority classes (high, normal, low) occur. <= 64 CPUs. Per machine one sysfs tree is written under ctx.Work, discovered
// twice (twin allocator) and then used for at most c08CallsPerMachine (= 3000) checked calls:
//   S  : subsets of the ONLINE CPUs, biased to partially used cores / L2 groups / packages (c08DrawSet);
//   n  : all of 0..|S|+1 when |S| <= 8, else {0, 1, 2, |S|-1, |S|, |S|+1} and 4 random interior values;
//   opt: 4 random (priority, flags, option form) combinations per (S, n) and all 81 for every 8th (S, n):
//        priority ∈ {High, Normal, Low, None, (no priority option)} x flags ∈ 16 masks of
//        {AllocIdlePackages, AllocIdleClusters, AllocCacheGroups, AllocIdleCores} (mask 15 == AllocDefault
//        is also exercised as "no flags option"); priorities are passed alternately as WithPriority(p) and
//        p.Option();
//   kind: AllocateCpus and ReleaseCpus alternate (release 1 of 3).
// Thorough tier: machines with <= 10 online CPUs are enumerated COMPLETELY: every subset S (incl. ∅),
// every n in 0..|S|+1, every one of the 5 x 17 = 85 option combinations, for both AllocateCpus and ReleaseCpus
// (stat exhaustive_machines; the 3000-call bound does not apply to them). One machine in three is drawn
// small (<= 10 CPUs) in the thorough tier.
//
// Non-trivial case rule for See(): a call with 0 < n < |S| (the multi-stage chooser runs); fingerprint =
// hash(machine shape, |S|, n, kind, priority, flags).

import (
	"fmt"
	"os"
	"path/filepath"
	"sort"

	"github.com/containers/nri-plugins/pkg/cpuallocator"
	"github.com/containers/nri-plugins/pkg/sysfs"
	"github.com/containers/nri-plugins/pkg/utils/cpuset"
	idset "github.com/intel/goresctrl/pkg/utils"

	"verif/harness/sysgen"
)

func init() { Register("C08", runC08) }

const (
	c08CallsPerMachine = 3000
	c08MaxCPUs         = 64
	c08ExhaustiveMax   = 10
	c08PrioDefault     = 4 // no priority option at all
	c08NoFlagsOption   = 16
)

type c08Case struct {
	Machine *sysgen.Machine `json:"machine"`
	// sysgen.Machine tags both NodesPer and Nodes as "nodes", so encoding/json drops both: carry them here
	MachineNodes    []sysgen.Node `json:"machine_nodes"`
	MachineNodesPer int           `json:"machine_nodes_per"`
	Kind            string        `json:"kind"` // "alloc" | "release"
	S               []int         `json:"s"`
	N               int           `json:"n"`
	Prio            int           `json:"prio"`  // 0 high, 1 normal, 2 low, 3 none, 4 no option
	Flags           int           `json:"flags"` // 0..15 mask, 16 = no WithAllocFlags option
	Form            int           `json:"form"`  // 0 WithPriority(p), 1 p.Option()
}

type c08Machine struct {
	m      *sysgen.Machine
	shape  string
	class  string // coarse class for signatures
	online []int
	a, b   cpuallocator.CPUAllocator
	cores  [][]int // online CPUs per core
	l2     [][]int // online CPUs per L2 group
	pkgs   [][]int
}

func runC08(ctx *Ctx) {
	if ctx.Replay != "" {
		var cs c08Case
		if err := LoadCase(ctx.Replay, &cs); err != nil || cs.Machine == nil {
			ctx.Violate("replay_load", "replay", nil, "cannot load %s: %v", ctx.Replay, err)
			return
		}
		cs.Machine.Nodes, cs.Machine.NodesPer = cs.MachineNodes, cs.MachineNodesPer
		mm := c08Setup(ctx, cs.Machine, "replay")
		if mm == nil {
			ctx.Violate("replay_load", "replay", nil, "machine of %s cannot be set up", ctx.Replay)
			return
		}
		c08Call(ctx, mm, cs.Kind, cs.S, cs.N, cs.Prio, cs.Flags, cs.Form, true, true)
		return
	}
	for i := 0; i < ctx.N; i++ {
		rng := ctx.RNG.Fork()
		m := c08DrawMachine(rng, fmt.Sprintf("c08-%d-%d-%d", ctx.Seed, ctx.Shard, i), ctx.Tier == "thorough")
		mm := c08Setup(ctx, m, fmt.Sprintf("m%d", i))
		if mm == nil {
			continue
		}
		ctx.Count("machines")
		if m.Hybrid {
			ctx.Count("hybrid_machines")
		}
		if len(mm.online) < len(m.CPUs) {
			ctx.Count("machines_with_offline_cpus")
		}
		if len(mm.l2) < len(mm.cores) {
			ctx.Count("machines_with_l2_groups")
		}
		classes := 0
		for _, cs := range mm.a.GetCPUPriorities() {
			if !cs.IsEmpty() {
				classes++
			}
		}
		ctx.Count(fmt.Sprintf("machines_with_%d_priority_classes", classes))
		if ctx.Tier == "thorough" && len(mm.online) <= c08ExhaustiveMax {
			c08Exhaustive(ctx, mm)
			ctx.Count("exhaustive_machines")
		} else {
			c08Sampled(ctx, mm, rng)
		}
	}
}

// ------------------------------------------------------------------ machines

func c08DrawMachine(r *sysgen.RNG, name string, wantSmall bool) *sysgen.Machine {
	m := c08DrawTopology(r, name, wantSmall)
	if r.Chance(1, 2) {
		c08VaryFreq(r, m)
	}
	return m
}

// c08VaryFreq rewrites cpufreq/EPP per package (whole cores), so that machines occur where one package
// is uniform (all "normal" priority) while another has high and low priority CPUs: all three classes at once.
func c08VaryFreq(r *sysgen.RNG, m *sysgen.Machine) {
	epps := []string{"performance", "balance_performance", "balance_power", "power"}
	for pkg := 0; pkg < m.Packages; pkg++ {
		mode := r.Intn(4)
		e0 := r.Intn(len(epps))
		for i := range m.CPUs {
			c := &m.CPUs[i]
			if c.Pkg != pkg {
				continue
			}
			c.Base, c.MaxF, c.EPP = 2000000, 3000000, "balance_performance"
			switch mode {
			case 1: // two base-frequency bins
				if c.Core%2 == 0 {
					c.Base, c.MaxF = 2600000, 3600000
				}
			case 2: // EPP variety
				c.EPP = epps[(e0+c.Core)%len(epps)]
			case 3: // both, not aligned with each other
				if c.Core%3 == 0 {
					c.Base, c.MaxF = 2400000, 3400000
				}
				c.EPP = epps[(e0+c.Core/2)%len(epps)]
			}
		}
	}
}

func c08DrawTopology(r *sysgen.RNG, name string, wantSmall bool) *sysgen.Machine {
	if wantSmall && r.Chance(1, 3) {
		for {
			p := sysgen.Params{
				Packages:     sysgen.Pick(r, []int{1, 1, 2}),
				NodesPerDie:  sysgen.Pick(r, []int{1, 1, 2}),
				CoresPerNode: r.Range(1, 5),
				Threads:      sysgen.Pick(r, []int{1, 2, 2}),
				Interleaved:  r.Chance(1, 2),
				FreqClasses:  r.Chance(1, 2),
			}
			p.L2Cluster = c08Divisor(r, p.CoresPerNode, p.CoresPerNode)
			if p.CoresPerNode >= 2 && r.Chance(1, 3) {
				p.Hybrid = true
				p.L2Cluster = c08Divisor(r, (p.CoresPerNode+1)/2, p.CoresPerNode/2)
			}
			n := p.Packages * p.NodesPerDie * p.CoresPerNode * p.Threads
			if n < 2 || n > 12 {
				continue
			}
			if r.Chance(1, 3) {
				p.OfflineCPUs = r.Range(1, 2)
			}
			m := sysgen.Generate(name, p)
			if k := len(m.OnlineCPUs()); k >= 2 && k <= c08ExhaustiveMax {
				return m
			}
		}
	}
	if r.Chance(1, 4) {
		return sysgen.Random(r, name, c08MaxCPUs)
	}
	for {
		p := sysgen.Params{
			Packages:     sysgen.Pick(r, []int{1, 1, 2, 2, 2, 4}),
			Dies:         sysgen.Pick(r, []int{1, 1, 1, 2}),
			NodesPerDie:  sysgen.Pick(r, []int{1, 1, 2}),
			CoresPerNode: sysgen.Pick(r, []int{1, 2, 3, 4, 4, 6, 8, 8, 12}),
			Threads:      sysgen.Pick(r, []int{1, 2, 2}),
			Interleaved:  r.Chance(1, 2),
			FreqClasses:  r.Chance(1, 2),
		}
		p.L2Cluster = c08Divisor(r, p.CoresPerNode, p.CoresPerNode)
		if p.CoresPerNode >= 2 && r.Chance(1, 3) {
			p.Hybrid = true
			// clusters must not mix P- and E-cores: divide both halves
			p.L2Cluster = c08Divisor(r, (p.CoresPerNode+1)/2, p.CoresPerNode/2)
		}
		n := p.Packages * p.Dies * p.NodesPerDie * p.CoresPerNode * p.Threads
		if n > c08MaxCPUs || n < 2 {
			continue
		}
		if r.Chance(1, 3) {
			p.OfflineCPUs = r.Range(1, n/4+1)
		}
		if r.Chance(1, 5) {
			p.IsolatedCPUs = r.Intn(n/4 + 1)
		}
		return sysgen.Generate(name, p)
	}
}

// c08Divisor picks d in {1,2,4} with a%d == 0 and (b%d == 0 or d == 1).
func c08Divisor(r *sysgen.RNG, a, b int) int {
	var ds []int
	for _, d := range []int{1, 2, 2, 4, 4} {
		if a%d == 0 && b%d == 0 {
			ds = append(ds, d)
		}
	}
	if len(ds) == 0 {
		return 1
	}
	return sysgen.Pick(r, ds)
}

func c08Minus(xs []int, off []idset.ID) []int {
	var out []int
	for _, x := range xs {
		keep := true
		for _, o := range off {
			if int(o) == x {
				keep = false
			}
		}
		if keep {
			out = append(out, x)
		}
	}
	return out
}

func c08Setup(ctx *Ctx, m *sysgen.Machine, dirname string) *c08Machine {
	root := filepath.Join(ctx.Work, "c08", dirname)
	os.RemoveAll(root)
	if err := m.Write(root); err != nil {
		ctx.Count("machines_write_failed")
		return nil
	}
	defer os.RemoveAll(root)
	mm := &c08Machine{m: m, online: m.OnlineCPUs()}
	sort.Ints(mm.online)
	var err error
	// every fourth machine (by name, no PRNG draw): one or two online CPUs other than CPU 0 go offline after discovery
	var offlined []idset.ID
	if h := hashStr(m.Name); h%4 == 0 && len(mm.online) > 3 {
		for k := uint64(0); k < 1+(h/4)%2; k++ {
			c := mm.online[int((h/8+k*7)%uint64(len(mm.online)))]
			if c > 0 && (len(offlined) == 0 || offlined[0] != idset.ID(c)) {
				offlined = append(offlined, idset.ID(c))
			}
		}
	}
	for _, id := range offlined { // hot-pluggable CPUs have a per-CPU online file
		_ = os.WriteFile(filepath.Join(root, "sys", "devices", "system", "cpu", fmt.Sprintf("cpu%d", id), "online"), []byte("1\n"), 0o644)
	}
	build := func() cpuallocator.CPUAllocator {
		var a cpuallocator.CPUAllocator
		var sys sysfs.System
		msg, _ := Guard(func() {
			// no DiscoverSst: nothing outside the synthetic tree is consulted
			sys, err = sysfs.DiscoverSystemAt(filepath.Join(root, "sys"), sysfs.DiscoverCPUTopology, sysfs.DiscoverMemTopology, sysfs.DiscoverCache)
		})
		if msg != "" || err != nil || sys == nil {
			ctx.Count("machines_discovery_failed")
			return nil
		}
		if got := sys.OnlineCPUs().List(); !c08Equal(got, mm.online) {
			ctx.Count("machines_discovery_mismatch")
			return nil
		}
		if len(offlined) > 0 {
			// CPUs taken offline AFTER discovery (System.SetCpusOnline): the topology still lists them as thread
			// siblings / core members, System.Offlined() is what keeps them out of every allocation
			if _, e := sys.SetCpusOnline(false, idset.NewIDSet(offlined...)); e != nil {
				ctx.Count("machines_offlining_failed")
				return nil
			}
			for _, id := range offlined { // the next discovery of this tree must see them online again
				_ = os.WriteFile(filepath.Join(root, "sys", "devices", "system", "cpu", fmt.Sprintf("cpu%d", id), "online"), []byte("1\n"), 0o644)
			}
			if got := sys.OnlineCPUs().List(); !c08Equal(got, c08Minus(mm.online, offlined)) {
				ctx.Count("machines_offlining_mismatch")
				return nil
			}
		}
		msg, _ = Guard(func() { a = cpuallocator.NewCPUAllocator(sys) })
		if msg != "" || a == nil {
			ctx.Count("machines_ctor_panicked")
			if ctx.Verbose {
				fmt.Printf("C08: NewCPUAllocator panicked on %s: %s\n", m.Name, msg)
			}
			return nil
		}
		return a
	}
	if mm.a = build(); mm.a == nil {
		return nil
	}
	if mm.b = build(); mm.b == nil {
		return nil
	}
	if len(offlined) > 0 {
		mm.online = c08Minus(mm.online, offlined)
		ctx.Count("machines_with_cpus_offlined_after_discovery")
	}
	// units of the model (online CPUs only)
	seenCore, seenL2, seenPkg := map[[2]int]int{}, map[int]int{}, map[int]int{}
	maxL2, offline := 0, len(m.CPUs)-len(mm.online)
	for _, id := range mm.online {
		c := m.CPUs[id]
		k := [2]int{c.Pkg, c.Core}
		if i, ok := seenCore[k]; ok {
			mm.cores[i] = append(mm.cores[i], id)
		} else {
			seenCore[k] = len(mm.cores)
			mm.cores = append(mm.cores, []int{id})
		}
		if i, ok := seenL2[c.L2ID]; ok {
			mm.l2[i] = append(mm.l2[i], id)
		} else {
			seenL2[c.L2ID] = len(mm.l2)
			mm.l2 = append(mm.l2, []int{id})
		}
		if i, ok := seenPkg[c.Pkg]; ok {
			mm.pkgs[i] = append(mm.pkgs[i], id)
		} else {
			seenPkg[c.Pkg] = len(mm.pkgs)
			mm.pkgs = append(mm.pkgs, []int{id})
		}
	}
	for _, g := range mm.l2 {
		if len(g) > maxL2 {
			maxL2 = len(g)
		}
	}
	freq := 0
	for _, c := range m.CPUs {
		if c.EPP != "balance_performance" || c.Base != 2000000 {
			freq = 1
		}
	}
	mm.shape = fmt.Sprintf("p%dd%dn%dc%dt%d-h%v-i%v-l2x%d-off%d-f%d", m.Packages, m.Dies, m.NodesPer, m.Cores, m.Threads, m.Hybrid, m.Interleaved, maxL2, offline, freq)
	mm.class = "uniform"
	if m.Hybrid {
		mm.class = "hybrid"
	}
	if len(mm.l2) < len(mm.cores) {
		mm.class += "+l2groups"
	}
	return mm
}

func c08Equal(a, b []int) bool {
	if len(a) != len(b) {
		return false
	}
	for i := range a {
		if a[i] != b[i] {
			return false
		}
	}
	return true
}

// ------------------------------------------------------------------ candidate sets

func c08DrawSet(r *sysgen.RNG, mm *c08Machine) []int {
	on := mm.online
	in := map[int]bool{}
	addAll := func(ids []int) {
		for _, id := range ids {
			in[id] = true
		}
	}
	dropSome := func(k int) {
		for i := 0; i < k; i++ {
			delete(in, sysgen.Pick(r, on))
		}
	}
	switch r.Intn(9) {
	case 0: // uniform density
		den := sysgen.Pick(r, []int{2, 4, 6, 7})
		for _, id := range on {
			if r.Chance(den, 8) {
				in[id] = true
			}
		}
	case 1: // everything but a few: partially used cores / groups
		addAll(on)
		dropSome(r.Range(1, 4))
	case 2: // whole L2 groups plus loose threads
		for _, g := range mm.l2 {
			if r.Chance(1, 2) {
				addAll(g)
			}
		}
		for i := r.Intn(4); i > 0; i-- {
			in[sysgen.Pick(r, on)] = true
		}
	case 3: // whole cores plus loose threads
		for _, c := range mm.cores {
			if r.Chance(1, 2) {
				addAll(c)
			}
		}
		for i := r.Intn(3); i > 0; i-- {
			in[sysgen.Pick(r, on)] = true
		}
	case 4: // whole set
		addAll(on)
	case 5: // one package (or all but one) minus a few
		p := r.Intn(len(mm.pkgs))
		inv := r.Chance(1, 3)
		for i, g := range mm.pkgs {
			if (i == p) != inv {
				addAll(g)
			}
		}
		dropSome(r.Intn(3))
	case 6: // one thread of every core: every core partially used
		for _, c := range mm.cores {
			if r.Chance(7, 8) {
				in[sysgen.Pick(r, c)] = true
			}
		}
	case 7: // tiny
		for i := r.Range(1, 3); i > 0; i-- {
			in[sysgen.Pick(r, on)] = true
		}
	case 8: // whole packages, partially used L2 groups in the rest
		for _, g := range mm.pkgs {
			if r.Chance(1, 2) {
				addAll(g)
			}
		}
		for _, g := range mm.l2 {
			if r.Chance(1, 3) {
				for _, id := range g {
					if r.Chance(1, 2) {
						in[id] = true
					}
				}
			}
		}
	}
	var s []int
	for _, id := range on {
		if in[id] {
			s = append(s, id)
		}
	}
	return s
}

// ------------------------------------------------------------------ workloads

func c08Sampled(ctx *Ctx, mm *c08Machine, r *sysgen.RNG) {
	calls, sn := 0, 0
	for calls < c08CallsPerMachine {
		s := c08DrawSet(r, mm)
		var ns []int
		if len(s) <= 8 {
			for n := 0; n <= len(s)+1; n++ {
				ns = append(ns, n)
			}
		} else {
			ns = []int{0, 1, 2, len(s) - 1, len(s), len(s) + 1}
			for i := 0; i < 4; i++ {
				ns = append(ns, r.Range(2, len(s)-2))
			}
		}
		for _, n := range ns {
			sn++
			kind := "alloc"
			if sn%3 == 0 {
				kind = "release"
			}
			if sn%8 == 0 {
				for prio := 0; prio <= c08PrioDefault; prio++ {
					for flags := 0; flags <= c08NoFlagsOption; flags++ {
						if flags == 15 && prio != c08PrioDefault { // == "no flags option"; keep one explicit instance
							continue
						}
						c08Call(ctx, mm, kind, s, n, prio, flags, (prio+flags)%2, calls%3 == 0, calls%4 == 0)
						calls++
					}
				}
			} else {
				for i := 0; i < 4; i++ {
					c08Call(ctx, mm, kind, s, n, r.Intn(c08PrioDefault+1), r.Intn(c08NoFlagsOption+1), r.Intn(2), calls%3 == 0, calls%4 == 0)
					calls++
				}
			}
			if calls >= c08CallsPerMachine {
				return
			}
		}
	}
}

func c08Exhaustive(ctx *Ctx, mm *c08Machine) {
	k := len(mm.online)
	calls := 0
	for mask := 0; mask < 1<<uint(k); mask++ {
		var s []int
		for i, id := range mm.online {
			if mask&(1<<uint(i)) != 0 {
				s = append(s, id)
			}
		}
		for n := 0; n <= len(s)+1; n++ {
			for prio := 0; prio <= c08PrioDefault; prio++ {
				for flags := 0; flags <= c08NoFlagsOption; flags++ {
					// determinism is re-checked on a deterministic 1/8 (same allocator) and 1/16 (twin) of the calls
					c08Call(ctx, mm, "alloc", s, n, prio, flags, (prio+flags)%2, calls%8 == 0, calls%16 == 0)
					c08Call(ctx, mm, "release", s, n, prio, flags, (prio+flags+1)%2, calls%8 == 4, calls%16 == 8)
					calls++
				}
			}
		}
	}
	ctx.Add("exhaustive_calls", 2*calls)
}

// ------------------------------------------------------------------ one checked call

var c08Prios = []cpuallocator.CPUPriority{cpuallocator.PriorityHigh, cpuallocator.PriorityNormal, cpuallocator.PriorityLow, cpuallocator.PriorityNone}
var c08PrioNames = []string{"high", "normal", "low", "none", "default"}

func c08Options(prio, flags, form int) []cpuallocator.Option {
	var opts []cpuallocator.Option
	// flags first or last must not matter; alternate the order with the form
	var fo cpuallocator.Option
	if flags != c08NoFlagsOption {
		var f cpuallocator.AllocFlag
		if flags&1 != 0 {
			f |= cpuallocator.AllocIdlePackages
		}
		if flags&2 != 0 {
			f |= cpuallocator.AllocIdleClusters
		}
		if flags&4 != 0 {
			f |= cpuallocator.AllocCacheGroups
		}
		if flags&8 != 0 {
			f |= cpuallocator.AllocIdleCores
		}
		if flags == 15 {
			f = cpuallocator.AllocDefault
		}
		fo = cpuallocator.WithAllocFlags(f)
	}
	if fo != nil && form == 1 {
		opts = append(opts, fo)
	}
	if prio != c08PrioDefault {
		if form == 0 {
			opts = append(opts, cpuallocator.WithPriority(c08Prios[prio]))
		} else {
			opts = append(opts, c08Prios[prio].Option())
		}
	}
	if fo != nil && form == 0 {
		opts = append(opts, fo)
	}
	return opts
}

type c08Desc struct {
	name, opt string
	s0        cpuset.CPUSet
	n         int
	mm        *c08Machine
}

func (d c08Desc) String() string {
	return fmt.Sprintf("%s(%s, %d, %s) on %s [%s]", d.name, d.s0, d.n, d.opt, d.mm.m.Name, d.mm.shape)
}

type c08Result struct {
	res, after cpuset.CPUSet
	err        error
	panicMsg   string
	site       string
}

func c08Do(a cpuallocator.CPUAllocator, kind string, s []int, n int, opts []cpuallocator.Option) c08Result {
	var o c08Result
	from := cpuset.New(s...)
	o.panicMsg, o.site = Guard(func() {
		if kind == "alloc" {
			o.res, o.err = a.AllocateCpus(&from, n, opts...)
		} else {
			o.res, o.err = a.ReleaseCpus(&from, n, opts...)
		}
	})
	o.after = from
	return o
}

func (o c08Result) same(p c08Result) bool {
	return (o.err == nil) == (p.err == nil) && o.panicMsg == p.panicMsg && o.res.Equals(p.res) && o.after.Equals(p.after)
}

func c08FlagName(flags int) string {
	if flags == c08NoFlagsOption {
		return "flags=default"
	}
	return fmt.Sprintf("flags=%04b", flags)
}

func c08Call(ctx *Ctx, mm *c08Machine, kind string, s []int, n, prio, flags, form int, again, twin bool) {
	ctx.Eval()
	ctx.Count("calls_" + kind)
	ctx.Count("prio_" + c08PrioNames[prio])
	cs := c08Case{Machine: mm.m, MachineNodes: mm.m.Nodes, MachineNodesPer: mm.m.NodesPer, Kind: kind, S: s, N: n, Prio: prio, Flags: flags, Form: form}
	opts := c08Options(prio, flags, form)
	s0 := cpuset.New(s...)
	o := c08Do(mm.a, kind, s, n, opts)
	name := map[string]string{"alloc": "AllocateCpus", "release": "ReleaseCpus"}[kind]
	opt := "prio=" + c08PrioNames[prio] + "," + c08FlagName(flags)
	desc := c08Desc{name: name, s0: s0, n: n, opt: opt, mm: mm} // formatted only when a clause fails

	if o.panicMsg != "" {
		ctx.Violate("call_panics", name+"@"+o.site, cs, "%s panicked: %s", desc, o.panicMsg)
		return
	}
	switch {
	case n > len(s):
		if o.err != nil {
			ctx.Count("error_expected_and_got")
		} else {
			ctx.Violate(kind+"_too_many_no_error", name+":n>|S|", cs, "%s: no error, result %s, set afterwards %s", desc, o.res, o.after)
		}
		if !o.after.Equals(s0) {
			ctx.Violate(kind+"_too_many_mutates", name+":n>|S|", cs, "%s: set changed to %s", desc, o.after)
		}
	case kind == "alloc":
		sig := fmt.Sprintf("%s:%s,%s,%s", name, mm.class, c08NClass(n, len(s)), c08FlagName(flags))
		if o.err != nil {
			ctx.Violate("alloc_error", sig, cs, "%s failed: %v", desc, o.err)
			break
		}
		if o.res.Size() != n {
			ctx.Violate("alloc_count", sig, cs, "%s returned %d CPUs (%s), set afterwards %s", desc, o.res.Size(), o.res, o.after)
		}
		if !o.res.IsSubsetOf(s0) {
			ctx.Violate("alloc_subset", sig, cs, "%s returned %s, not a subset of the set", desc, o.res)
		}
		if !o.after.Equals(s0.Difference(o.res)) {
			ctx.Violate("alloc_bookkeeping", sig, cs, "%s returned %s but left %s (expected %s)", desc, o.res, o.after, s0.Difference(o.res))
		}
	default: // release, n <= |S|
		sig := fmt.Sprintf("%s:%s,%s,%s", name, mm.class, c08NClass(len(s)-n, len(s)), c08FlagName(flags))
		if o.err != nil {
			ctx.Violate("release_error", sig, cs, "%s failed: %v", desc, o.err)
			break
		}
		if o.after.Size() != n || o.res.Size() != len(s)-n {
			ctx.Violate("release_count", sig, cs, "%s: *from holds %d CPUs (%s), want the %d released; returned %d (%s), want the %d kept",
				desc, o.after.Size(), o.after, n, o.res.Size(), o.res, len(s)-n)
		}
		if !o.res.Intersection(o.after).IsEmpty() || !o.res.Union(o.after).Equals(s0) {
			ctx.Violate("release_partition", sig, cs, "%s: returned %s and *from %s do not partition the set", desc, o.res, o.after)
		}
	}

	if again {
		ctx.Count("determinism_same_allocator_checked")
		if p := c08Do(mm.a, kind, s, n, opts); !o.same(p) {
			ctx.Violate("determinism_same_allocator", name+":"+mm.class, cs, "%s: first (%s, err=%v, left %s), second (%s, err=%v, left %s)",
				desc, o.res, o.err, o.after, p.res, p.err, p.after)
		}
	}
	if twin {
		ctx.Count("determinism_twin_allocator_checked")
		if p := c08Do(mm.b, kind, s, n, opts); !o.same(p) {
			ctx.Violate("determinism_twin_allocator", name+":"+mm.class, cs, "%s: allocator A (%s, err=%v, left %s), allocator B (%s, err=%v, left %s)",
				desc, o.res, o.err, o.after, p.res, p.err, p.after)
		}
	}

	if n > 0 && n < len(s) {
		ctx.Count("calls_nontrivial")
		ctx.See(fmt.Sprintf("%x", hashStr(fmt.Sprintf("%s|%d|%d|%s|%d|%d", mm.shape, len(s), n, kind, prio, flags))))
		if o.err == nil && o.panicMsg == "" {
			// for both kinds the return value is what the multi-stage chooser picked
			c08Observe(ctx, mm, s0, o.res)
		}
		if ctx.Out.Evaluations%977 == 0 {
			ctx.Sample(map[string]interface{}{"machine": mm.shape, "kind": kind, "s": s0.String(), "n": n, "opt": opt, "result": o.res.String(), "after": o.after.String()})
		}
	}
}

func c08NClass(n, size int) string {
	switch {
	case n == 0:
		return "take=0"
	case n == size:
		return "take=all"
	case n == 1:
		return "take=1"
	default:
		return "take=some"
	}
}

// c08Observe counts what kind of choice the chooser made (evidence that the stage interactions were reached).
func c08Observe(ctx *Ctx, mm *c08Machine, s0, taken cpuset.CPUSet) {
	if taken.IsEmpty() {
		return
	}
	split := func(units [][]int) bool {
		for _, u := range units {
			if len(u) < 2 {
				continue
			}
			free := cpuset.New(u...).Intersection(s0)
			got := free.Intersection(taken)
			if !got.IsEmpty() && got.Size() < free.Size() {
				return true
			}
		}
		return false
	}
	if len(mm.l2) < len(mm.cores) && split(mm.l2) {
		ctx.Count("results_splitting_an_l2_group")
	}
	if split(mm.cores) {
		ctx.Count("results_splitting_a_core")
	}
	if len(mm.pkgs) > 1 {
		np := 0
		for _, p := range mm.pkgs {
			if !cpuset.New(p...).Intersection(taken).IsEmpty() {
				np++
			}
		}
		if np > 1 {
			ctx.Count("results_spanning_packages")
		}
	}
}
