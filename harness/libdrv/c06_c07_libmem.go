// C06 / C07 — libmem (pkg/resmgr/lib/memory), the NUMA memory-zone allocator.
//
// One workload drives both properties; `--prop C06` reports only C06 clauses, `--prop C07`
// only C07 clauses (statistics are shared).
//
// N = number of allocator histories. One history = one random node set (2..8 nodes, three
// memory types, movable / memoryless / CPU-less nodes, line/ring/tree/2-socket/flat/random
// distance matrices, optional custom ExpandZone / HandleOvercommit functions) driven through
// 36..56 operations (Allocate, GetOffer, GetOffer+Allocate, GetOffer+Commit, late Commit,
// Realloc, Release, duplicate Allocate) plus a final sweep committing every offer still pooled.
// Only the public API is used. Every request is created with a strictly larger creation time
// stamp than all earlier ones (NewRequest is repeated until Request.Created() advances), so
// the allocator's age tie-break is well defined.
//
// State snapshot σ (public observers only): live ids (ForeachRequest), AssignedZone(id) for every
// id ever used in the history, Request.Zone() of every live request, ZoneUsage(S) for all 2^n S.
//
// C06 clauses (check ids):
//
//	failed-op-unchanged   failed Allocate/Realloc/GetOffer/Commit/Release => σ' = σ
//	getoffer-pure         successful GetOffer => σ' = σ
//	                      plus (sig hidden-state:*): GetOffer(P1), GetOffer(P2), Allocate(P3) on the SAME allocator at
//	                      the same σ with identical fresh requests (same id: an offered request is not live) give the
//	                      same result; a difference shows state that a GetOffer left behind and σ does not show
//	offer-eq-allocate     GetOffer(P1) ≡ Allocate(P) on a TWIN allocator: a second allocator built identically and
//	                      driven through the identical operation prefix (the history is simply re-executed), used only
//	                      if it is in lock-step (same σ with ids replaced by handles), else counted twin_not_in_lockstep
//	commit-eq-offer       Commit of a fresh offer succeeds and returns the advertised NodeMask()/Updates()
//	apply-exact           successful Allocate/Commit: σ' = σ ⊕ returned updates ⊕ own zone (zones, live set,
//	                      Request.Zone, ZoneUsage recomputed from the model)
//	                      => by transitivity commit ≡ allocate without a second allocator
//	stale-commit-refused  an offer is committed late; if an operation that CHANGED σ succeeded since it
//	                      was taken the Commit must fail (and leave σ unchanged). sig names the kind(s)
//	                      of operation that did not invalidate it: stale-commit-after:allocate|realloc|release|commit.
//	                      A successful Realloc that left σ unchanged does not make an offer stale; after
//	                      one, both refusal and success are accepted.
//	release-exact         Release(id) of a live id succeeds, σ' = σ minus id
//
// After a stale commit wrongly succeeds the history is abandoned (the state is corrupt by then).
//
// C07 clauses, after every successful Allocate / Realloc / Commit:
//
//	fit                   for EVERY node subset S: Σ{size(r) : zone(r) ⊆ S} ≤ capacity(S). sig fit:assigned-zone if
//	                      some over-capacity S is itself an assigned zone, else fit:union-of-zones (D7). Reported
//	                      when the op changed the family of over-capacity sets.
//	strict-types          strict request: zone ⊆ nodes whose type is among the requested types (types passed
//	                      at creation plus types added by successful Reallocs); sig suffix :unknown-node when the
//	                      only offending nodes are ids that do not exist in the allocator at all
//	normal-memory         every zone assigned or changed by the op contains a node with normal memory
//	superset-moves        every previously live id is still live and zone' ⊇ zone
//	reservation-moved     priority Reservation (other than a Realloc requester): zone' = zone
//	realloc-removed-nodes Realloc requester: zone' ⊇ zone
//	updates-exact         returned zone = AssignedZone(requester); returned map = {id≠requester: zone changed → zone'}
//
// Witnesses hold the node set and the concrete operation list, shrunk greedily (operations are dropped while the
// same check|sig still fires). --replay re-executes that list (up to 20 times if silent: the allocator iterates maps).
//
// ctx.See rule: C06 — one hash per distinct history that contains ≥1 failed operation and ≥1 late commit
// attempt (machine + all ops + outcomes). C07 — one hash per distinct successful op that moved ≥1 other
// request (machine, id-less multiset of (zone,size,prio,strict) before, op, moves).
package libdrv

import (
	"errors"
	"fmt"
	"sort"
	"strings"

	libmem "github.com/containers/nri-plugins/pkg/resmgr/lib/memory"
	"github.com/containers/nri-plugins/pkg/utils/cpuset"

	"verif/harness/sysgen"
)

func init() {
	Register("C06", runLibmem)
	Register("C07", runLibmem)
}

// ---------------------------------------------------------------- case description

type lmNode struct {
	Type   int   `json:"type"` // 0 DRAM, 1 PMEM, 2 HBM
	Cap    int64 `json:"cap"`
	Normal bool  `json:"normal"`
	CPUs   []int `json:"cpus,omitempty"`
	Dist   []int `json:"dist"`
}

type lmOp struct {
	Kind   string `json:"kind"` // alloc offer offer-alloc offer-commit commit realloc release dup-alloc
	H      int    `json:"h"`    // request handle (new request, or target of realloc/release/dup-alloc; -1 unknown id)
	Ctor   string `json:"ctor,omitempty"`
	Size   int64  `json:"size,omitempty"`
	Aff    uint64 `json:"aff,omitempty"`
	Types  int    `json:"types,omitempty"`
	Strict bool   `json:"strict,omitempty"`
	Prio   int    `json:"prio"` // -1: no priority option
	Offer  int    `json:"offer,omitempty"`
}

type lmCase struct {
	Topo   string   `json:"topo"`
	Custom string   `json:"custom"`
	Nodes  []lmNode `json:"nodes"`
	Ops    []lmOp   `json:"ops"`
}

type lmViol struct {
	prop, check, sig, msg string
	op                    int
}

// ---------------------------------------------------------------- runtime model

type lmReq struct {
	h      int
	id     string
	size   int64
	prio   libmem.Priority
	strict bool
	types  libmem.TypeMask // requested types (0: none stated)
	typed  bool            // strict request created with explicit types: the strict-types clause applies
}

type lmOffer struct {
	o       *libmem.Offer
	req     *lmReq
	changed map[string]bool // kinds of successful σ-changing ops since the offer was taken
	noop    bool            // a successful Realloc that left σ unchanged happened since
	failed  bool            // a failed op happened since
	reset   bool            // a Reset() of an allocator without allocations happened since (documented to invalidate offers, releases nothing)
}

type lmSnap struct {
	live  []string
	zone  map[string]uint64
	rzone map[string]uint64
	usage []int64
}

type lmRun struct {
	ctx      *Ctx
	quiet    bool
	cs       *lmCase
	a        *libmem.Allocator
	n        int
	all      uint64
	mem      uint64
	normal   uint64
	caps     []int64
	typeOf   []libmem.Type
	byH      map[int]*lmReq // every request handle ever built (model data)
	ids      []string
	idSeen   map[string]bool
	live     map[string]*lmReq
	offers   map[int]*lmOffer
	cur      lmSnap
	fitKey   string
	viol     []lmViol
	opIdx    int
	aborted  bool
	twin     bool // this run is the twin of another one (no nested twins)
	twinFull bool
	hOf      map[string]int // id -> handle (ReservedMemory invents ids: runs are compared by handle)
	nFailed  int
	nLate    int
	trace    strings.Builder
	machine  string
}

var lmLastCreated int64

func lmMaskStr(m uint64) string {
	var s []string
	for i := 0; i < 64; i++ {
		if m&(1<<uint(i)) != 0 {
			s = append(s, fmt.Sprint(i))
		}
	}
	return "{" + strings.Join(s, ",") + "}"
}

func lmHash(s string) string {
	return fmt.Sprintf("%016x", hashStr(s))
}

func (r *lmRun) count(k string) {
	if !r.quiet {
		r.ctx.Count(k)
	}
}

func (r *lmRun) violate(prop, check, sig, format string, args ...interface{}) {
	r.viol = append(r.viol, lmViol{prop: prop, check: check, sig: sig, msg: fmt.Sprintf(format, args...), op: r.opIdx})
}

// ---------------------------------------------------------------- custom functions (well-behaved ones only)

func lmCustom(kind string, nodes []lmNode) *libmem.CustomFunctions {
	byType := func(t libmem.TypeMask) libmem.NodeMask {
		var m libmem.NodeMask
		for i, n := range nodes {
			if n.Cap > 0 && t&libmem.Type(n.Type).Mask() != 0 {
				m |= 1 << uint(i)
			}
		}
		return m
	}
	expandWrap := func(zone libmem.NodeMask, types libmem.TypeMask, ca libmem.CustomAllocator) libmem.NodeMask {
		return ca.DefaultExpandZone(zone, types)
	}
	// custom expansion order: the lowest numbered node with memory of one of the types
	expandByID := func(zone libmem.NodeMask, types libmem.TypeMask, ca libmem.CustomAllocator) libmem.NodeMask {
		cand := byType(types) &^ zone
		for i := 0; i < len(nodes); i++ {
			if cand&(1<<uint(i)) != 0 {
				return 1 << uint(i)
			}
		}
		return 0
	}
	// custom expansion order: everything of the types at once
	expandAll := func(zone libmem.NodeMask, types libmem.TypeMask, ca libmem.CustomAllocator) libmem.NodeMask {
		return byType(types) &^ zone
	}
	ocWrap := func(oc map[libmem.NodeMask]int64, ca libmem.CustomAllocator) error {
		return ca.DefaultHandleOvercommit(oc)
	}
	// own resolution: move the cheapest movable request of the first overcommitted zone to the zone
	// expanded by the default expansion (all types; strict requests only by their own types)
	ocOwn := func(oc map[libmem.NodeMask]int64, ca libmem.CustomAllocator) error {
		for iter := 0; iter < 200; iter++ {
			over := ca.CheckOvercommit()
			if len(over) == 0 {
				return nil
			}
			zones := make([]libmem.NodeMask, 0, len(over))
			for z := range over {
				zones = append(zones, z)
			}
			sort.Slice(zones, func(i, j int) bool { return zones[i] < zones[j] })
			moved := false
			for _, z := range zones {
				for _, rq := range ca.GetRequestsForZone(z) {
					if rq.Priority() >= libmem.Reservation {
						continue
					}
					extra := ca.DefaultExpandZone(z, libmem.TypeMaskAll)
					if rq.IsStrict() {
						extra &= byType(rq.Types())
					}
					if extra&^z == 0 {
						continue
					}
					if err := ca.MoveRequest(rq.ID(), z|extra); err != nil {
						return err
					}
					moved = true
					break
				}
				if moved {
					break
				}
			}
			if !moved {
				return fmt.Errorf("%w: custom handler cannot resolve overcommit", libmem.ErrNoMem)
			}
		}
		return fmt.Errorf("%w: custom handler gave up", libmem.ErrNoMem)
	}
	switch kind {
	case "expand-wrap":
		return &libmem.CustomFunctions{ExpandZone: expandWrap}
	case "expand-byid":
		return &libmem.CustomFunctions{ExpandZone: expandByID}
	case "expand-all":
		return &libmem.CustomFunctions{ExpandZone: expandAll}
	case "oc-wrap":
		return &libmem.CustomFunctions{HandleOvercommit: ocWrap}
	case "oc-own":
		return &libmem.CustomFunctions{HandleOvercommit: ocOwn}
	case "byid+oc-own":
		return &libmem.CustomFunctions{ExpandZone: expandByID, HandleOvercommit: ocOwn}
	case "wrap+oc-wrap":
		return &libmem.CustomFunctions{ExpandZone: expandWrap, HandleOvercommit: ocWrap}
	}
	return nil
}

// ---------------------------------------------------------------- set-up and snapshots

func lmNewRun(ctx *Ctx, cs *lmCase, quiet bool) *lmRun {
	r := &lmRun{ctx: ctx, quiet: quiet, cs: cs, n: len(cs.Nodes),
		byH: map[int]*lmReq{}, idSeen: map[string]bool{}, live: map[string]*lmReq{}, offers: map[int]*lmOffer{}, hOf: map[string]int{}}
	var nodes []*libmem.Node
	for i, n := range cs.Nodes {
		node, err := libmem.NewNode(i, libmem.Type(n.Type), n.Cap, n.Normal, cpuset.New(n.CPUs...), n.Dist)
		if err != nil {
			return nil
		}
		nodes = append(nodes, node)
		r.all |= 1 << uint(i)
		r.caps = append(r.caps, n.Cap)
		r.typeOf = append(r.typeOf, libmem.Type(n.Type))
		if n.Cap > 0 {
			r.mem |= 1 << uint(i)
			if n.Normal {
				r.normal |= 1 << uint(i)
			}
		}
	}
	opts := []libmem.AllocatorOption{libmem.WithNodes(nodes)}
	if cf := lmCustom(cs.Custom, cs.Nodes); cf != nil {
		opts = append(opts, libmem.WithCustomFunctions(cf))
	}
	var err error
	if p, _ := Guard(func() { r.a, err = libmem.NewAllocator(opts...) }); p != "" || err != nil || r.a == nil {
		return nil
	}
	r.machine = fmt.Sprint(cs.Topo, cs.Custom, cs.Nodes)
	r.cur = r.snap()
	return r
}

func (r *lmRun) noteID(id string) {
	if !r.idSeen[id] {
		r.idSeen[id] = true
		r.ids = append(r.ids, id)
	}
}

func (r *lmRun) snap() lmSnap {
	s := lmSnap{zone: map[string]uint64{}, rzone: map[string]uint64{}}
	r.a.ForeachRequest(nil, func(q *libmem.Request) bool {
		s.live = append(s.live, q.ID())
		s.rzone[q.ID()] = uint64(q.Zone())
		r.noteID(q.ID())
		return true
	})
	sort.Strings(s.live)
	for _, id := range r.ids {
		if z, ok := r.a.AssignedZone(id); ok {
			s.zone[id] = uint64(z)
		}
	}
	if r.twin && !r.twinFull {
		return s // the prefix replay of a twin needs no usage vector
	}
	s.usage = make([]int64, 1<<uint(r.n))
	for S := range s.usage {
		s.usage[S] = r.a.ZoneUsage(libmem.NodeMask(S))
	}
	return s
}

// canon renders a snapshot with ids replaced by request handles.
func (r *lmRun) canon(s lmSnap) string {
	var l []string
	for id, z := range s.zone {
		l = append(l, fmt.Sprintf("h%d=%x", r.hOf[id], z))
	}
	sort.Strings(l)
	return fmt.Sprint(l, s.usage)
}

func (r *lmRun) canonUpd(u map[string]libmem.NodeMask) string {
	var l []string
	for id, z := range u {
		l = append(l, fmt.Sprintf("h%d=%x", r.hOf[id], uint64(z)))
	}
	sort.Strings(l)
	return fmt.Sprint(l)
}

func lmZonesStr(z map[string]uint64) string {
	ids := make([]string, 0, len(z))
	for id := range z {
		ids = append(ids, id)
	}
	sort.Strings(ids)
	var b strings.Builder
	for _, id := range ids {
		fmt.Fprintf(&b, "%s=%s ", id, lmMaskStr(z[id]))
	}
	return strings.TrimSpace(b.String())
}

// lmDiff returns ("", "") when the snapshots are equal, else (class, detail).
func lmDiff(a, b lmSnap) (string, string) {
	if strings.Join(a.live, ",") != strings.Join(b.live, ",") {
		return "live-set", fmt.Sprintf("live ids %v -> %v", a.live, b.live)
	}
	if len(a.zone) != len(b.zone) {
		return "zones", fmt.Sprintf("assigned zones [%s] -> [%s]", lmZonesStr(a.zone), lmZonesStr(b.zone))
	}
	for id, z := range a.zone {
		if z2, ok := b.zone[id]; !ok || z2 != z {
			return "zones", fmt.Sprintf("assigned zones [%s] -> [%s]", lmZonesStr(a.zone), lmZonesStr(b.zone))
		}
	}
	for id, z := range a.rzone {
		if b.rzone[id] != z {
			return "request-zone", fmt.Sprintf("Request.Zone() of %s %s -> %s", id, lmMaskStr(z), lmMaskStr(b.rzone[id]))
		}
	}
	for S := range a.usage {
		if S < len(b.usage) && a.usage[S] != b.usage[S] {
			return "usage", fmt.Sprintf("ZoneUsage(%s) %d -> %d", lmMaskStr(uint64(S)), a.usage[S], b.usage[S])
		}
	}
	return "", ""
}

func (r *lmRun) size(id string) int64 {
	if q, ok := r.live[id]; ok {
		return q.size
	}
	return 0
}

// expectState compares the snapshot `after` with the expected assignment E (C06 σ' = σ ⊕ ...).
func (r *lmRun) expectState(E map[string]uint64, after lmSnap) (string, string) {
	if len(E) != len(after.zone) {
		return "zones", fmt.Sprintf("expected zones [%s], got [%s]", lmZonesStr(E), lmZonesStr(after.zone))
	}
	for id, z := range E {
		if z2, ok := after.zone[id]; !ok || z2 != z {
			return "zones", fmt.Sprintf("expected zones [%s], got [%s]", lmZonesStr(E), lmZonesStr(after.zone))
		}
	}
	if len(after.live) != len(E) {
		return "live-set", fmt.Sprintf("ForeachRequest yields %v, assigned [%s]", after.live, lmZonesStr(E))
	}
	for _, id := range after.live {
		if _, ok := E[id]; !ok {
			return "live-set", fmt.Sprintf("ForeachRequest yields %v, assigned [%s]", after.live, lmZonesStr(E))
		}
		if after.rzone[id] != E[id] {
			return "request-zone", fmt.Sprintf("Request.Zone() of %s is %s, expected %s", id, lmMaskStr(after.rzone[id]), lmMaskStr(E[id]))
		}
	}
	for S := range after.usage {
		var want int64
		skip := false
		for id, z := range E {
			if z&^uint64(S) == 0 {
				if z&^r.mem != 0 {
					skip = true // ZoneUsage masks S by the nodes with memory: such zones are not observable through S
					break
				}
				want += r.size(id)
			}
		}
		if !skip && want != after.usage[S] {
			return "usage", fmt.Sprintf("ZoneUsage(%s) = %d, expected %d from zones [%s]", lmMaskStr(uint64(S)), after.usage[S], want, lmZonesStr(E))
		}
	}
	return "", ""
}

// fitState evaluates the Hall-type fit condition over every subset of the node universe.
// It returns a key describing the family of over-capacity sets ("" if none), the sig and a message.
func (r *lmRun) fitState(zones map[string]uint64) (key, sig, msg string) {
	universe := r.all
	for _, z := range zones {
		universe |= z
	}
	var bits []uint
	for i := uint(0); i < 64; i++ {
		if universe&(1<<i) != 0 {
			bits = append(bits, i)
		}
	}
	if len(bits) > 16 {
		bits = bits[:16]
	}
	compress := func(m uint64) (int, bool) {
		c := 0
		for k, b := range bits {
			if m&(1<<b) != 0 {
				c |= 1 << uint(k)
				m &^= 1 << b
			}
		}
		return c, m == 0
	}
	nb := len(bits)
	use := make([]int64, 1<<uint(nb))
	assigned := map[int]bool{}
	for id, z := range zones {
		if c, ok := compress(z); ok {
			use[c] += r.size(id)
			assigned[c] = true
		}
	}
	for k := 0; k < nb; k++ { // subset-sum (zeta) transform
		for S := range use {
			if S&(1<<uint(k)) != 0 {
				use[S] += use[S&^(1<<uint(k))]
			}
		}
	}
	var kb strings.Builder
	best, bestPop := -1, 99
	bestAssigned := -1
	for S := range use {
		var c int64
		pop := 0
		for k, b := range bits {
			if S&(1<<uint(k)) != 0 {
				pop++
				if int(b) < r.n {
					c += r.caps[b]
				}
			}
		}
		if use[S] > c {
			fmt.Fprintf(&kb, "%x:%d;", S, use[S]-c)
			if pop < bestPop {
				best, bestPop = S, pop
			}
			if assigned[S] && bestAssigned < 0 {
				bestAssigned = S
			}
		}
	}
	if best < 0 {
		return "", "", ""
	}
	show := best
	sig = "fit:union-of-zones"
	if bestAssigned >= 0 {
		sig = "fit:assigned-zone"
		show = bestAssigned
	}
	var full uint64
	var c int64
	for k, b := range bits {
		if show&(1<<uint(k)) != 0 {
			full |= 1 << b
			if int(b) < r.n {
				c += r.caps[b]
			}
		}
	}
	var inside []string
	ids := make([]string, 0, len(zones))
	for id := range zones {
		ids = append(ids, id)
	}
	sort.Strings(ids)
	for _, id := range ids {
		if zones[id]&^full == 0 {
			inside = append(inside, fmt.Sprintf("%s:%d@%s", id, r.size(id), lmMaskStr(zones[id])))
		}
	}
	msg = fmt.Sprintf("node set %s holds %d > capacity %d; allocations confined to it: %s", lmMaskStr(full), use[show], c, strings.Join(inside, " "))
	return kb.String(), sig, msg
}

// ---------------------------------------------------------------- request construction

func lmQos(p int) string {
	switch libmem.Priority(p) {
	case libmem.BestEffort:
		return "BestEffort"
	case libmem.Burstable:
		return "Burstable"
	}
	return "Guaranteed"
}

func (r *lmRun) build(op *lmOp) (*libmem.Request, *lmReq) {
	id := fmt.Sprintf("r%d", op.H)
	if op.Kind == "dup-alloc" { // a new request re-using the id of the request with handle H
		if m, ok := r.byH[op.H]; ok {
			id = m.id
		}
	}
	name := "n" + id
	aff := libmem.NodeMask(op.Aff)
	types := libmem.TypeMask(op.Types)
	mk := func() *libmem.Request {
		switch op.Ctor {
		case "container":
			return libmem.Container(id, name, lmQos(op.Prio), op.Size, aff)
		case "ctypes":
			return libmem.ContainerWithTypes(id, name, lmQos(op.Prio), op.Size, aff, types)
		case "cstrict":
			return libmem.ContainerWithStrictTypes(id, name, lmQos(op.Prio), op.Size, aff, types)
		case "preserved":
			return libmem.PreservedContainer(id, name, op.Size, aff)
		case "reserved":
			var o []libmem.RequestOption
			if op.Strict {
				o = append(o, libmem.WithStrictTypes(types))
			} else if types != 0 {
				o = append(o, libmem.WithPreferredTypes(types))
			}
			return libmem.ReservedMemory(op.Size, aff, o...)
		}
		o := []libmem.RequestOption{libmem.WithName(name)}
		if op.Prio >= 0 {
			o = append(o, libmem.WithPriority(libmem.Priority(op.Prio)))
		}
		if op.Strict {
			o = append(o, libmem.WithStrictTypes(types))
		} else if types != 0 {
			o = append(o, libmem.WithPreferredTypes(types))
		}
		return libmem.NewRequest(id, op.Size, aff, o...)
	}
	var q *libmem.Request
	for {
		q = mk()
		if q.Created() > lmLastCreated {
			lmLastCreated = q.Created()
			break
		}
	}
	m := &lmReq{h: op.H, id: q.ID(), size: q.Size(), prio: q.Priority(), strict: q.IsStrict(), types: q.Types()}
	m.typed = m.strict && m.types != 0
	r.noteID(m.id)
	if _, ok := r.hOf[m.id]; !ok {
		r.hOf[m.id] = op.H
	}
	if op.Kind != "dup-alloc" {
		r.byH[op.H] = m
	}
	return q, m
}

func lmUpdStr(u map[string]libmem.NodeMask) string {
	z := map[string]uint64{}
	for id, m := range u {
		z[id] = uint64(m)
	}
	return "[" + lmZonesStr(z) + "]"
}

func lmUpdEq(a, b map[string]libmem.NodeMask) bool {
	if len(a) != len(b) {
		return false
	}
	for id, z := range a {
		if z2, ok := b[id]; !ok || z2 != z {
			return false
		}
	}
	return true
}

func (r *lmRun) reqStr(q *lmReq, op *lmOp) string {
	s := fmt.Sprintf("%s(size %d, affinity %s, prio %d", q.id, q.size, lmMaskStr(op.Aff), q.prio)
	if q.strict {
		s += fmt.Sprintf(", strict types %s", q.types)
	} else if q.types != 0 {
		s += fmt.Sprintf(", preferred types %s", q.types)
	}
	return s + ")"
}

// ---------------------------------------------------------------- bookkeeping around calls

func lmErrClass(err error) string {
	for _, c := range []struct {
		e error
		n string
	}{{libmem.ErrNoMem, "nomem"}, {libmem.ErrAlreadyExists, "exists"}, {libmem.ErrInvalidNode, "badnode"}, {libmem.ErrInvalidNodeMask, "noaffinity"},
		{libmem.ErrInvalidType, "badtype"}, {libmem.ErrExpiredOffer, "expired"}, {libmem.ErrUnknownRequest, "unknownid"}, {libmem.ErrInternalError, "internal"}} {
		if errors.Is(err, c.e) {
			return c.n
		}
	}
	return "other"
}

func (r *lmRun) opFailed(kind string, before, after lmSnap, what string) {
	r.nFailed++
	r.count("failed_ops")
	r.count("ops_" + kind + "_fail")
	for _, o := range r.offers {
		o.failed = true
	}
	if cls, det := lmDiff(before, after); cls != "" {
		r.violate("C06", "failed-op-unchanged", kind+":"+cls, "failed %s changed the state: %s", what, det)
	}
}

func (r *lmRun) noteChanged(kind string) {
	for _, o := range r.offers {
		o.changed[kind] = true
	}
}

// checkSuccess applies the C06 apply-exact clause (Allocate/Commit) and all C07 clauses.
func (r *lmRun) checkSuccess(kind string, q *lmReq, what string, before, after lmSnap, retZone libmem.NodeMask, retUpd map[string]libmem.NodeMask) {
	isRealloc := kind == "realloc"
	if !isRealloc {
		r.live[q.id] = q
	}
	if r.twin {
		return // a twin only has to reproduce the state
	}
	// --- C06: σ' = σ ⊕ updates ⊕ own zone
	if !isRealloc {
		E := map[string]uint64{}
		for id, z := range before.zone {
			E[id] = z
		}
		for id, z := range retUpd {
			E[id] = uint64(z)
		}
		E[q.id] = uint64(retZone)
		if cls, det := r.expectState(E, after); cls != "" {
			r.violate("C06", "apply-exact", kind+":"+cls, "%s returned zone %s updates %s but the resulting state is not σ ⊕ returned: %s",
				what, lmMaskStr(uint64(retZone)), lmUpdStr(retUpd), det)
		}
	}
	// --- C07
	// updates-exact
	if z, ok := after.zone[q.id]; !ok || z != uint64(retZone) {
		r.violate("C07", "updates-exact", kind+":returned-zone", "%s returned zone %s but AssignedZone is %s (found %v)", what, lmMaskStr(uint64(retZone)), lmMaskStr(z), ok)
	}
	moved := map[string]uint64{}
	var movedIDs []string
	for id, z := range before.zone {
		z2, ok := after.zone[id]
		if !ok {
			r.violate("C07", "superset-moves", kind+":request-vanished", "%s made allocation %s (zone %s) disappear", what, id, lmMaskStr(z))
			continue
		}
		if z2 != z {
			if id != q.id {
				moved[id] = z2
				movedIDs = append(movedIDs, id)
			}
			if z&^z2 != 0 {
				if id == q.id {
					r.violate("C07", "realloc-removed-nodes", kind, "%s moved the allocation from %s to %s", what, lmMaskStr(z), lmMaskStr(z2))
				} else {
					r.violate("C07", "superset-moves", kind+":not-superset", "%s moved %s from %s to %s which is not a superset", what, id, lmMaskStr(z), lmMaskStr(z2))
				}
			}
			if m, ok := r.live[id]; ok && id != q.id && m.prio >= libmem.Reservation {
				r.violate("C07", "reservation-moved", kind, "%s moved memory reservation %s from %s to %s", what, id, lmMaskStr(z), lmMaskStr(z2))
			}
		}
	}
	sort.Strings(movedIDs)
	for id := range after.zone {
		if _, ok := before.zone[id]; !ok && id != q.id {
			r.violate("C07", "updates-exact", kind+":unexpected-new-allocation", "%s made %s appear", what, id)
		}
	}
	for id, z := range moved {
		if z2, ok := retUpd[id]; !ok {
			r.violate("C07", "updates-exact", kind+":missing", "%s moved %s to %s but the returned updates %s do not mention it", what, id, lmMaskStr(z), lmUpdStr(retUpd))
		} else if uint64(z2) != z {
			r.violate("C07", "updates-exact", kind+":wrong-zone", "%s moved %s to %s but the returned updates say %s", what, id, lmMaskStr(z), lmMaskStr(uint64(z2)))
		}
	}
	for id, z := range retUpd {
		if _, ok := moved[id]; !ok {
			r.violate("C07", "updates-exact", kind+":extra", "%s returned update %s->%s but that assignment did not change (before %s, after %s; requester %s)",
				what, id, lmMaskStr(uint64(z)), lmMaskStr(before.zone[id]), lmMaskStr(after.zone[id]), q.id)
		}
	}
	// strict types, normal memory for the requester and every moved allocation
	check := append([]string{q.id}, movedIDs...)
	for i, id := range check {
		z, ok := after.zone[id]
		if !ok {
			continue
		}
		who := "requester"
		if i > 0 {
			who = "moved"
		}
		if i == 0 && isRealloc && z == before.zone[id] {
			continue
		}
		if z&r.normal == 0 {
			r.violate("C07", "normal-memory", kind+":"+who, "%s: zone %s of %s has no node with normal memory (normal nodes %s)", what, lmMaskStr(z), id, lmMaskStr(r.normal))
		}
		if z&^r.all != 0 {
			r.count("zones_with_unknown_nodes")
		}
		if m, ok := r.live[id]; ok && m.typed {
			var allowed uint64
			for n := 0; n < r.n; n++ {
				if m.types&r.typeOf[n].Mask() != 0 {
					allowed |= 1 << uint(n)
				}
			}
			if z&^allowed != 0 {
				if z&^allowed&r.all == 0 {
					who += ":unknown-node" // the only offending nodes do not exist at all
				}
				r.violate("C07", "strict-types", kind+":"+who, "%s: strict request %s (types %s) is assigned %s; nodes of these types are %s", what, id, m.types, lmMaskStr(z), lmMaskStr(allowed))
			}
		}
	}
	// fit
	key, sig, msg := r.fitState(after.zone)
	if key != "" {
		r.count("fit_violating_states")
		if key != r.fitKey {
			r.violate("C07", "fit", sig, "after %s: %s", what, msg)
		}
	}
	r.fitKey = key
	// evidence
	if len(movedIDs) > 0 {
		r.count("ops_that_moved_others")
		if !r.quiet && r.ctx.Prop == "C07" {
			var st []string
			for id, z := range before.zone {
				if m, ok := r.live[id]; ok {
					st = append(st, fmt.Sprintf("%x/%d/%d/%v", z, m.size, m.prio, m.strict))
				}
			}
			sort.Strings(st)
			var mv []string
			for _, id := range movedIDs {
				mv = append(mv, fmt.Sprintf("%x>%x/%d", before.zone[id], after.zone[id], r.size(id)))
			}
			sort.Strings(mv)
			r.ctx.See(lmHash(fmt.Sprint(r.machine, st, kind, q.size, q.prio, q.strict, q.types, retZone, mv)))
		}
	}
}

// ---------------------------------------------------------------- operations

func (r *lmRun) doAllocate(op *lmOp, kind string) (ok bool, zone libmem.NodeMask, upd map[string]libmem.NodeMask) {
	req, q := r.build(op)
	what := "Allocate " + r.reqStr(q, op)
	before := r.cur
	var err error
	p, site := Guard(func() { zone, upd, err = r.a.Allocate(req) })
	after := r.snap()
	r.cur = after
	if !r.quiet {
		r.ctx.Eval()
	}
	if p != "" {
		r.aborted = true
		r.opFailed("allocate", before, after, what+" (panic "+p+" at "+site+")")
		fmt.Fprintf(&r.trace, "A%d!p;", op.H)
		return false, 0, nil
	}
	if err != nil {
		r.count("fail_allocate_" + lmErrClass(err))
		r.opFailed("allocate", before, after, fmt.Sprintf("%s (%v)", what, err))
		fmt.Fprintf(&r.trace, "A%d!;", op.H)
		return false, 0, nil
	}
	if kind == "dup-alloc" {
		r.count("dup_alloc_succeeded")
		r.aborted = true
		return true, zone, upd
	}
	r.count("ops_allocate_ok")
	r.checkSuccess("allocate", q, what, before, after, zone, upd)
	r.noteChanged("allocate")
	fmt.Fprintf(&r.trace, "A%d=%x%s;", op.H, zone, lmUpdStr(upd))
	return true, zone, upd
}

func (r *lmRun) doGetOffer(op *lmOp) (*lmOffer, bool) {
	req, q := r.build(op)
	what := "GetOffer " + r.reqStr(q, op)
	before := r.cur
	var (
		o   *libmem.Offer
		err error
	)
	nz := len(r.a.SortZones(nil))
	p, site := Guard(func() { o, err = r.a.GetOffer(req) })
	if !r.twin && len(r.a.SortZones(nil)) > nz {
		// evidence only (not an oracle): GetOffer left zone objects without users behind; they take part in
		// later overcommit checks, which is what the hidden-state:* signatures observe behaviourally
		r.count("getoffer_left_empty_zones")
	}
	after := r.snap()
	r.cur = after
	if !r.quiet {
		r.ctx.Eval()
	}
	if p != "" {
		r.aborted = true
		r.opFailed("getoffer", before, after, what+" (panic "+p+" at "+site+")")
		return nil, false
	}
	if err != nil || o == nil {
		r.opFailed("getoffer", before, after, fmt.Sprintf("%s (%v)", what, err))
		fmt.Fprintf(&r.trace, "O%d!;", op.H)
		return nil, false
	}
	r.count("ops_getoffer_ok")
	r.count("offers_taken")
	if cls, det := lmDiff(before, after); cls != "" {
		r.violate("C06", "getoffer-pure", "getoffer:"+cls, "successful %s changed the state: %s", what, det)
	}
	fmt.Fprintf(&r.trace, "O%d=%x%s;", op.H, o.NodeMask(), lmUpdStr(o.Updates()))
	return &lmOffer{o: o, req: q, changed: map[string]bool{}}, true
}

// doCommit commits an offer. late: the offer comes from the pool.
func (r *lmRun) doCommit(of *lmOffer, late bool) {
	q := of.req
	advZone, advUpd := of.o.NodeMask(), of.o.Updates()
	stale := len(of.changed) > 0
	what := fmt.Sprintf("Commit of offer for %s (size %d, prio %d; advertised zone %s updates %s)", q.id, q.size, q.prio, lmMaskStr(uint64(advZone)), lmUpdStr(advUpd))
	before := r.cur
	var (
		zone libmem.NodeMask
		upd  map[string]libmem.NodeMask
		err  error
	)
	p, site := Guard(func() { zone, upd, err = of.o.Commit() })
	after := r.snap()
	r.cur = after
	if !r.quiet {
		r.ctx.Eval()
	}
	if late {
		r.nLate++
		r.count("late_commits_attempted")
	}
	if stale {
		r.count("stale_commits_attempted")
	}
	if p != "" {
		r.aborted = true
		r.opFailed("commit", before, after, what+" (panic "+p+" at "+site+")")
		return
	}
	if err != nil {
		kind := "commit-fresh"
		if stale {
			kind = "commit-stale"
			r.count("stale_commits_refused")
		}
		r.opFailed(kind, before, after, fmt.Sprintf("%s (%v)", what, err))
		fmt.Fprintf(&r.trace, "C%d!;", q.h)
		if !stale && !of.noop && !of.reset {
			sig := "fresh-commit-refused"
			if of.failed {
				sig += ":after-failed-op"
			}
			r.violate("C06", "commit-eq-offer", sig, "%s was refused although no operation changed the allocator since the offer was taken: %v", what, err)
		}
		return
	}
	fmt.Fprintf(&r.trace, "C%d=%x;", q.h, zone)
	if stale {
		var kinds []string
		for k := range of.changed {
			kinds = append(kinds, k)
		}
		sort.Strings(kinds)
		for _, k := range kinds {
			r.violate("C06", "stale-commit-refused", "stale-commit-after:"+k,
				"%s succeeded although a successful %s (intervening state-changing operations: %s) happened after the offer was taken; state now [%s]",
				what, k, strings.Join(kinds, "+"), lmZonesStr(after.zone))
		}
		r.count("stale_commits_succeeded")
		r.aborted = true // the state is corrupt from here on
		return
	}
	r.count("ops_commit_ok")
	r.count("offers_committed_fresh")
	if zone != advZone || !lmUpdEq(upd, advUpd) {
		r.violate("C06", "commit-eq-offer", "returned-differs", "%s returned zone %s updates %s", what, lmMaskStr(uint64(zone)), lmUpdStr(upd))
	}
	r.checkSuccess("commit", q, what, before, after, zone, upd)
	r.noteChanged("commit")
}

func (r *lmRun) doRealloc(op *lmOp) {
	id := "unknown-id"
	var q *lmReq
	if m, ok := r.byH[op.H]; ok {
		id, q = m.id, m
	}
	what := fmt.Sprintf("Realloc(%s, affinity %s, types %s)", id, lmMaskStr(op.Aff), libmem.TypeMask(op.Types))
	before := r.cur
	var (
		zone libmem.NodeMask
		upd  map[string]libmem.NodeMask
		err  error
	)
	p, site := Guard(func() { zone, upd, err = r.a.Realloc(id, libmem.NodeMask(op.Aff), libmem.TypeMask(op.Types)) })
	after := r.snap()
	r.cur = after
	if !r.quiet {
		r.ctx.Eval()
	}
	if p != "" {
		r.aborted = true
		r.opFailed("realloc", before, after, what+" (panic "+p+" at "+site+")")
		return
	}
	if err != nil {
		r.count("fail_realloc_" + lmErrClass(err))
		r.opFailed("realloc", before, after, fmt.Sprintf("%s (%v)", what, err))
		fmt.Fprintf(&r.trace, "R%d!;", op.H)
		return
	}
	r.count("ops_realloc_ok")
	fmt.Fprintf(&r.trace, "R%d=%x%s;", op.H, zone, lmUpdStr(upd))
	lq, isLive := r.live[id]
	if q == nil || !isLive {
		// success for an id that is not live: nothing the properties say, but the state must not change
		r.count("realloc_ok_for_dead_id")
		if cls, det := lmDiff(before, after); cls != "" {
			r.violate("C06", "failed-op-unchanged", "realloc-dead-id:"+cls, "%s of a non-live id changed the state: %s", what, det)
		}
		return
	}
	// the request now also asks for the added types
	if op.Types != 0 {
		lq.types |= libmem.TypeMask(op.Types)
	} else if lq.typed {
		for n := 0; n < r.n; n++ {
			if op.Aff&(1<<uint(n)) != 0 {
				lq.types |= r.typeOf[n].Mask()
			}
		}
	}
	r.checkSuccess("realloc", lq, what, before, after, zone, upd)
	if cls, _ := lmDiff(before, after); cls != "" {
		r.count("reallocs_changed")
		r.noteChanged("realloc")
	} else {
		r.count("reallocs_noop")
		for _, o := range r.offers {
			o.noop = true
		}
	}
}

func (r *lmRun) doRelease(op *lmOp) {
	id := "unknown-id"
	if m, ok := r.byH[op.H]; ok {
		id = m.id
	}
	what := "Release(" + id + ")"
	before := r.cur
	var err error
	p, site := Guard(func() { err = r.a.Release(id) })
	after := r.snap()
	r.cur = after
	if !r.quiet {
		r.ctx.Eval()
	}
	_, wasLive := before.zone[id]
	if p != "" {
		r.aborted = true
		r.opFailed("release", before, after, what+" (panic "+p+" at "+site+")")
		return
	}
	if err != nil {
		r.opFailed("release", before, after, fmt.Sprintf("%s (%v)", what, err))
		fmt.Fprintf(&r.trace, "X%d!;", op.H)
		if wasLive {
			r.violate("C06", "release-exact", "release:failed-for-live-id", "%s of a live allocation failed: %v", what, err)
		}
		return
	}
	r.count("ops_release_ok")
	fmt.Fprintf(&r.trace, "X%d;", op.H)
	E := map[string]uint64{}
	for k, z := range before.zone {
		if k != id {
			E[k] = z
		}
	}
	delete(r.live, id)
	if r.twin {
		return
	}
	if cls, det := r.expectState(E, after); cls != "" {
		r.violate("C06", "release-exact", "release:"+cls, "%s did not leave exactly the other allocations: %s", what, det)
	}
	if wasLive {
		r.count("releases")
		r.noteChanged("release")
	}
	r.fitKey, _, _ = r.fitState(after.zone)
}

// doReset: Allocator.Reset() "resets the state of the allocator, releasing all allocations and invalidating all
// offers". With allocations present it is a successful release of all of them (offers taken before it are stale from
// then on, whatever happens later); the state afterwards must be the pristine one.
func (r *lmRun) doReset() {
	before := r.cur
	p, site := Guard(func() { r.a.Reset() })
	after := r.snap()
	r.cur = after
	if !r.quiet {
		r.ctx.Eval()
	}
	if p != "" {
		r.aborted = true
		r.opFailed("reset", before, after, "Reset() (panic "+p+" at "+site+")")
		return
	}
	r.count("ops_reset")
	fmt.Fprintf(&r.trace, "Z;")
	r.live = map[string]*lmReq{}
	if r.twin {
		return
	}
	if cls, det := r.expectState(map[string]uint64{}, after); cls != "" {
		r.violate("C06", "release-exact", "reset:"+cls, "Reset() did not release every allocation: %s", det)
	}
	if len(before.zone) > 0 {
		r.count("resets_with_allocations")
		r.noteChanged("reset")
	} else {
		for _, o := range r.offers {
			o.reset = true
		}
	}
	if len(r.offers) > 0 {
		r.count("resets_with_offers_outstanding")
	}
	r.fitKey, _, _ = r.fitState(after.zone)
}

// sampleSameState asks 24 FRESH allocators, each driven through the operations before idx, for ONE offer for the
// identical request (one call per allocator: whatever a GetOffer may leave behind cannot influence the sample). More
// than one distinct answer at one and the same state = ":nondeterministic-at-same-state".
func (r *lmRun) sampleSameState(idx int, op *lmOp, canonBefore string) string {
	answers := map[string]bool{}
	n := 0
	for k := 0; k < 24; k++ {
		t := lmNewRun(r.ctx, r.cs, true)
		if t == nil {
			return ""
		}
		t.twin = true
		for i := 0; i < idx && !t.aborted; i++ {
			t.exec(i, &r.cs.Ops[i])
		}
		if t.aborted {
			continue
		}
		t.twinFull = true
		t.cur = t.snap()
		if t.canon(t.cur) != canonBefore {
			continue
		}
		t.opIdx = idx
		o, ok := t.doGetOffer(op)
		if t.aborted {
			continue
		}
		n++
		if !ok {
			answers["failure"] = true
			continue
		}
		answers[fmt.Sprintf("%x|%s", uint64(o.o.NodeMask()), t.canonUpd(o.o.Updates()))] = true
	}
	r.count("divergences_sampled_at_same_state")
	if n >= 8 && len(answers) > 1 {
		r.count("divergences_nondeterministic_at_same_state")
		return ":nondeterministic-at-same-state"
	}
	return ""
}

func (r *lmRun) exec(idx int, op *lmOp) {
	r.opIdx = idx
	switch op.Kind {
	case "reset":
		r.doReset()
	case "alloc":
		r.doAllocate(op, "alloc")
	case "dup-alloc":
		// a new request that re-uses the id of handle H
		r.doAllocate(op, "dup-alloc")
	case "offer":
		if of, ok := r.doGetOffer(op); ok {
			r.offers[op.H] = of
		}
	case "offer-commit":
		if of, ok := r.doGetOffer(op); ok && !r.aborted {
			r.doCommit(of, false)
		}
	case "offer-alloc":
		zonesBefore := lmZonesStr(r.cur.zone)
		canonBefore := ""
		if !r.twin {
			canonBefore = r.canon(r.cur)
		}
		o1, ok1 := r.doGetOffer(op)
		if r.aborted {
			return
		}
		var z1 libmem.NodeMask
		var u1 map[string]libmem.NodeMask
		if ok1 {
			z1, u1 = o1.o.NodeMask(), o1.o.Updates()
		}
		o2, ok2 := r.doGetOffer(op)
		if r.aborted {
			return
		}
		ok3, zone, upd := r.doAllocate(op, "alloc")
		if r.aborted {
			return
		}
		r.count("offer_alloc_compared")
		desc := func(ok bool, z libmem.NodeMask, u map[string]libmem.NodeMask) string {
			if !ok {
				return "failure"
			}
			return fmt.Sprintf("zone %s updates %s", lmMaskStr(uint64(z)), lmUpdStr(u))
		}
		d1, d2 := desc(ok1, z1, u1), "failure"
		if ok2 {
			d2 = desc(true, o2.o.NodeMask(), o2.o.Updates())
		}
		rq := r.reqStr(r.byH[op.H], op)
		// (a) same allocator, same observable σ: offer, offer, allocate. A difference means that a GetOffer
		// left something behind that changes later results (or that the allocator is not deterministic).
		same12 := ok1 == ok2 && (!ok1 || (z1 == o2.o.NodeMask() && lmUpdEq(u1, o2.o.Updates())))
		same23 := ok2 == ok3 && (!ok2 || (o2.o.NodeMask() == zone && lmUpdEq(o2.o.Updates(), upd)))
		// A divergence is classified before it is reported: if 24 fresh, identically driven allocators asked once each
		// for an offer for the identical request at this very state do not all give the same answer, the allocator itself is not
		// a function of (state, request) here (map iteration order inside overcommit resolution) - that is a different
		// defect from a GetOffer that leaves something behind or an offer path that differs from the allocation path.
		nd := ""
		if !r.twin && (!same12 || !same23) {
			nd = r.sampleSameState(idx, op, canonBefore)
		}
		if !same12 {
			r.violate("C06", "getoffer-pure", "hidden-state:offer-then-offer"+nd, "two consecutive GetOffer calls for identical requests %s at the same state σ=[%s] differ: %s, then %s (then Allocate: %s)",
				rq, zonesBefore, d1, d2, desc(ok3, zone, upd))
		}
		if !same23 {
			r.violate("C06", "getoffer-pure", "hidden-state:offer-then-allocate"+nd, "GetOffer for %s at σ=[%s] gives %s (previous identical offer: %s) but Allocate of an identical request right after it gives %s",
				rq, zonesBefore, d2, d1, desc(ok3, zone, upd))
		}
		// (b) twin: a second allocator driven through the identical operations up to here, then Allocate
		// directly (no offer taken). Only used if the twin is in lock-step (same canonical σ).
		if r.twin {
			return
		}
		t := lmNewRun(r.ctx, r.cs, true)
		if t == nil {
			return
		}
		t.twin = true
		for i := 0; i < idx && !t.aborted; i++ {
			t.exec(i, &r.cs.Ops[i])
		}
		if t.aborted {
			r.count("twin_aborted")
			return
		}
		t.twinFull = true
		t.cur = t.snap()
		if t.canon(t.cur) != canonBefore {
			r.count("twin_not_in_lockstep")
			return
		}
		t.opIdx = idx
		okT, zT, uT := t.doAllocate(op, "alloc")
		r.count("twin_compared")
		if !r.quiet {
			r.ctx.Eval()
		}
		sameT := ok1 == okT && (!ok1 || (z1 == zT && r.canonUpd(u1) == t.canonUpd(uT)))
		if !sameT {
			if nd == "" {
				nd = r.sampleSameState(idx, op, canonBefore)
			}
			r.violate("C06", "offer-eq-allocate", "offer-vs-direct-allocate"+nd, "GetOffer for %s at σ=[%s] gives %s, but Allocate of the identical request on an identically driven twin allocator (same σ) gives %s",
				rq, zonesBefore, d1, desc(okT, zT, uT))
		}
	case "commit":
		of, ok := r.offers[op.Offer]
		if !ok {
			return
		}
		delete(r.offers, op.Offer)
		r.doCommit(of, true)
	case "realloc":
		r.doRealloc(op)
	case "release":
		r.doRelease(op)
	}
}

func (r *lmRun) finish() {
	if r.quiet {
		return
	}
	r.count("histories")
	if r.aborted {
		r.count("histories_aborted")
	}
	if r.nFailed > 0 && r.nLate > 0 {
		r.count("histories_nontrivial")
		if r.ctx.Prop == "C06" {
			r.ctx.See(lmHash(r.machine + r.trace.String()))
		}
	}
}

// ---------------------------------------------------------------- generation

func lmGenMachine(rng *sysgen.RNG) *lmCase {
	n := sysgen.Pick(rng, []int{2, 2, 3, 3, 3, 4, 4, 4, 4, 5, 6, 6, 8})
	cs := &lmCase{}
	profile := rng.Intn(100)
	small := rng.Chance(1, 2)
	for i := 0; i < n; i++ {
		nd := lmNode{Normal: true}
		switch {
		case profile < 30:
			nd.Type = 0
		case profile < 60: // DRAM + PMEM
			if i >= (n+1)/2 {
				nd.Type = 1
			}
		case profile < 75: // DRAM + HBM
			if i >= (n+1)/2 {
				nd.Type = 2
			}
		case profile < 93: // all three
			if i >= (n+2)/3 {
				nd.Type = 1 + (i % 2)
			}
		default:
			nd.Type = rng.Intn(3)
		}
		if small {
			nd.Cap = int64(rng.Range(4, 16))
		} else {
			nd.Cap = int64(rng.Range(4, 64))
		}
		if rng.Chance(7, 100) {
			nd.Cap = 0
		}
		movable := 8
		if nd.Type == 1 {
			movable = 35
		}
		if rng.Chance(movable, 100) {
			nd.Normal = false
		}
		if nd.Type == 0 && !rng.Chance(15, 100) || nd.Type != 0 && rng.Chance(15, 100) {
			nd.CPUs = []int{2 * i, 2*i + 1}
		}
		cs.Nodes = append(cs.Nodes, nd)
	}
	if rng.Chance(2, 100) { // a machine without any normal memory
		for i := range cs.Nodes {
			cs.Nodes[i].Normal = false
		}
	}
	d := make([][]int, n)
	for i := range d {
		d[i] = make([]int, n)
	}
	cs.Topo = sysgen.Pick(rng, []string{"line", "ring", "tree", "socket", "flat", "random", "random", "asym"})
	depth := func(x int) int { // heap-numbered binary tree
		k := 0
		for x > 0 {
			x = (x - 1) / 2
			k++
		}
		return k
	}
	for i := 0; i < n; i++ {
		for j := 0; j < n; j++ {
			if i == j {
				d[i][j] = 10
				continue
			}
			diff := i - j
			if diff < 0 {
				diff = -diff
			}
			switch cs.Topo {
			case "line":
				d[i][j] = 10 + 10*diff
			case "ring":
				if n-diff < diff {
					diff = n - diff
				}
				d[i][j] = 10 + 10*diff
			case "tree":
				a, b, hops := i, j, 0
				for a != b {
					if depth(a) >= depth(b) {
						a = (a - 1) / 2
					} else {
						b = (b - 1) / 2
					}
					hops++
				}
				d[i][j] = 10 + 5*hops
			case "socket":
				if i%2 == j%2 {
					d[i][j] = 12
				} else {
					d[i][j] = 21
				}
			case "flat":
				d[i][j] = 20
			case "random":
				if j < i {
					d[i][j] = d[j][i]
				} else {
					d[i][j] = 11 + rng.Intn(6)*5
				}
			case "asym":
				d[i][j] = 11 + rng.Intn(30)
			}
		}
	}
	for i := range cs.Nodes {
		cs.Nodes[i].Dist = d[i]
	}
	cs.Custom = sysgen.Pick(rng, []string{"", "", "", "", "", "", "", "", "", "", "", "",
		"expand-wrap", "expand-byid", "expand-all", "oc-wrap", "oc-own", "byid+oc-own", "wrap+oc-wrap"})
	return cs
}

type lmGen struct {
	rng   *sysgen.RNG
	r     *lmRun
	nextH int
	hot   []int // nodes that attract most single-node affinities: contention next to free neighbours
}

func (g *lmGen) randMask(k int) uint64 {
	var m uint64
	for i := 0; i < k; i++ {
		m |= 1 << uint(g.rng.Intn(g.r.n))
	}
	return m
}

func (g *lmGen) randTypes() int {
	var avail []int
	seen := map[int]bool{}
	for _, n := range g.r.cs.Nodes {
		if !seen[n.Type] {
			seen[n.Type] = true
			avail = append(avail, n.Type)
		}
	}
	switch x := g.rng.Intn(100); {
	case x < 60:
		return 1 << uint(sysgen.Pick(g.rng, avail))
	case x < 70:
		return 1 << uint(g.rng.Intn(3))
	default:
		return g.rng.Range(1, 7)
	}
}

func (g *lmGen) newReqOp(kind string) lmOp {
	rng, r := g.rng, g.r
	op := lmOp{Kind: kind, H: g.nextH, Prio: -1, Ctor: "new"}
	g.nextH++
	var total int64
	for _, c := range r.caps {
		total += c
	}
	if g.hot == nil {
		g.hot = []int{rng.Intn(r.n)}
		if rng.Chance(1, 2) {
			g.hot = append(g.hot, rng.Intn(r.n))
		}
	}
	switch x := rng.Intn(100); {
	case x < 40:
		op.Aff = 1 << uint(sysgen.Pick(rng, g.hot))
	case x < 64:
		op.Aff = g.randMask(1)
	case x < 86:
		op.Aff = g.randMask(rng.Range(2, 3))
	case x < 93:
		op.Aff = r.all
	case x < 95:
		op.Aff = 0
	default:
		op.Aff = g.randMask(rng.Range(0, 2)) | 1<<uint(r.n+rng.Intn(2))
	}
	// sizes are relative to the capacity of the affinity nodes so that zones fill up quickly
	var ac int64
	for i, c := range r.caps {
		if op.Aff&(1<<uint(i)) != 0 {
			ac += c
		}
	}
	if ac < 4 {
		ac = 4
	}
	a, tot := int(ac), int(total)
	if tot < a {
		tot = a
	}
	switch x := rng.Intn(100); {
	case x < 7:
		op.Size = 0
	case x < 50:
		op.Size = int64(rng.Range(1, a/2))
	case x < 85:
		op.Size = int64(rng.Range(a/2, a))
	case x < 96:
		op.Size = int64(rng.Range(a, tot))
	default:
		op.Size = total + int64(rng.Range(1, 8))
	}
	switch x := rng.Intn(100); {
	case x < 50:
	case x < 75:
		op.Types = g.randTypes()
	case x < 98:
		op.Types = g.randTypes()
		op.Strict = true
	default:
		op.Strict = true // strict without types
	}
	switch x := rng.Intn(100); {
	case x < 13:
		op.Prio = -1
	case x < 28:
		op.Prio = int(libmem.BestEffort)
	case x < 48:
		op.Prio = int(libmem.Burstable)
	case x < 68:
		op.Prio = int(libmem.Guaranteed)
	case x < 79:
		op.Prio = int(libmem.Preserved)
	case x < 92:
		op.Prio = int(libmem.Reservation)
	default:
		op.Prio = sysgen.Pick(rng, []int{1, 1023, 1025, 16383, 16385, 20000, 32765})
	}
	half := rng.Chance(1, 2)
	switch {
	case op.Prio == int(libmem.Reservation) && half:
		op.Ctor = "reserved"
	case op.Prio == int(libmem.Preserved) && op.Types == 0 && !op.Strict && half:
		op.Ctor = "preserved"
	case (op.Prio == int(libmem.BestEffort) || op.Prio == int(libmem.Burstable) || op.Prio == int(libmem.Guaranteed)) && half:
		switch {
		case op.Strict:
			op.Ctor = "cstrict"
		case op.Types != 0:
			op.Ctor = "ctypes"
		default:
			op.Ctor = "container"
		}
	}
	return op
}

func (g *lmGen) liveHandle() (int, bool) {
	var hs []int
	for _, m := range g.r.live {
		hs = append(hs, m.h)
	}
	if len(hs) == 0 {
		return -1, false
	}
	sort.Ints(hs)
	return sysgen.Pick(g.rng, hs), true
}

func (g *lmGen) next() lmOp {
	rng := g.rng
	// keep the allocator in the interesting middle: when it is nearly full most allocations just fail,
	// so release something more often
	var used, total int64
	for _, m := range g.r.live {
		used += m.size
	}
	for _, c := range g.r.caps {
		total += c
	}
	if used*100 >= total*60 && rng.Chance(1, 3) {
		if h, ok := g.liveHandle(); ok {
			return lmOp{Kind: "release", H: h, Prio: -1}
		}
	}
	if len(g.r.offers) > 0 && rng.Chance(1, 25) {
		return lmOp{Kind: "reset", H: -1, Prio: -1}
	}
	for {
		switch x := rng.Intn(100); {
		case x < 34:
			return g.newReqOp("alloc")
		case x < 48:
			return g.newReqOp("offer")
		case x < 56:
			return g.newReqOp("offer-alloc")
		case x < 63:
			return g.newReqOp("offer-commit")
		case x < 73:
			var hs []int
			for h := range g.r.offers {
				hs = append(hs, h)
			}
			if len(hs) == 0 {
				continue
			}
			sort.Ints(hs)
			return lmOp{Kind: "commit", Offer: sysgen.Pick(rng, hs), H: -1, Prio: -1}
		case x < 86:
			op := lmOp{Kind: "realloc", H: -1, Prio: -1}
			if h, ok := g.liveHandle(); ok && !rng.Chance(1, 10) {
				op.H = h
			} else if g.nextH > 0 && rng.Chance(1, 2) {
				op.H = rng.Intn(g.nextH) // any handle ever used: maybe released, maybe only offered
			}
			switch y := rng.Intn(100); {
			case y < 15:
			case y < 65:
				op.Aff = g.randMask(1)
			case y < 90:
				op.Aff = g.randMask(rng.Range(2, 3))
			case y < 95:
				op.Aff = g.r.all
			default:
				op.Aff = g.randMask(1) | 1<<uint(g.r.n+rng.Intn(2))
			}
			if rng.Chance(2, 5) {
				op.Types = g.randTypes()
			}
			return op
		case x < 97:
			op := lmOp{Kind: "release", H: -1, Prio: -1}
			if h, ok := g.liveHandle(); ok && !rng.Chance(1, 10) {
				op.H = h
			} else if g.nextH > 0 && rng.Chance(1, 2) {
				op.H = rng.Intn(g.nextH)
			}
			return op
		default:
			h, ok := g.liveHandle()
			if !ok {
				continue
			}
			op := g.newReqOp("dup-alloc")
			g.nextH--
			op.H = h
			if op.Ctor == "reserved" { // ReservedMemory invents its own id
				op.Ctor = "new"
			}
			return op
		}
	}
}

// ---------------------------------------------------------------- driver

func lmRunCase(ctx *Ctx, cs *lmCase, quiet bool) *lmRun {
	r := lmNewRun(ctx, cs, quiet)
	if r == nil {
		return nil
	}
	for i := range cs.Ops {
		if r.aborted {
			break
		}
		r.exec(i, &cs.Ops[i])
	}
	r.finish()
	return r
}

func lmFires(ctx *Ctx, cs *lmCase, v lmViol) (bool, lmViol) {
	r := lmRunCase(ctx, cs, true)
	if r == nil {
		return false, v
	}
	for _, w := range r.viol {
		if w.prop == v.prop && w.check == v.check && w.sig == v.sig {
			return true, w
		}
	}
	return false, v
}

// lmShrink removes operations greedily while the same (check, sig) still fires.
func lmShrink(ctx *Ctx, cs *lmCase, v lmViol) (*lmCase, lmViol, bool) {
	base := &lmCase{Topo: cs.Topo, Custom: cs.Custom, Nodes: cs.Nodes, Ops: append([]lmOp(nil), cs.Ops[:v.op+1]...)}
	ok, last := lmFires(ctx, base, v)
	if !ok {
		return base, v, false
	}
	for pass := 0; pass < 4; pass++ {
		changed := false
		for i := len(base.Ops) - 2; i >= 0; i-- {
			if i >= len(base.Ops)-1 {
				continue
			}
			cand := &lmCase{Topo: base.Topo, Custom: base.Custom, Nodes: base.Nodes}
			cand.Ops = append(cand.Ops, base.Ops[:i]...)
			cand.Ops = append(cand.Ops, base.Ops[i+1:]...)
			if ok, w := lmFires(ctx, cand, v); ok {
				base, last = cand, w
				changed = true
			}
		}
		if !changed {
			break
		}
	}
	if last.op+1 < len(base.Ops) {
		base.Ops = base.Ops[:last.op+1]
	}
	return base, last, true
}

func runLibmem(ctx *Ctx) {
	if ctx.Replay != "" {
		var cs lmCase
		if err := LoadCase(ctx.Replay, &cs); err != nil {
			ctx.Violate("replay", "load", nil, "cannot load %s: %v", ctx.Replay, err)
			return
		}
		// the allocator iterates Go maps: repeat a silent replay a few times before believing it
		for try := 0; try < 20; try++ {
			r := lmRunCase(ctx, &cs, false)
			if r == nil {
				ctx.Violate("replay", "setup", nil, "cannot set up the allocator of %s", ctx.Replay)
				return
			}
			fired := false
			for _, v := range r.viol {
				if v.prop == ctx.Prop {
					fired = true
					ctx.Violate(v.check, v.sig, &cs, "op %d (%s): %s", v.op, cs.Ops[v.op].Kind, v.msg)
				}
			}
			if fired {
				return
			}
		}
		return
	}
	reported := map[string]int{}
	for i := 0; i < ctx.N; i++ {
		rng := ctx.RNG.Fork()
		cs := lmGenMachine(rng)
		r := lmNewRun(ctx, cs, false)
		if r == nil {
			ctx.Count("setup_failed")
			continue
		}
		g := &lmGen{rng: rng, r: r}
		nops := rng.Range(36, 56)
		for k := 0; k < nops && !r.aborted; k++ {
			op := g.next()
			cs.Ops = append(cs.Ops, op)
			r.exec(len(cs.Ops)-1, &cs.Ops[len(cs.Ops)-1])
		}
		// final sweep: every offer still pooled is committed, in random order
		var hs []int
		for h := range r.offers {
			hs = append(hs, h)
		}
		sort.Ints(hs)
		for len(hs) > 0 && !r.aborted {
			k := rng.Intn(len(hs))
			h := hs[k]
			hs = append(hs[:k], hs[k+1:]...)
			cs.Ops = append(cs.Ops, lmOp{Kind: "commit", Offer: h, H: -1, Prio: -1})
			r.exec(len(cs.Ops)-1, &cs.Ops[len(cs.Ops)-1])
		}
		r.finish()
		ctx.Add("ops_total", len(cs.Ops))
		if i < 2 {
			ctx.Sample(cs)
		}
		for _, v := range r.viol {
			if v.prop != ctx.Prop {
				ctx.Count("other_prop_violations_" + v.prop + "_" + v.check)
				continue
			}
			key := v.check + "|" + v.sig
			reported[key]++
			if reported[key] > 3 {
				ctx.Violate(v.check, v.sig, nil, "%s", v.msg)
				continue
			}
			small, w, refired := lmShrink(ctx, cs, v)
			note := ""
			if !refired {
				note = " [did not fire again on an immediate re-run of the same operations: outcome depends on map iteration order]"
			}
			ctx.Violate(v.check, v.sig, small, "history %d op %d (%s), shrunk to %d ops: %s%s", i, v.op, cs.Ops[v.op].Kind, len(small.Ops), w.msg, note)
		}
	}
}
