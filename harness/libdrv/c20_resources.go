package libdrv

// C20 — resource requirements reconstructed from cgroup parameters are faithful.
//
// Code under test: pkg/kubernetes/resources.go (MilliCPUToShares, SharesToMilliCPU,
// MilliCPUToQuota, QuotaToMilliCPU, SetMemoryCapacity, OomAdjToMemReq, MemReqToOomAdj) and
// pkg/resmgr/cache (NewCache, InsertPod, InsertContainer, Container.GetResourceRequirements()).
//
// The reference ("what the kubelet encoded") is re-implemented here from the kubelet formulas:
//   shares(m) = 2 if m == 0, else clamp(m*1024/1000, 2, 262144)
//   quota(m)  = 0 (with period 0) if m == 0, else max(m*100000/1000, 1000) with period 100000
//   oomAdj(r) = 1000 - (1000*r)/capacity   (Burstable; the kubelet then clamps to [3, 999])
//
// Part 1, CPU — EXHAUSTIVE in every run (independent of N, seed, tier):
//   enc_shares / enc_quota : the package's encoders equal the kubelet reference for every m in 0..256000
//   shares_tolerance       : |SharesToMilliCPU(shares(m)) - m| <= 1, <= 2 where shares(m) is the floor 2
//   shares_exact_125       : exact for every multiple of 125 mCPU
//   quota_exact            : QuotaToMilliCPU(quota(m)) == m for every m >= 10
//   shares_monotone_m / quota_monotone_m : both reconstructions non-decreasing in m over 0..256000
//   shares_monotone_raw    : SharesToMilliCPU non-decreasing over every shares value 2..262144
//   quota_monotone_raw     : QuotaToMilliCPU(q, 100000) non-decreasing over every quota 1000..25600000
//
// Part 2, memory — sampled: a fixed capacity list (every power of two 2^20..2^46, +-1 and +-k around
// them, multiples of 1000 and of 1024, primes, a dense sweep above 1 MiB, typical MemTotal values)
// plus N PRNG-drawn capacities in [1 MiB, 64 TiB]. For each capacity c:
//   table_build_panics     : kubernetes.SetMemoryCapacity(c) must not panic
//   adj_no_estimate        : OomAdjToMemReq(adj, 0) != nil for every adj in 3..999
//   adj_roundtrip          : MemReqToOomAdj(*estimate) == adj
//   adj_roundtrip_kubelet  : the kubelet formula (re-implemented, with clamp) maps the estimate to adj
//
// Part 3, through the cache: containers of the three QoS classes whose cgroup parameters are the
// kubelet encoding of (request, limit, memory limit, oom adj):
//   cache_cpu_request      : reconstructed CPU request within the tolerance above (absent == 0)
//   cache_cpu_limit        : Burstable/BestEffort: limit exact for m >= 10, absent for "no limit";
//                            Guaranteed: limit == reconstructed request
//   cache_mem_limit / cache_mem_request : memory limit verbatim; Guaranteed request == limit;
//                            Burstable request maps back to the container's OOM adjustment
//
// N = number of PRNG-drawn capacities (the fixed list and parts 1 and 3 always run; part 3 adds
// min(N/10, 2000) PRNG-drawn containers to its fixed grid).
// Non-trivial case rule for See(): one fingerprint per distinct capacity whose table was built and
// fully round-tripped ("cap:<c>"), one per cache container ("ctr:<qos>:<req>:<lim>:<adj>").
// The CPU part is a single exhaustive case ("cpu:exhaustive").
// ctx.Out.Exhaustive stays false (memory part is sampled); stat cpu_part_exhaustive = 1.

import (
	"fmt"
	"math/big"
	"path/filepath"
	"sort"

	nri "github.com/containerd/nri/pkg/api"
	"github.com/containers/nri-plugins/pkg/kubernetes"
	"github.com/containers/nri-plugins/pkg/resmgr/cache"
	corev1 "k8s.io/api/core/v1"

	"verif/harness/sysgen"
)

func init() { Register("C20", runC20) }

type c20Case struct {
	Kind     string `json:"kind"` // "cpu" | "capacity" | "cache"
	Capacity int64  `json:"capacity,omitempty"`
	QoS      string `json:"qos,omitempty"`
	ReqMilli int64  `json:"req_milli,omitempty"`
	LimMilli int64  `json:"lim_milli,omitempty"`
	MemLimit int64  `json:"mem_limit,omitempty"`
	OomAdj   int64  `json:"oom_adj,omitempty"`
	M        int64  `json:"m,omitempty"`   // first offending value for the cpu part (informational)
	Idx      int    `json:"idx,omitempty"` // cache part: running index (names, and whether an unlimited container reports a period)
}

const (
	c20MaxMilli  = 256000
	c20MinShares = 2
	c20MaxShares = 262144
	c20MiB       = int64(1) << 20
	c20MaxCap    = int64(1) << 46 // 64 TiB
)

// ---- kubelet reference encoders (independent re-implementation) ----

func c20RefShares(m int64) int64 {
	if m == 0 {
		return c20MinShares
	}
	s := m * 1024 / 1000
	if s < c20MinShares {
		return c20MinShares
	}
	if s > c20MaxShares {
		return c20MaxShares
	}
	return s
}

func c20RefQuota(m int64) (quota, period int64) {
	if m == 0 {
		return 0, 0
	}
	period = 100000
	quota = m * period / 1000
	if quota < 1000 {
		quota = 1000
	}
	return quota, period
}

// kubelet GetContainerOOMScoreAdjust for a Burstable container.
func c20RefOomAdj(memReq, capacity int64) int64 {
	adj := 1000 - (1000*memReq)/capacity
	if adj < 3 {
		return 3
	}
	if adj == 1000 {
		return 999
	}
	return adj
}

func c20Abs(x int64) int64 {
	if x < 0 {
		return -x
	}
	return x
}

func runC20(ctx *Ctx) {
	if ctx.Replay != "" {
		var cs c20Case
		if err := LoadCase(ctx.Replay, &cs); err != nil {
			ctx.Violate("replay_load", "replay", nil, "cannot load %s: %v", ctx.Replay, err)
			return
		}
		switch cs.Kind {
		case "cpu":
			c20CPU(ctx)
		case "capacity":
			c20Capacity(ctx, cs.Capacity)
		case "cache":
			cch := c20NewCache(ctx)
			if cch != nil {
				c20CacheContainer(ctx, cch, cs, cs.Idx)
			}
		}
		return
	}

	c20CPU(ctx)

	// memory part
	caps := c20FixedCapacities()
	ctx.Add("capacities_fixed_list", len(caps))
	rng := ctx.RNG.Fork()
	for i := 0; i < ctx.N; i++ {
		caps = append(caps, c20DrawCapacity(rng))
	}
	for _, c := range caps {
		c20Capacity(ctx, c)
	}

	// cache part
	crng := ctx.RNG.Fork()
	cch := c20NewCache(ctx)
	if cch == nil {
		return
	}
	idx := 0
	for _, cs := range c20CacheGrid() {
		c20CacheContainer(ctx, cch, cs, idx)
		idx++
	}
	extra := ctx.N / 10
	if extra > 2000 {
		extra = 2000
	}
	for i := 0; i < extra; i++ {
		c20CacheContainer(ctx, cch, c20DrawContainer(crng), idx)
		idx++
	}
}

// ---------------------------------------------------------------- CPU part (exhaustive)

func c20CPU(ctx *Ctx) {
	ctx.Out.Stats["cpu_part_exhaustive"] = 1
	ctx.See("cpu:exhaustive")
	var prevS, prevQ int64 = -1, -1
	for m := int64(0); m <= c20MaxMilli; m++ {
		ctx.Eval()
		ctx.Count("cpu_values_checked")
		rs := c20RefShares(m)
		rq, rp := c20RefQuota(m)

		// the package's own encoders against the kubelet reference
		if ps := int64(kubernetes.MilliCPUToShares(m)); ps != rs {
			ctx.Violate("enc_shares", "MilliCPUToShares!=kubelet", c20Case{Kind: "cpu", M: m},
				"MilliCPUToShares(%d) = %d, kubelet encodes %d", m, ps, rs)
		}
		if pq, pp := kubernetes.MilliCPUToQuota(m); pq != rq || pp != rp {
			ctx.Violate("enc_quota", "MilliCPUToQuota!=kubelet", c20Case{Kind: "cpu", M: m},
				"MilliCPUToQuota(%d) = (%d,%d), kubelet encodes (%d,%d)", m, pq, pp, rq, rp)
		}

		// request reconstruction
		back := kubernetes.SharesToMilliCPU(rs)
		tol := int64(1)
		if rs == c20MinShares {
			tol = 2
			ctx.Count("cpu_values_at_shares_floor")
		}
		if d := c20Abs(back - m); d > tol {
			ctx.Violate("shares_tolerance", c20MilliClass(m), c20Case{Kind: "cpu", M: m},
				"request %dm -> shares %d -> %dm: off by %d (> %d)", m, rs, back, d, tol)
		} else if d != 0 {
			ctx.Count("cpu_request_off_by_" + fmt.Sprint(d))
		}
		if m%125 == 0 {
			ctx.Count("cpu_multiples_of_125")
			if back != m {
				ctx.Violate("shares_exact_125", c20MilliClass(m), c20Case{Kind: "cpu", M: m},
					"request %dm (multiple of 125) -> shares %d -> %dm: not exact", m, rs, back)
			}
		}
		if back < prevS {
			ctx.Violate("shares_monotone_m", c20MilliClass(m), c20Case{Kind: "cpu", M: m},
				"request %dm reconstructs to %dm but %dm reconstructed to %dm", m, back, m-1, prevS)
		}
		prevS = back

		// limit reconstruction
		lim := kubernetes.QuotaToMilliCPU(rq, rp)
		if m >= 10 && lim != m {
			ctx.Violate("quota_exact", c20MilliClass(m), c20Case{Kind: "cpu", M: m},
				"limit %dm -> quota %d/%d -> %dm: not exact", m, rq, rp, lim)
		}
		if lim < prevQ {
			ctx.Violate("quota_monotone_m", c20MilliClass(m), c20Case{Kind: "cpu", M: m},
				"limit %dm reconstructs to %dm but %dm reconstructed to %dm", m, lim, m-1, prevQ)
		}
		prevQ = lim
	}
	// raw monotonicity over the whole cgroup shares range
	prev := int64(-1)
	for s := int64(c20MinShares); s <= c20MaxShares; s++ {
		ctx.Eval()
		ctx.Count("shares_values_checked")
		v := kubernetes.SharesToMilliCPU(s)
		if v < prev {
			ctx.Violate("shares_monotone_raw", "SharesToMilliCPU", c20Case{Kind: "cpu", M: s},
				"SharesToMilliCPU(%d) = %d < SharesToMilliCPU(%d) = %d", s, v, s-1, prev)
		}
		if v < 0 {
			ctx.Violate("shares_negative", "SharesToMilliCPU", c20Case{Kind: "cpu", M: s}, "SharesToMilliCPU(%d) = %d", s, v)
		}
		prev = v
	}
	// raw monotonicity over every quota the kubelet can produce for 0..256 CPUs (default period)
	prev = -1
	maxQ, _ := c20RefQuota(c20MaxMilli)
	for q := int64(1000); q <= maxQ; q++ {
		v := kubernetes.QuotaToMilliCPU(q, 100000)
		if v < prev {
			ctx.Violate("quota_monotone_raw", "QuotaToMilliCPU", c20Case{Kind: "cpu", M: q},
				"QuotaToMilliCPU(%d) = %d < QuotaToMilliCPU(%d) = %d", q, v, q-1, prev)
		}
		prev = v
	}
	ctx.Eval()
	ctx.Add("quota_values_checked", int(maxQ-1000+1))
	// other CFS periods (kubelet cpuCFSQuotaPeriod accepts 1 ms .. 1 s; other runtimes any --cpu-period): the kubelet
	// encodes quota = floor(m*period/1000), at least 1000. The reconstruction rounds quota*1000/period to the nearest
	// integer, so it is exact wherever the encoding lost less than half a mCPU (period >= 2000) and the minimum-quota
	// clamp was not applied (m*period >= 10^6, which is the "10 mCPU" of the default period); monotone in m always.
	for _, period := range []int64{1000000, 500000, 250000, 200000, 100500, 100001, 99999, 50000, 33333, 25000, 12500, 10000, 5000, 2500, 2000} {
		prevP := int64(-1)
		for m := int64(1); m <= c20MaxMilli; m++ {
			q := m * period / 1000
			clamped := q < 1000
			if clamped {
				q = 1000
			}
			lim := kubernetes.QuotaToMilliCPU(q, period)
			if !clamped && m >= 10 && lim != m {
				ctx.Violate("quota_exact_period", fmt.Sprintf("period-%d", period), c20Case{Kind: "cpu", M: m},
					"limit %dm -> quota %d/%d -> %dm: not exact", m, q, period, lim)
				break
			}
			if lim < prevP {
				ctx.Violate("quota_monotone_period", fmt.Sprintf("period-%d", period), c20Case{Kind: "cpu", M: m},
					"period %d: limit %dm reconstructs to %dm but %dm reconstructed to %dm", period, m, lim, m-1, prevP)
				break
			}
			prevP = lim
		}
		ctx.Eval()
		ctx.Add("quota_values_checked_other_periods", int(c20MaxMilli))
		ctx.Count("cfs_periods_checked")
	}
}

func c20MilliClass(m int64) string {
	switch {
	case m < 10:
		return "m<10"
	case m%1000 == 0:
		return "whole-cpu"
	case m%125 == 0:
		return "multiple-of-125"
	default:
		return "fractional"
	}
}

// ---------------------------------------------------------------- memory part

func c20FixedCapacities() []int64 {
	set := map[int64]struct{}{}
	add := func(c int64) {
		if c >= c20MiB && c <= c20MaxCap {
			set[c] = struct{}{}
		}
	}
	ks := []int64{1, 2, 3, 5, 7, 10, 100, 333, 499, 500, 501, 999, 1000, 1001, 1023, 1024, 1025, 4095, 4096, 65536}
	for e := uint(20); e <= 46; e++ {
		p := int64(1) << e
		add(p)
		for _, k := range ks {
			add(p + k)
			add(p - k)
		}
		// 1.5 * 2^e and the primes around the power
		add(p + p/2)
		add(c20Prime(p, +1))
		add(c20Prime(p, -1))
	}
	// multiples of 1000 and 1024
	for j := int64(1024); j <= 1100; j++ {
		add(j * 1024)
	}
	for j := int64(1049); j <= 1200; j++ {
		add(j * 1000)
	}
	for e := uint(10); e <= 36; e++ {
		j := int64(1) << e
		add(j * 1000)
		add((j + 1) * 1000)
		add((j - 1) * 1000)
		add((j + 1) * 1024)
		add((j - 1) * 1024)
		add(3 * j * 1024)
		add(5 * j * 1024)
	}
	for _, d := range []int64{2_000_000, 5_000_000, 10_000_000, 100_000_000, 1_000_000_000, 8_000_000_000, 16_000_000_000,
		1_000_000_000_000, 10_000_000_000_000, 64_000_000_000_000, 70_000_000_000_000} {
		add(d)
		add(d + 1)
		add(d - 1)
		add(d + 1000)
		add(d - 1000)
	}
	// typical MemTotal values (kB) of real hosts
	for _, kb := range []int64{1014968, 2030504, 4026284, 8039936, 16303428, 32778680, 65759472, 131819388, 263868660,
		527951016, 1056276148, 3915776, 7864320, 15728640} {
		add(kb * 1024)
	}
	// a list of primes
	for _, p := range []int64{1048583, 1299709, 2097169, 15485863, 32452843, 104395301, 179424673, 2147483647, 4294967311,
		68719476767, 1099511627791, 17592186044423} {
		add(p)
	}
	// dense sweep just above 1 MiB (smallest capacities: smallest per-adjustment step)
	for c := c20MiB; c < c20MiB+3000; c++ {
		add(c)
	}
	out := make([]int64, 0, len(set))
	for c := range set {
		out = append(out, c)
	}
	sort.Slice(out, func(i, j int) bool { return out[i] < out[j] })
	return out
}

// c20Prime returns the nearest prime above (dir>0) or below (dir<0) x. ProbablyPrime is exact below 2^64.
func c20Prime(x int64, dir int64) int64 {
	for c := x + dir; c > 2; c += dir {
		if big.NewInt(c).ProbablyPrime(0) {
			return c
		}
	}
	return 2
}

func c20DrawCapacity(r *sysgen.RNG) int64 {
	e := uint(r.Range(20, 45))
	base := int64(1) << e
	c := base + int64(r.Uint64()%uint64(base))
	switch r.Intn(6) {
	case 0, 1: // what sysfs.GetMemoryCapacity yields: MemTotal kB * 1024
		c &^= 1023
	case 2: // page granular
		c &^= 4095
	case 3: // decimal sizes
		c -= c % 1000
	}
	if c < c20MiB {
		c = c20MiB
	}
	if c > c20MaxCap {
		c = c20MaxCap
	}
	return c
}

// c20CapClass: coarse input class of a capacity for violation signatures.
func c20CapClass(c int64) string {
	mag := ""
	switch {
	case c < 16*c20MiB:
		mag = "capacity<16MiB"
	case c < 1<<30:
		mag = "capacity<1GiB"
	case c < 1<<40:
		mag = "capacity<1TiB"
	default:
		mag = "capacity>=1TiB"
	}
	div := "odd-size"
	switch {
	case c%1000 == 0 && c%1024 == 0:
		div = "mod1000==0&&mod1024==0"
	case c%1000 == 0:
		div = "mod1000==0"
	case c%1024 == 0:
		div = "mod1024==0"
	}
	return mag + "," + div
}

// c20Capacity builds the table for one capacity and round-trips every Burstable adjustment.
// Returns false if the table could not be built.
func c20Capacity(ctx *Ctx, c int64) bool {
	ctx.Eval()
	ctx.Count("capacities_checked")
	cs := c20Case{Kind: "capacity", Capacity: c}
	msg, site := Guard(func() { kubernetes.SetMemoryCapacity(c) })
	if msg != "" {
		ctx.Count("capacities_panicked")
		ctx.Violate("table_build_panics", c20CapClass(c)+"@"+site, cs, "SetMemoryCapacity(%d) panicked: %s", c, msg)
		return false
	}
	ok := true
	for adj := int64(3); adj <= 999; adj++ {
		ctx.Count("adj_roundtrips")
		var r *int64
		var back int64
		msg, site := Guard(func() {
			r = kubernetes.OomAdjToMemReq(adj, 0)
			if r != nil {
				back = kubernetes.MemReqToOomAdj(*r)
			}
		})
		switch {
		case msg != "":
			ok = false
			ctx.Violate("adj_lookup_panics", c20CapClass(c)+"@"+site, cs, "capacity %d adj %d: %s", c, adj, msg)
		case r == nil:
			ok = false
			ctx.Violate("adj_no_estimate", c20CapClass(c), cs, "capacity %d: OomAdjToMemReq(%d, 0) = nil", c, adj)
		default:
			if back != adj {
				ok = false
				ctx.Violate("adj_roundtrip", c20CapClass(c), cs,
					"capacity %d: OomAdjToMemReq(%d) = %d which MemReqToOomAdj maps to %d", c, adj, *r, back)
			}
			if *r < 0 || *r > c {
				ok = false
				ctx.Violate("adj_estimate_range", c20CapClass(c), cs, "capacity %d: estimate %d for adj %d outside [0, capacity]", c, *r, adj)
			} else if kb := c20RefOomAdj(*r, c); kb != adj {
				ok = false
				ctx.Violate("adj_roundtrip_kubelet", c20CapClass(c), cs,
					"capacity %d: estimate %d for adj %d is encoded by the kubelet as %d", c, *r, adj, kb)
			}
		}
		if !ok {
			break
		}
	}
	if ok {
		ctx.See(fmt.Sprintf("cap:%d", c))
		if c%1024 == 0 {
			ctx.Count("capacities_kB_granular_ok")
		}
	} else {
		ctx.Count("capacities_bad_table")
	}
	return ok
}

// ---------------------------------------------------------------- cache part

func c20NewCache(ctx *Ctx) cache.Cache {
	var cch cache.Cache
	var err error
	dir := filepath.Join(ctx.Work, "c20-cache")
	msg, site := Guard(func() { cch, err = cache.NewCache(cache.Options{CacheDir: dir}) })
	if msg != "" || err != nil {
		ctx.Violate("cache_setup", "NewCache@"+site, nil, "cache.NewCache(%s): %v %s", dir, err, msg)
		return nil
	}
	return cch
}

var c20CacheCaps = []int64{16303428 * 1024, 8 << 30, 263868660 * 1024}

func c20CacheGrid() []c20Case {
	var out []c20Case
	ms := []int64{0, 1, 2, 3, 5, 9, 10, 11, 50, 100, 125, 250, 333, 500, 999, 1000, 1001, 1500, 1999, 2000, 2001, 3750, 4000,
		7999, 8000, 16000, 63999, 64000, 128000, 255999, 256000}
	i := 0
	for _, m := range ms {
		i++
		capc := c20CacheCaps[i%len(c20CacheCaps)]
		// Guaranteed: request == limit, memory request == limit
		if m > 0 {
			out = append(out, c20Case{Kind: "cache", QoS: "Guaranteed", ReqMilli: m, LimMilli: m, MemLimit: 64<<20 + m*4096, OomAdj: -997, Capacity: capc})
		}
		// Burstable: with limit >= request, and without limit
		out = append(out, c20Case{Kind: "cache", QoS: "Burstable", ReqMilli: m, LimMilli: m + m/2 + 10, MemLimit: 0, OomAdj: 3 + (m*7)%997, Capacity: capc})
		out = append(out, c20Case{Kind: "cache", QoS: "Burstable", ReqMilli: m, LimMilli: 0, MemLimit: capc / 2, OomAdj: 999 - (m*13)%997, Capacity: capc})
		// BestEffort: no request; a limit is impossible for a real BestEffort pod but the code path
		// (quota for BestEffort) exists and is part of the reconstruction
		out = append(out, c20Case{Kind: "cache", QoS: "BestEffort", ReqMilli: 0, LimMilli: 0, OomAdj: 1000, Capacity: capc})
		out = append(out, c20Case{Kind: "cache", QoS: "BestEffort", ReqMilli: 0, LimMilli: m, OomAdj: 1000, Capacity: capc})
	}
	return out
}

func c20DrawContainer(r *sysgen.RNG) c20Case {
	cs := c20Case{Kind: "cache", Capacity: sysgen.Pick(r, c20CacheCaps)}
	milli := func() int64 {
		switch r.Intn(4) {
		case 0:
			return int64(r.Range(0, 20))
		case 1:
			return int64(r.Range(1, 256)) * 1000
		case 2:
			return int64(r.Range(1, 2048)) * 125
		}
		return int64(r.Range(0, c20MaxMilli))
	}
	switch r.Intn(3) {
	case 0:
		cs.QoS = "Guaranteed"
		cs.ReqMilli = milli()
		if cs.ReqMilli == 0 {
			cs.ReqMilli = 1000
		}
		cs.LimMilli = cs.ReqMilli
		cs.MemLimit = int64(r.Range(1, 1<<20)) * 4096
		cs.OomAdj = -997
	case 1:
		cs.QoS = "Burstable"
		cs.ReqMilli = milli()
		if r.Chance(2, 3) {
			cs.LimMilli = cs.ReqMilli + milli()
			if cs.LimMilli > c20MaxMilli {
				cs.LimMilli = c20MaxMilli
			}
		}
		if r.Chance(1, 2) {
			cs.MemLimit = int64(r.Range(1, 1<<20)) * 4096
		}
		cs.OomAdj = int64(r.Range(3, 999))
	default:
		cs.QoS = "BestEffort"
		if r.Chance(1, 3) {
			cs.LimMilli = milli()
		}
		cs.OomAdj = 1000
	}
	return cs
}

func c20CgroupParent(qos, uid string) string {
	switch qos {
	case "BestEffort":
		return "/kubepods.slice/kubepods-besteffort.slice/kubepods-besteffort-pod" + uid + ".slice"
	case "Burstable":
		return "/kubepods.slice/kubepods-burstable.slice/kubepods-burstable-pod" + uid + ".slice"
	}
	return "/kubepods.slice/kubepods-pod" + uid + ".slice"
}

func c20CacheContainer(ctx *Ctx, cch cache.Cache, cs c20Case, idx int) {
	ctx.Eval()
	ctx.Count("cache_containers_checked")
	ctx.Count("cache_containers_" + cs.QoS)
	sig := "qos=" + cs.QoS
	cs.Idx = idx

	capOK := true
	if msg, _ := Guard(func() { kubernetes.SetMemoryCapacity(cs.Capacity) }); msg != "" {
		// reported by the memory part under its own check; here only the memory clauses are skipped
		capOK = false
		ctx.Count("cache_capacity_unusable")
	}

	uid := fmt.Sprintf("c20pod%06d", idx)
	podID := "pod-" + uid
	ctrID := fmt.Sprintf("c20ctr%06d", idx)
	parent := c20CgroupParent(cs.QoS, uid)
	pod := &nri.PodSandbox{Id: podID, Name: "p" + uid, Uid: uid, Namespace: "default",
		Labels: map[string]string{}, Annotations: map[string]string{},
		Linux: &nri.LinuxPodSandbox{CgroupParent: parent}}

	shares := c20RefShares(cs.ReqMilli)
	quota, period := c20RefQuota(cs.LimMilli)
	res := &nri.LinuxResources{Cpu: &nri.LinuxCPU{}, Memory: &nri.LinuxMemory{}}
	res.Cpu.Shares = nri.UInt64(uint64(shares))
	if quota != 0 {
		res.Cpu.Quota = nri.Int64(quota)
	}
	// the runtime reports the default period also for unlimited containers
	if period != 0 || idx%2 == 0 {
		res.Cpu.Period = nri.UInt64(100000)
	}
	if cs.MemLimit != 0 {
		res.Memory.Limit = nri.Int64(cs.MemLimit)
	}
	ctr := &nri.Container{Id: ctrID, PodSandboxId: podID, Name: "c0",
		State:  nri.ContainerState_CONTAINER_CREATED,
		Labels: map[string]string{"io.kubernetes.container.name": "c0"}, Annotations: map[string]string{},
		Args: []string{"/bin/sleep", "inf"},
		Linux: &nri.LinuxContainer{Resources: res, OomScoreAdj: nri.Int(int(cs.OomAdj)),
			CgroupsPath: parent + "/cri-containerd-" + ctrID + ".scope"}}

	var (
		c    cache.Container
		err  error
		reqs corev1.ResourceRequirements
		qos  corev1.PodQOSClass
	)
	msg, site := Guard(func() {
		p := cch.InsertPod(pod, nil)
		qos = p.GetQOSClass()
		c, err = cch.InsertContainer(ctr)
		if err == nil {
			reqs = c.GetResourceRequirements()
		}
	})
	defer Guard(func() {
		cch.DeleteContainer(ctrID)
		cch.DeletePod(podID)
	})
	if msg != "" {
		ctx.Violate("cache_panic", sig+"@"+site, cs, "InsertPod/InsertContainer/GetResourceRequirements panicked: %s", msg)
		return
	}
	if err != nil {
		ctx.Violate("cache_insert_failed", sig, cs, "InsertContainer: %v", err)
		return
	}
	if string(qos) != cs.QoS {
		ctx.Violate("cache_qos_class", sig, cs, "cgroup parent %s classified as %s, want %s", parent, qos, cs.QoS)
		return
	}

	// CPU request
	gotReq, hasReq := int64(0), false
	if q, ok := reqs.Requests[corev1.ResourceCPU]; ok {
		gotReq, hasReq = q.MilliValue(), true
	}
	tol := int64(1)
	if shares == c20MinShares {
		tol = 2
	}
	if d := c20Abs(gotReq - cs.ReqMilli); d > tol {
		ctx.Violate("cache_cpu_request", sig+","+c20MilliClass(cs.ReqMilli), cs,
			"%s container with request %dm (shares %d): reconstructed request %dm (present=%v), off by %d > %d",
			cs.QoS, cs.ReqMilli, shares, gotReq, hasReq, d, tol)
	}
	if cs.ReqMilli%125 == 0 && gotReq != cs.ReqMilli {
		ctx.Violate("cache_cpu_request_exact_125", sig, cs, "%s container with request %dm: reconstructed %dm", cs.QoS, cs.ReqMilli, gotReq)
	}

	// CPU limit
	gotLim, hasLim := int64(0), false
	if q, ok := reqs.Limits[corev1.ResourceCPU]; ok {
		gotLim, hasLim = q.MilliValue(), true
	}
	if cs.QoS == "Guaranteed" {
		if gotLim != gotReq || hasLim != hasReq && gotReq != 0 {
			ctx.Violate("cache_cpu_limit", sig, cs, "Guaranteed container: limit %dm (present=%v) != reconstructed request %dm", gotLim, hasLim, gotReq)
		}
	} else {
		switch {
		case cs.LimMilli == 0:
			if gotLim != 0 {
				ctx.Violate("cache_cpu_limit", sig+",unlimited", cs, "%s container without CPU limit: reconstructed limit %dm", cs.QoS, gotLim)
			}
		case cs.LimMilli >= 10:
			if gotLim != cs.LimMilli {
				ctx.Violate("cache_cpu_limit", sig+","+c20MilliClass(cs.LimMilli), cs,
					"%s container with limit %dm (quota %d/%d): reconstructed limit %dm", cs.QoS, cs.LimMilli, quota, period, gotLim)
			}
		default: // 1..9 mCPU: the kubelet raises the quota to the 1 ms minimum; only "a limit exists" is specified
			if !hasLim {
				ctx.Violate("cache_cpu_limit", sig+",m<10", cs, "%s container with limit %dm: no limit reconstructed", cs.QoS, cs.LimMilli)
			}
		}
	}

	// memory limit verbatim
	gotML := int64(0)
	if q, ok := reqs.Limits[corev1.ResourceMemory]; ok {
		gotML = q.Value()
	}
	if gotML != cs.MemLimit {
		ctx.Violate("cache_mem_limit", sig, cs, "memory limit %d reconstructed as %d", cs.MemLimit, gotML)
	}
	gotMR, hasMR := int64(0), false
	if q, ok := reqs.Requests[corev1.ResourceMemory]; ok {
		gotMR, hasMR = q.Value(), true
	}
	switch cs.QoS {
	case "Guaranteed":
		if gotMR != cs.MemLimit {
			ctx.Violate("cache_mem_request", sig, cs, "Guaranteed container: memory request %d != limit %d", gotMR, cs.MemLimit)
		}
	case "Burstable":
		if capOK && hasMR {
			ctx.Count("cache_mem_request_estimated")
			if cs.MemLimit != 0 && gotMR > cs.MemLimit {
				ctx.Violate("cache_mem_request", sig+",above-limit", cs, "estimated memory request %d above the limit %d", gotMR, cs.MemLimit)
			}
			if kb := c20RefOomAdj(gotMR, cs.Capacity); kb != cs.OomAdj {
				ctx.Violate("cache_mem_request", sig+",adj-mismatch", cs,
					"capacity %d: container with oom_score_adj %d got memory request estimate %d, which the kubelet encodes as %d",
					cs.Capacity, cs.OomAdj, gotMR, kb)
			}
		} else if capOK && cs.MemLimit == 0 {
			// every Burstable adjustment has an estimate (property), and without a limit nothing can veto it
			ctx.Violate("cache_mem_request", sig+",missing", cs, "capacity %d: no memory request estimated for oom_score_adj %d", cs.Capacity, cs.OomAdj)
		}
	case "BestEffort":
		if hasMR && gotMR != 0 {
			ctx.Violate("cache_mem_request", sig, cs, "BestEffort container got a memory request %d", gotMR)
		}
	}
	ctx.See(fmt.Sprintf("ctr:%s:%d:%d:%d", cs.QoS, cs.ReqMilli, cs.LimMilli, cs.OomAdj))
	ctx.Sample(cs)
}
