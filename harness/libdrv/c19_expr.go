package libdrv

// C19 — match expressions and balloon-type selection follow their documented semantics.
//
// Subjects are REAL cache pods/containers (cache.NewCache + InsertPod + InsertContainer + SetTag).
//
// Three kinds of cases (N = number of expression cases; N/20 affinity cases; N/200 balloon cases):
//
// "expr" (clauses a–d): a world of 2–4 pods / 3–8 containers, a subject (container or pod), a
// key, an operator and a value list.
//
//	a  duality            In/NotIn, Matches/MatchesNot, MatchesAny/MatchesNone, Exists/NotExist and
//	                      Equals/NotEqual evaluated on the same (subject, key, values) are negations
//	                      of each other (whenever neither panics)
//	b  reference          an evaluator written from docs/resource-policy/policy/topology-aware.md
//	                      "Affinity Semantics" (supported keys for pods and containers, operators,
//	                      joint keys, existence rule) agrees with Expression.Evaluate on every
//	                      expression that Validate() accepts. The reference is three-valued: where
//	                      the documentation is silent it says "undefined" and nothing is compared:
//	                        - keys outside the documented lists (container: pod/<pod-key>, name,
//	                          namespace, qosclass, labels/<k>, tags/<k>, id; pod: name, namespace,
//	                          qosclass, labels/<k>, id, uid), map keys that are not clean paths
//	                        - joint keys whose separators are letters, digits, '/' or '.' (cannot be
//	                          told from key characters), joint keys with fewer than two sub-keys,
//	                          joint keys none of whose sub-keys exists under a value operator
//	                        - glob patterns that are not portable (malformed, '[!', ']' or '-' first
//	                          in a class, reversed ranges, '[' inside a class) and wildcards against
//	                          values containing '/'
//	                        - Equals/NotEqual/In/NotIn whose value list holds the literal "*" (the
//	                          implementation's undocumented "any value" wildcard; counted as
//	                          reference_silent_star_value; duality is still checked on them)
//	                      A key that does not exist makes Equals/In/Matches/MatchesAny false and
//	                      their negations true ("true if the value of key equals ..." has no value
//	                      to be equal to).
//	c  joint-ref          Container/Pod.EvalRef(joint key) equals the documented sub-key values
//	                      joined by the value separator, missing sub-keys being empty, existing if
//	                      any sub-key exists
//	   joint-join         the same relation stated on the implementation's own single-key results:
//	                      EvalRef(joint) == join(EvalRef(sub_i)) (isolates the joining mechanism
//	                      from single-key resolution defects)
//	d  validated-panics   an expression accepted by Validate() never panics in Evaluate
//
// "affinity" (clause e): a pod annotated with resource-policy.nri.io/affinity and/or
// /anti-affinity in the shorthand or the full syntax, weights omitted / zero / in range / far out
// of range / not representable. Every Affinity returned by Container.GetAffinity() must have
// weight in [-1000, 1000] ("weight-range"); when only one of the two annotations is present and
// it parsed, the weights must be the documented ones ("weight-value": omitted -> +1 / -1; given w
// -> w clamped for affinities, -w clamped for anti-affinities with positive w; a negative weight
// on an anti-affinity and an explicit 0 are unspecified and not checked).
//
// "balloon" (clause f): the real balloons policy behind the real resource manager (rmdrv.NewInst
// on the catalogue machine m04), 3–8 balloon types in random order with namespace globs and
// matchExpressions over name / labels / pod labels / namespace / qosclass, "reserved"/"default"
// sometimes configured explicitly at a random position, reservedPoolNamespaces sometimes set;
// 2–3 pods with 1–2 containers each requesting 10 mCPU (16 CPUs: capacity never decides).
// Expected type, from docs/resource-policy/policy/balloons.md: effective
// balloon.balloons.resource-policy.nri.io annotation (container > pod > bare) names the type and
// an unknown name makes CreateContainer fail; otherwise the first type in list order with a
// matching expression or namespace pattern; otherwise "default"; kube-system and
// reservedPoolNamespaces match the "reserved" type, which is first in the list unless configured
// explicitly. Observed type: the balloon (policy snapshot) the container was assigned to.
//
// ctx.See rule (distinct NON-TRIVIAL cases):
//
//	expr     the reference is defined, the key exists on the subject and the operator is not
//	         AlwaysTrue; hash of (subject kind, key, operator, values, value of the key)
//	affinity at least one explicit weight; hash of the annotation texts
//	balloon  per placed container: an annotation decided, or at least two types would match, or a
//	         reserved namespace is involved; hash of (type list, rules, namespace, names, labels)

import (
	"crypto/sha1"
	"encoding/hex"
	"encoding/json"
	"fmt"
	"os"
	"path/filepath"
	"sort"
	"strconv"
	"strings"
	"time"

	"github.com/containerd/nri/pkg/api"
	blncfg "github.com/containers/nri-plugins/pkg/apis/config/v1alpha1/resmgr/policy/balloons"
	resmgrapi "github.com/containers/nri-plugins/pkg/apis/resmgr/v1alpha1"
	"github.com/containers/nri-plugins/pkg/resmgr/cache"

	"verif/harness/rmdrv"
	"verif/harness/sysgen"
)

func init() { Register("C19", runC19) }

// ---------------------------------------------------------------------------------------------
// world: plain-data description of pods and containers; the monitor's source of truth
// ---------------------------------------------------------------------------------------------

type c19Pod struct {
	ID     string            `json:"id"`
	UID    string            `json:"uid"`
	Name   string            `json:"name"`
	NS     string            `json:"ns"`
	QoS    string            `json:"qos"` // Guaranteed | Burstable | BestEffort
	Labels map[string]string `json:"labels,omitempty"`
	Ann    map[string]string `json:"ann,omitempty"`
	Gone   bool              `json:"gone,omitempty"` // deleted from the cache after its containers were inserted
}

type c19Ctr struct {
	ID     string            `json:"id"`
	Pod    int               `json:"pod"`
	Name   string            `json:"name"`
	Labels map[string]string `json:"labels,omitempty"`
	Tags   map[string]string `json:"tags,omitempty"`
}

type c19World struct {
	Pods []c19Pod `json:"pods"`
	Ctrs []c19Ctr `json:"ctrs"`
}

func c19CopyMap(m map[string]string) map[string]string {
	r := map[string]string{}
	for k, v := range m {
		r[k] = v
	}
	return r
}

func c19Sorted(m map[string]string) []string {
	var k []string
	for x := range m {
		k = append(k, x)
	}
	sort.Strings(k)
	return k
}

// the kubelet's cgroup layout: the QoS class of a pod is visible in its cgroup parent
func (p *c19Pod) cgroupParent() string {
	switch p.QoS {
	case "BestEffort":
		return "/kubepods.slice/kubepods-besteffort.slice/kubepods-besteffort-pod" + p.UID + ".slice"
	case "Burstable":
		return "/kubepods.slice/kubepods-burstable.slice/kubepods-burstable-pod" + p.UID + ".slice"
	}
	return "/kubepods.slice/kubepods-pod" + p.UID + ".slice"
}

// fresh objects every time: the cache keeps and mutates what it is given
func (p *c19Pod) api() *api.PodSandbox {
	return &api.PodSandbox{
		Id: p.ID, Uid: p.UID, Name: p.Name, Namespace: p.NS,
		Labels: c19CopyMap(p.Labels), Annotations: c19CopyMap(p.Ann),
		Linux: &api.LinuxPodSandbox{CgroupParent: p.cgroupParent()},
	}
}

func (w *c19World) apiCtr(i int) *api.Container {
	c := &w.Ctrs[i]
	p := &w.Pods[c.Pod]
	return &api.Container{
		Id: c.ID, PodSandboxId: p.ID, Name: c.Name, State: api.ContainerState_CONTAINER_CREATED,
		Labels: c19CopyMap(c.Labels), Annotations: map[string]string{},
		Args: []string{"/bin/sleep", "inf"}, Env: []string{"PATH=/bin"},
		Linux: &api.LinuxContainer{
			Resources: &api.LinuxResources{
				Cpu:    &api.LinuxCPU{Shares: api.UInt64(10)}, // 10 mCPU request
				Memory: &api.LinuxMemory{},
			},
			OomScoreAdj: api.Int(900),
			CgroupsPath: p.cgroupParent() + "/cri-containerd-" + c.ID + ".scope",
		},
	}
}

// c19Real is the world inserted into a real cache.
type c19Real struct {
	cch  cache.Cache
	pods []cache.Pod
	ctrs []cache.Container
}

func c19Build(dir string, w *c19World) (*c19Real, error) {
	os.RemoveAll(dir)
	if err := os.MkdirAll(dir, 0o755); err != nil {
		return nil, err
	}
	cch, err := cache.NewCache(cache.Options{CacheDir: dir})
	if err != nil {
		return nil, err
	}
	r := &c19Real{cch: cch}
	for i := range w.Pods {
		r.pods = append(r.pods, cch.InsertPod(w.Pods[i].api(), nil))
	}
	for i := range w.Ctrs {
		c, err := cch.InsertContainer(w.apiCtr(i))
		if err != nil {
			return nil, err
		}
		for _, k := range c19Sorted(w.Ctrs[i].Tags) {
			c.SetTag(k, w.Ctrs[i].Tags[k])
		}
		r.ctrs = append(r.ctrs, c)
	}
	for i := range w.Pods {
		if w.Pods[i].Gone {
			cch.DeletePod(w.Pods[i].ID) // its containers stay behind as orphans
		}
	}
	return r, nil
}

func (r *c19Real) subject(kind string, idx int) resmgrapi.Evaluable {
	if kind == "pod" {
		return r.pods[idx]
	}
	return r.ctrs[idx]
}

// ---------------------------------------------------------------------------------------------
// the reference evaluator (from the documentation only)
// ---------------------------------------------------------------------------------------------

// c19Glob: portable shell-style globbing. defined=false where the documentation's "globbing
// pattern" does not fix the meaning.
type c19Tok struct {
	kind   byte // 'l' literal, '?' any one, '*' any sequence, '[' class
	c      byte
	neg    bool
	ranges [][2]byte
}

func c19ParseGlob(p string) ([]c19Tok, bool) {
	var t []c19Tok
	for i := 0; i < len(p); i++ {
		ch := p[i]
		if ch >= 0x80 {
			return nil, false
		}
		switch ch {
		case '*':
			t = append(t, c19Tok{kind: '*'})
		case '?':
			t = append(t, c19Tok{kind: '?'})
		case '\\':
			if i+1 >= len(p) {
				return nil, false
			}
			i++
			t = append(t, c19Tok{kind: 'l', c: p[i]})
		case '[':
			tok := c19Tok{kind: '['}
			i++
			if i < len(p) && p[i] == '^' {
				tok.neg = true
				i++
			}
			if i < len(p) && p[i] == '!' {
				return nil, false
			}
			closed := false
			for i < len(p) {
				if p[i] == ']' {
					if len(tok.ranges) == 0 {
						return nil, false
					}
					closed = true
					break
				}
				item := func() (byte, bool) {
					if i >= len(p) {
						return 0, false
					}
					c := p[i]
					if c == '-' || c == ']' || c == '[' || c >= 0x80 {
						return 0, false
					}
					if c == '\\' {
						i++
						if i >= len(p) {
							return 0, false
						}
						c = p[i]
					}
					i++
					return c, true
				}
				lo, ok := item()
				if !ok {
					return nil, false
				}
				hi := lo
				if i < len(p) && p[i] == '-' {
					i++
					hi, ok = item()
					if !ok || hi < lo {
						return nil, false
					}
				}
				tok.ranges = append(tok.ranges, [2]byte{lo, hi})
			}
			if !closed {
				return nil, false
			}
			t = append(t, tok)
		default:
			t = append(t, c19Tok{kind: 'l', c: ch})
		}
	}
	return t, true
}

func c19MatchToks(t []c19Tok, s string) bool {
	if len(t) == 0 {
		return s == ""
	}
	switch t[0].kind {
	case '*':
		for k := 0; k <= len(s); k++ {
			if c19MatchToks(t[1:], s[k:]) {
				return true
			}
		}
		return false
	case '?':
		return len(s) > 0 && c19MatchToks(t[1:], s[1:])
	case 'l':
		return len(s) > 0 && s[0] == t[0].c && c19MatchToks(t[1:], s[1:])
	case '[':
		if len(s) == 0 {
			return false
		}
		in := false
		for _, r := range t[0].ranges {
			if r[0] <= s[0] && s[0] <= r[1] {
				in = true
			}
		}
		return in != t[0].neg && c19MatchToks(t[1:], s[1:])
	}
	return false
}

func c19Glob(pattern, s string) (match, defined bool) {
	t, ok := c19ParseGlob(pattern)
	if !ok {
		return false, false
	}
	wild := false
	for _, x := range t {
		if x.kind != 'l' {
			wild = true
		}
	}
	for i := 0; i < len(s); i++ {
		if s[i] >= 0x80 || wild && s[i] == '/' {
			return false, false
		}
	}
	return c19MatchToks(t, s), true
}

func c19CleanMapKey(k string) bool {
	if k == "" || strings.HasPrefix(k, "/") || strings.HasSuffix(k, "/") {
		return false
	}
	for _, seg := range strings.Split(k, "/") {
		if seg == "" || seg == "." || seg == ".." {
			return false
		}
	}
	return true
}

type c19Val struct {
	val     string
	exists  bool
	defined bool // the documentation says what this key is
	podQoS  bool // the value is the qosclass of a POD object
	star    bool // undefined because the value list of an equality operator holds the literal "*"
}

func (w *c19World) refPodKey(p *c19Pod, key string) c19Val {
	switch key {
	case "name":
		return c19Val{val: p.Name, exists: true, defined: true}
	case "namespace":
		return c19Val{val: p.NS, exists: true, defined: true}
	case "qosclass":
		return c19Val{val: p.QoS, exists: true, defined: true, podQoS: true}
	case "id":
		return c19Val{val: p.ID, exists: true, defined: true}
	case "uid":
		return c19Val{val: p.UID, exists: true, defined: true}
	}
	if k, ok := strings.CutPrefix(key, "labels/"); ok && c19CleanMapKey(k) {
		v, ok := p.Labels[k]
		return c19Val{val: v, exists: ok, defined: true}
	}
	return c19Val{}
}

func (w *c19World) refKey(kind string, idx int, key string) c19Val {
	if kind == "pod" {
		return w.refPodKey(&w.Pods[idx], key)
	}
	c := &w.Ctrs[idx]
	p := &w.Pods[c.Pod]
	if p.Gone && (key == "namespace" || key == "qosclass" || strings.HasPrefix(key, "pod/")) {
		return c19Val{} // what an orphaned container says about its pod is not documented
	}
	switch key {
	case "name":
		return c19Val{val: c.Name, exists: true, defined: true}
	case "namespace":
		return c19Val{val: p.NS, exists: true, defined: true}
	case "qosclass":
		return c19Val{val: p.QoS, exists: true, defined: true}
	case "id":
		return c19Val{val: c.ID, exists: true, defined: true}
	}
	if k, ok := strings.CutPrefix(key, "labels/"); ok && c19CleanMapKey(k) {
		v, ok := c.Labels[k]
		return c19Val{val: v, exists: ok, defined: true}
	}
	if k, ok := strings.CutPrefix(key, "tags/"); ok && c19CleanMapKey(k) {
		v, ok := c.Tags[k]
		return c19Val{val: v, exists: ok, defined: true}
	}
	if k, ok := strings.CutPrefix(key, "pod/"); ok {
		return w.refPodKey(p, k)
	}
	return c19Val{}
}

func c19KeyChar(b byte) bool {
	return b >= '0' && b <= '9' || b >= 'a' && b <= 'z' || b >= 'A' && b <= 'Z' || b == '/' || b == '.'
}

// refJoint parses the documented joint-key syntax: ":<colon-separated-subkeys>" or
// ":<ksep><vsep><ksep-separated-subkeys>".
func c19RefJoint(key string) (sub []string, vsep string, joint, defined bool) {
	if !strings.HasPrefix(key, ":") {
		return nil, "", false, true
	}
	rest := key[1:]
	if rest == "" {
		return nil, "", true, false
	}
	if b := rest[0]; b >= 'a' && b <= 'z' || b >= 'A' && b <= 'Z' {
		sub, vsep = strings.Split(rest, ":"), ":"
	} else {
		if len(rest) < 3 || c19KeyChar(rest[0]) || c19KeyChar(rest[1]) || rest[0] >= 0x80 || rest[1] >= 0x80 {
			return nil, "", true, false
		}
		sub, vsep = strings.Split(rest[2:], rest[0:1]), rest[1:2]
	}
	if len(sub) < 2 {
		return sub, vsep, true, false
	}
	return sub, vsep, true, true
}

func (w *c19World) refValue(kind string, idx int, key string) (v c19Val, joint bool) {
	sub, vsep, joint, def := c19RefJoint(key)
	if !joint {
		return w.refKey(kind, idx, key), false
	}
	if !def {
		return c19Val{}, true
	}
	v.defined = true
	var vals []string
	for _, k := range sub {
		s := w.refKey(kind, idx, k)
		if !s.defined {
			return c19Val{podQoS: v.podQoS || s.podQoS}, true
		}
		v.exists = v.exists || s.exists
		v.podQoS = v.podQoS || s.podQoS
		vals = append(vals, s.val) // missing sub-keys are documented to be empty
	}
	v.val = strings.Join(vals, vsep)
	return v, true
}

var c19Dual = map[string]string{
	"Equals": "NotEqual", "NotEqual": "Equals", "In": "NotIn", "NotIn": "In",
	"Matches": "MatchesNot", "MatchesNot": "Matches", "MatchesAny": "MatchesNone", "MatchesNone": "MatchesAny",
	"Exists": "NotExist", "NotExist": "Exists",
}

var c19Negated = map[string]bool{"NotEqual": true, "NotIn": true, "MatchesNot": true, "MatchesNone": true, "NotExist": true}

// refEvaluate: the documented result of (key op values) on a subject.
func (w *c19World) refEvaluate(kind string, idx int, key, op string, values []string) (result, defined bool, v c19Val) {
	if op == "AlwaysTrue" {
		return true, len(values) == 0, v
	}
	v, joint := w.refValue(kind, idx, key)
	if !v.defined {
		return false, false, v
	}
	pos := op
	if c19Negated[op] {
		pos = c19Dual[op]
	}
	if (pos == "Equals" || pos == "In") && c19HasStar(values) {
		// the implementation treats the value "*" of Equals/NotEqual/In/NotIn as "any value"; the
		// documentation neither mentions nor excludes it, so the reference says nothing
		v.star = true
		return false, false, v
	}
	var r bool
	switch pos {
	case "Exists":
		if len(values) != 0 {
			return false, false, v
		}
		r = v.exists
	case "Equals", "Matches":
		if len(values) != 1 {
			return false, false, v
		}
		fallthrough
	case "In", "MatchesAny":
		if !v.exists {
			if joint {
				// "a joint key is considered to exist if any of its subkeys exists" is stated for
				// existence operators only
				return false, false, v
			}
			r = false
			break
		}
		for _, x := range values {
			if pos == "Equals" || pos == "In" {
				r = r || x == v.val
			} else {
				m, def := c19Glob(x, v.val)
				if !def {
					return false, false, v
				}
				r = r || m
			}
		}
	default:
		return false, false, v
	}
	if c19Negated[op] {
		r = !r
	}
	return r, true, v
}

// ---------------------------------------------------------------------------------------------
// generators
// ---------------------------------------------------------------------------------------------

type c19Gen struct{ r *sysgen.RNG }

var (
	c19PodNames  = []string{"web-0", "web-1", "db", "p", "kube-proxy-x7", "cache", "api-5d4f"}
	c19NS        = []string{"default", "kube-system", "ns-a", "ns-b", "prod", "prod-1", "monitoring", "reserved-x", "n"}
	c19QoS       = []string{"Guaranteed", "Burstable", "BestEffort"}
	c19LabelKeys = []string{"app", "tier", "io.test.domain/my-label", "app.kubernetes.io/name", "x", "my-label", "a_b"}
	c19LabelVals = []string{"web", "db", "frontend", "", "a-b", "v1.2", "perf", "batch", "true", "w"}
	c19CtrNames  = []string{"c0", "c1", "c2", "main", "sidecar", "web", "db", "init-1"}
	c19TagKeys   = []string{"prefer-shared", "x", "a:b", "t/u", "k,1", "color"}
	c19TagVals   = []string{"true", "", "a*b", "[x]", "x/y", "back\\slash", "red", "web", "*", "a?c", "q:r"}
)

func (g *c19Gen) labels(keys, vals []string, max int) map[string]string {
	m := map[string]string{}
	for n := g.r.Intn(max + 1); n > 0; n-- {
		m[sysgen.Pick(g.r, keys)] = sysgen.Pick(g.r, vals)
	}
	return m
}

// world generates npods pods with 1–3 containers each; orphans adds (sometimes) one more pod that
// is deleted from the cache again so that its container has no pod.
func (g *c19Gen) world(tag string, npods int, orphans bool) *c19World {
	w := &c19World{}
	gone := -1
	if orphans && g.r.Chance(1, 2) {
		gone = npods
		npods++
	}
	for i := 0; i < npods; i++ {
		p := c19Pod{
			ID: fmt.Sprintf("%spod%02d%s", tag, i, strings.Repeat("a", 6)), UID: fmt.Sprintf("uid-%s-%02d", tag, i),
			Name: sysgen.Pick(g.r, c19PodNames), NS: sysgen.Pick(g.r, c19NS), QoS: sysgen.Pick(g.r, c19QoS),
			Labels: g.labels(c19LabelKeys, c19LabelVals, 3),
			Gone:   i == gone,
		}
		w.Pods = append(w.Pods, p)
		used := map[string]bool{}
		for n := g.r.Range(1, 3); n > 0; n-- {
			name := sysgen.Pick(g.r, c19CtrNames)
			if used[name] {
				continue
			}
			used[name] = true
			c := c19Ctr{ID: fmt.Sprintf("%sctr%02d%s", tag, len(w.Ctrs), strings.Repeat("b", 6)), Pod: i, Name: name,
				Labels: g.labels(c19LabelKeys, c19LabelVals, 2), Tags: g.labels(c19TagKeys, c19TagVals, 3)}
			c.Labels["io.kubernetes.container.name"] = name
			w.Ctrs = append(w.Ctrs, c)
		}
	}
	return w
}

// docKey picks one documented single key for the subject; safe excludes pod-level qosclass.
func (g *c19Gen) docKey(w *c19World, kind string, idx int, safe bool) string {
	r := g.r
	mapKey := func(have map[string]string, pool []string) string {
		k := c19Sorted(have)
		if len(k) > 0 && r.Chance(2, 3) {
			return sysgen.Pick(r, k)
		}
		return sysgen.Pick(r, pool)
	}
	podKey := func(p *c19Pod) string {
		switch r.Intn(8) {
		case 0:
			return "name"
		case 1:
			return "namespace"
		case 2:
			if safe {
				return "name"
			}
			return "qosclass"
		case 3:
			return "id"
		case 4:
			return "uid"
		}
		return "labels/" + mapKey(p.Labels, c19LabelKeys)
	}
	if kind == "pod" {
		return podKey(&w.Pods[idx])
	}
	c := &w.Ctrs[idx]
	switch r.Intn(15) {
	case 0, 1:
		return "name"
	case 2:
		return "namespace"
	case 3:
		return "qosclass"
	case 4:
		return "id"
	case 5, 6, 7:
		return "labels/" + mapKey(c.Labels, c19LabelKeys)
	case 8, 9, 10:
		if safe {
			return "labels/" + mapKey(c.Labels, c19LabelKeys)
		}
		return "tags/" + mapKey(c.Tags, c19TagKeys)
	}
	return "pod/" + podKey(&w.Pods[c.Pod])
}

var (
	c19Seps     = []string{":", ",", ";", "|", "+", " ", "#", "@", "%", "-", "_", "=", "~", "!", "$", "&", "(", ")", "<", ">", "?", "*", "[", "]", "{", "}", "^", "\"", "'", "`", "\\"}
	c19BadSeps  = []string{"a", "Z", "0", "9", "/", "."}
	c19WildKeys = []string{"", "pod", "labels", "labels/", "tags", "tags/", "uid", "pod/pod/name", "pod/tags/x", "foo", "name/x", "/name", "//name",
		"pod//name", "./name", "name/.", "labels/../name", "pod/../name", ":", "::", ":::", "::::", ":,", ":,;", ":,;name", ":a", ":ab", ":abc", ":id",
		"pod/", "pod/labels", "pod/labels/", ":name:", ":name::id", "\x00", "pod/pod", "labels//app", "labels/app/", "id/", "qosclass/x", "uid/x",
		"pod/name/x", "Name", "POD/name", " name", "name ", ":::", ":,;,", "::name:id", ":.,name.id", "pod/:name:id", ":pod", "tags", ":tags/x:labels",
		"näme", ":éname", ":é,name,id", ":,éname,id", "labels/ключ", ":名:name:id", "tags/\u00a0"}
	c19Ops = []string{"Equals", "NotEqual", "In", "NotIn", "Exists", "NotExist", "AlwaysTrue", "Matches", "MatchesNot", "MatchesAny", "MatchesNone"}
)

func (g *c19Gen) key(w *c19World, kind string, idx int, wild, safe bool) string {
	r := g.r
	if wild && r.Chance(1, 2) {
		if r.Chance(2, 3) {
			return sysgen.Pick(r, c19WildKeys)
		}
		// random concatenation of key tokens
		toks := []string{"pod", "name", "labels", "tags", "id", "uid", "namespace", "qosclass", "app", "x", "", ".", ".."}
		var parts []string
		for n := r.Range(1, 4); n > 0; n-- {
			parts = append(parts, sysgen.Pick(r, toks))
		}
		k := strings.Join(parts, "/")
		if r.Chance(1, 3) {
			k = ":" + k + ":" + sysgen.Pick(r, toks)
		}
		return k
	}
	if r.Chance(3, 5) {
		return g.docKey(w, kind, idx, safe)
	}
	// joint key
	n := r.Range(2, 4)
	if wild && r.Chance(1, 6) {
		n = 1
	}
	var sub []string
	for i := 0; i < n; i++ {
		if wild && r.Chance(1, 6) {
			sub = append(sub, sysgen.Pick(r, c19WildKeys))
		} else {
			sub = append(sub, g.docKey(w, kind, idx, safe))
		}
	}
	if r.Chance(1, 3) {
		return ":" + strings.Join(sub, ":")
	}
	ksep, vsep := sysgen.Pick(r, c19Seps), sysgen.Pick(r, c19Seps)
	if wild && r.Chance(1, 3) {
		if r.Chance(1, 2) {
			ksep = sysgen.Pick(r, c19BadSeps)
		} else {
			vsep = sysgen.Pick(r, c19BadSeps)
		}
	}
	return ":" + ksep + vsep + strings.Join(sub, ksep)
}

func c19EscapeGlob(s string) string {
	var b strings.Builder
	for i := 0; i < len(s); i++ {
		switch s[i] {
		case '*', '?', '[', ']', '\\':
			b.WriteByte('\\')
		}
		b.WriteByte(s[i])
	}
	return b.String()
}

// value produces one value / pattern, preferably related to base (the actual value of the key).
func (g *c19Gen) value(base string, glob, wild, safe bool) string {
	r := g.r
	if base == "" || r.Chance(1, 5) {
		base = sysgen.Pick(r, append(append([]string{}, c19LabelVals...), c19CtrNames...))
	}
	if !glob {
		switch r.Intn(10) {
		case 0:
			return base + "x"
		case 1:
			if len(base) > 1 {
				return base[:len(base)-1]
			}
		case 2:
			if safe {
				return base
			}
			return "*"
		case 3:
			return ""
		case 4:
			return strings.ToUpper(base)
		}
		return base
	}
	esc := c19EscapeGlob(base)
	n := len(base)
	switch r.Intn(16) {
	case 0:
		return esc
	case 1:
		return "*"
	case 2:
		if n > 1 {
			return c19EscapeGlob(base[:n/2]) + "*"
		}
	case 3:
		if n > 1 {
			return "*" + c19EscapeGlob(base[n/2:])
		}
	case 4:
		if n > 0 {
			i := r.Intn(n)
			return c19EscapeGlob(base[:i]) + "?" + c19EscapeGlob(base[i+1:])
		}
	case 5:
		if n > 0 && base[0] < 0x80 && base[0] != '-' && base[0] != ']' && base[0] != '[' && base[0] != '\\' && base[0] != '^' && base[0] != '!' {
			return "[" + base[:1] + "]" + c19EscapeGlob(base[1:])
		}
	case 6:
		if n > 0 {
			return "[a-z0-9]" + c19EscapeGlob(base[1:])
		}
	case 7:
		if n > 0 {
			return "[^a-m]" + c19EscapeGlob(base[1:])
		}
	case 8:
		return strings.Repeat("?", n)
	case 9:
		if n > 2 {
			return "*" + c19EscapeGlob(base[1:n-1]) + "*"
		}
	case 10:
		return esc + "*"
	case 11:
		return base // unescaped: meta characters in the value act as pattern
	case 12:
		if wild {
			return sysgen.Pick(r, []string{"[", "[]", "[a", "a[", "\\", "[!a]*", "[z-a]", "[a-]", "[]a]", "[^]", "[[]", "*[", "a\\", "[a-z", "[\\"})
		}
	case 13:
		return "*" + "*"
	case 14:
		return esc + "?"
	}
	return esc
}

type c19Expr struct {
	Key    string   `json:"key"`
	Op     string   `json:"op"`
	Values []string `json:"values"`
}

func (e *c19Expr) real() *resmgrapi.Expression {
	return &resmgrapi.Expression{Key: e.Key, Op: resmgrapi.Operator(e.Op), Values: append([]string(nil), e.Values...)}
}

// expr generates one expression for a subject. safe: only constructs on which the reference is
// defined and which avoid the two input classes with known deviations (used for balloon types).
func (g *c19Gen) expr(w *c19World, kind string, idx int, wild, safe bool) c19Expr {
	r := g.r
	e := c19Expr{Key: g.key(w, kind, idx, wild, safe), Op: sysgen.Pick(r, c19Ops)}
	if safe {
		for e.Op == "AlwaysTrue" {
			e.Op = sysgen.Pick(r, c19Ops)
		}
	}
	if wild && r.Chance(1, 10) {
		e.Op = sysgen.Pick(r, []string{"NotExists", "", "Foo", "equals", "in"})
	}
	base := ""
	if v, _ := w.refValue(kind, idx, e.Key); v.defined && v.exists {
		base = v.val
	}
	glob := strings.HasPrefix(e.Op, "Matches")
	n := 0
	switch e.Op {
	case "Equals", "NotEqual", "Matches", "MatchesNot":
		n = 1
	case "In", "NotIn", "MatchesAny", "MatchesNone":
		n = r.Range(0, 4)
		if safe {
			n = r.Range(1, 3)
		}
	}
	if wild && r.Chance(1, 4) {
		n = r.Range(0, 4)
	}
	e.Values = []string{}
	for i := 0; i < n; i++ {
		e.Values = append(e.Values, g.value(base, glob, wild, safe))
	}
	return e
}

// ---------------------------------------------------------------------------------------------
// clauses a–d: expression cases
// ---------------------------------------------------------------------------------------------

type c19Case struct {
	Kind  string    `json:"kind"` // expr | affinity | balloon
	World *c19World `json:"world"`
	// expr
	Subj string   `json:"subj,omitempty"` // pod | ctr
	Idx  int      `json:"idx"`
	Expr *c19Expr `json:"expr,omitempty"`
	// affinity
	Aff *c19AffSpec `json:"aff,omitempty"`
	// balloon
	Bln *c19BlnSpec `json:"bln,omitempty"`
}

func c19Hash(parts ...interface{}) string {
	h := sha1.New()
	b, _ := json.Marshal(parts)
	h.Write(b)
	return hex.EncodeToString(h.Sum(nil))[:16]
}

func c19KeyClass(key string) string {
	if strings.HasPrefix(key, ":") {
		return "joint"
	}
	if i := strings.Index(key, "/"); i >= 0 {
		if strings.HasPrefix(key, "pod/") {
			rest := key[4:]
			if j := strings.Index(rest, "/"); j >= 0 {
				return "pod/" + rest[:j]
			}
			return key
		}
		return key[:i]
	}
	return key
}

func c19HasStar(values []string) bool {
	for _, v := range values {
		if v == "*" {
			return true
		}
	}
	return false
}

func c19RunExpr(ctx *Ctx, real *c19Real, cs *c19Case) {
	w, e := cs.World, cs.Expr
	subj := real.subject(cs.Subj, cs.Idx)
	ctx.Count("expr_cases")
	ctx.Count("op_" + e.Op)
	if cs.Subj == "ctr" && w.Pods[w.Ctrs[cs.Idx].Pod].Gone {
		ctx.Count("subject_orphan_container")
	} else {
		ctx.Count("subject_" + cs.Subj)
	}
	var verr error
	if msg, site := Guard(func() { verr = e.real().Validate() }); msg != "" {
		ctx.Count("validate_panics")
		ctx.Violate("validate-panics", site, cs, "Validate() panicked on %+v: %s", *e, msg)
		return
	}
	eval := func(op string) (res bool, panicked string, site string) {
		x := e.real()
		x.Op = resmgrapi.Operator(op)
		panicked, site = Guard(func() { res = x.Evaluate(subj) })
		return
	}
	ctx.Eval()
	got, pmsg, psite := eval(e.Op)
	if verr == nil {
		ctx.Count("validated")
	} else {
		ctx.Count("rejected_by_validate")
	}
	if pmsg != "" {
		if verr == nil {
			ctx.Violate("validated-panics", psite, cs, "Validate() accepted %+v but Evaluate panicked on %s %d: %s", *e, cs.Subj, cs.Idx, pmsg)
		} else {
			ctx.Count("panics_of_rejected_expressions")
		}
		return
	}
	// a. duality
	if dual, ok := c19Dual[e.Op]; ok {
		ctx.Eval()
		got2, pmsg2, psite2 := eval(dual)
		switch {
		case pmsg2 != "":
			if verr == nil {
				ctx.Violate("validated-panics", psite2, cs, "Evaluate of the dual operator %s panicked: %s", dual, pmsg2)
			}
		case got == got2:
			pair := e.Op + "/" + dual
			if c19Negated[e.Op] {
				pair = dual + "/" + e.Op
			}
			sig := pair
			if c19HasStar(e.Values) && (pair == "Equals/NotEqual" || pair == "In/NotIn") {
				sig += ":star-value"
			}
			if verr != nil {
				sig += ":rejected-by-validate"
			}
			ctx.Violate("duality", sig, cs, "%s and %s both evaluate to %v for key %q values %q on %s %d", e.Op, dual, got, e.Key, e.Values, cs.Subj, cs.Idx)
		default:
			ctx.Count("dual_pairs_ok")
		}
	}
	// b. reference
	want, defined, v := w.refEvaluate(cs.Subj, cs.Idx, e.Key, e.Op, e.Values)
	switch {
	case verr != nil:
		if defined && e.Op != "AlwaysTrue" {
			ctx.Count("documented_but_rejected_by_validate")
			if ctx.Verbose {
				fmt.Printf("DOCUMENTED-BUT-REJECTED %s %+v: %v\n", cs.Subj, *e, verr)
			}
		}
	case !defined && v.star:
		ctx.Count("reference_silent_star_value")
	case !defined:
		ctx.Count("reference_silent")
	default:
		ctx.Count("reference_compared")
		if v.exists && e.Op != "AlwaysTrue" {
			ctx.See(c19Hash("expr", cs.Subj, e.Key, e.Op, e.Values, v.val))
			ctx.Count("expr_nontrivial")
		}
		if want {
			ctx.Count("reference_true")
		}
		if want != got {
			sig := "evaluate:" + e.Op + ":" + c19KeyClass(e.Key)
			if v.podQoS {
				sig = "pod/qosclass"
			}
			ctx.Violate("reference", sig, cs, "%s %d: <%s %s %q> evaluates to %v, documented semantics give %v (value of key per documentation: %q, exists %v)",
				cs.Subj, cs.Idx, e.Key, e.Op, e.Values, got, want, v.val, v.exists)
		}
	}
	// c. joint keys
	sub, vsep, joint, jdef := c19RefJoint(e.Key)
	if joint && jdef {
		var gotV string
		var gotOK bool
		if msg, site := Guard(func() { gotV, gotOK = subj.EvalRef(e.Key) }); msg != "" {
			ctx.Count("evalref_panics")
			ctx.Violate("joint-panics", site, cs, "EvalRef(%q) panicked: %s", e.Key, msg)
			return
		}
		ctx.Eval()
		ctx.Count("joint_keys")
		if rv, _ := w.refValue(cs.Subj, cs.Idx, e.Key); rv.defined {
			if rv.exists && gotV != rv.val || gotOK != rv.exists {
				sig := "joint"
				if rv.podQoS {
					sig = "pod/qosclass"
				}
				ctx.Violate("joint-ref", sig, cs, "%s %d: EvalRef(%q) = (%q,%v), documented value (%q,%v)", cs.Subj, cs.Idx, e.Key, gotV, gotOK, rv.val, rv.exists)
			}
		}
		nested := false
		for _, k := range sub {
			nested = nested || strings.HasPrefix(k, ":")
		}
		if !nested {
			var vals []string
			any := false
			for _, k := range sub {
				sv, sok := subj.EvalRef(k)
				if !sok {
					sv = ""
				}
				any = any || sok
				vals = append(vals, sv)
			}
			ctx.Eval()
			if wantV := strings.Join(vals, vsep); gotOK != any || any && gotV != wantV {
				ctx.Violate("joint-join", "joint", cs, "%s %d: EvalRef(%q) = (%q,%v) but its sub-keys %q evaluate to %q (any exists: %v)", cs.Subj, cs.Idx, e.Key, gotV, gotOK, sub, vals, any)
			}
		}
	}
}

// ---------------------------------------------------------------------------------------------
// clause e: affinity weights
// ---------------------------------------------------------------------------------------------

type c19AffEntry struct {
	Weight string `json:"weight"` // literal as written; "" = omitted
	Null   bool   `json:"null,omitempty"`
}

type c19AffAnn struct {
	Simple  bool                     `json:"simple"`
	Entries map[string][]c19AffEntry `json:"entries,omitempty"` // full syntax: per container name
	Text    string                   `json:"text"`
}

type c19AffSpec struct {
	Affinity *c19AffAnn `json:"affinity,omitempty"`
	Anti     *c19AffAnn `json:"anti,omitempty"`
}

var (
	// literals every YAML reader takes for an int32
	c19WeightsOK = []string{"", "", "", "0", "1", "-1", "5", "-5", "42", "999", "1000", "1001", "-999", "-1000", "-1001", "2000", "-2000", "65536",
		"-65536", "1000000", "2147483647", "-2147483647", "-2147483648"}
	// overflowing, non-integer and exotic spellings: rejected or read in some other way
	c19WeightsOdd = []string{"2147483648", "-2147483649", "4294967296", "4294967297", "9223372036854775807", "99999999999999999999",
		"1e3", "1.5", "\"7\"", "0x7fffffff", "true", "1_000", "+5", "01750", "0o17", "-0", "1e10", ".inf", "~"}
)

func (g *c19Gen) weight() string {
	if g.r.Chance(1, 12) {
		return sysgen.Pick(g.r, c19WeightsOdd)
	}
	return sysgen.Pick(g.r, c19WeightsOK)
}

func (g *c19Gen) affAnn(w *c19World) *c19AffAnn {
	r := g.r
	a := &c19AffAnn{Simple: r.Chance(1, 4)}
	names := []string{}
	for _, c := range w.Ctrs {
		names = append(names, c.Name)
	}
	names = append(names, "ghost")
	var b strings.Builder
	if a.Simple {
		for _, n := range names {
			if r.Chance(1, 2) {
				fmt.Fprintf(&b, "%s: [ %s ]\n", n, strings.Join([]string{sysgen.Pick(r, names), sysgen.Pick(r, names)}[:r.Range(1, 2)], ", "))
			}
		}
		if b.Len() == 0 {
			fmt.Fprintf(&b, "%s: [ %s ]\n", names[0], names[len(names)-1])
		}
		a.Text = b.String()
		return a
	}
	a.Entries = map[string][]c19AffEntry{}
	flow := r.Chance(1, 3)
	var flowParts []string
	for _, n := range names {
		if !r.Chance(2, 3) {
			continue
		}
		var ents []c19AffEntry
		var flowEnts []string
		if !flow {
			fmt.Fprintf(&b, "%s:\n", n)
		}
		for k := r.Range(1, 3); k > 0; k-- {
			ent := c19AffEntry{Weight: g.weight()}
			if r.Chance(1, 100) {
				ent.Null = true
			}
			ents = append(ents, ent)
			m := g.expr(w, "ctr", r.Intn(len(w.Ctrs)), false, true)
			var sc *c19Expr
			if r.Chance(1, 3) {
				x := g.expr(w, "ctr", r.Intn(len(w.Ctrs)), false, true)
				sc = &x
			}
			if ent.Null {
				if flow {
					flowEnts = append(flowEnts, "null")
				} else {
					b.WriteString("- null\n")
				}
				continue
			}
			if flow {
				mj, _ := json.Marshal(map[string]interface{}{"key": m.Key, "operator": m.Op, "values": m.Values})
				s := `{"match":` + string(mj)
				if sc != nil {
					sj, _ := json.Marshal(map[string]interface{}{"key": sc.Key, "operator": sc.Op, "values": sc.Values})
					s += `,"scope":` + string(sj)
				}
				if ent.Weight != "" {
					s += `,"weight":` + ent.Weight
				}
				flowEnts = append(flowEnts, s+"}")
				continue
			}
			first := "- "
			block := func(what string, x *c19Expr) {
				kj, _ := json.Marshal(x.Key)
				fmt.Fprintf(&b, "%s%s:\n    key: %s\n    operator: %s\n", first, what, kj, x.Op)
				first = "  "
				if len(x.Values) > 0 {
					b.WriteString("    values:\n")
					for _, v := range x.Values {
						vj, _ := json.Marshal(v)
						fmt.Fprintf(&b, "    - %s\n", vj)
					}
				}
			}
			if sc != nil {
				block("scope", sc)
			}
			block("match", &m)
			if ent.Weight != "" {
				fmt.Fprintf(&b, "  weight: %s\n", ent.Weight)
			}
		}
		a.Entries[n] = ents
		if flow {
			nj, _ := json.Marshal(n)
			flowParts = append(flowParts, string(nj)+":["+strings.Join(flowEnts, ",")+"]")
		}
	}
	if flow {
		a.Text = "{" + strings.Join(flowParts, ",") + "}"
	} else {
		a.Text = b.String()
	}
	return a
}

func (g *c19Gen) affCase(n int) *c19Case {
	w := g.world(fmt.Sprintf("a%d", n), 1, false)
	for len(w.Ctrs) < 2 {
		w = g.world(fmt.Sprintf("a%d", n), 1, false)
	}
	sp := &c19AffSpec{}
	switch g.r.Intn(3) {
	case 0:
		sp.Affinity = g.affAnn(w)
	case 1:
		sp.Anti = g.affAnn(w)
	default:
		sp.Affinity, sp.Anti = g.affAnn(w), g.affAnn(w)
	}
	w.Pods[0].Ann = map[string]string{}
	if sp.Affinity != nil {
		w.Pods[0].Ann["resource-policy.nri.io/affinity"] = sp.Affinity.Text
	}
	if sp.Anti != nil {
		w.Pods[0].Ann["resource-policy.nri.io/anti-affinity"] = sp.Anti.Text
	}
	return &c19Case{Kind: "affinity", World: w, Aff: sp}
}

func c19Clamp(v int64) int64 {
	if v > 1000 {
		return 1000
	}
	if v < -1000 {
		return -1000
	}
	return v
}

func c19RunAffinity(ctx *Ctx, dir string, cs *c19Case) {
	ctx.Count("affinity_cases")
	real, err := c19Build(dir, cs.World)
	if err != nil {
		ctx.Count("setup_failed")
		return
	}
	explicit := false
	for _, a := range []*c19AffAnn{cs.Aff.Affinity, cs.Aff.Anti} {
		if a != nil {
			for _, l := range a.Entries {
				for _, e := range l {
					explicit = explicit || e.Weight != ""
				}
			}
		}
	}
	if explicit {
		ctx.See(c19Hash("aff", cs.World.Pods[0].Ann))
	}
	only := cs.Aff.Affinity
	sign := int64(1)
	if only == nil {
		only, sign = cs.Aff.Anti, -1
	} else if cs.Aff.Anti != nil {
		only = nil
	}
	for i, c := range real.ctrs {
		var affs []*cache.Affinity
		var gerr error
		if msg, site := Guard(func() { affs, gerr = c.GetAffinity() }); msg != "" {
			// not a C19 matter (the property does not say parsing never fails); counted and
			// mentioned in the evidence as an observation for C14
			ctx.Count("affinity_panics")
			ctx.Count("affinity_panic@" + site)
			if ctx.Out.Stats["affinity_panics"] == 1 && ctx.Replay == "" && ctx.Work != "" {
				// keep the first one as a replayable observation file (same layout as a witness)
				b, _ := json.MarshalIndent(map[string]interface{}{"prop": "C19", "check": "observation:affinity-panic", "sig": site, "msg": msg, "case": cs}, "", " ")
				os.WriteFile(filepath.Join(ctx.Work, fmt.Sprintf("observation-C19-affinity-panic-%d-%d.json", ctx.Seed, ctx.Shard)), b, 0o644)
			}
			if ctx.Replay != "" || ctx.Verbose {
				fmt.Printf("OBSERVATION property=C19 (not a C19 violation) GetAffinity panicked at %s: %s\n", site, msg)
			}
			return
		}
		ctx.Eval()
		if gerr != nil {
			ctx.Count("affinity_annotation_rejected")
			continue
		}
		ctx.Count("affinity_lists")
		for _, a := range affs {
			ctx.Count("affinities_returned")
			if a.Weight > 1000 || a.Weight < -1000 {
				ctx.Violate("weight-range", "GetAffinity", cs, "container %q: affinity %s has weight %d outside [-1000,1000]", cs.World.Ctrs[i].Name, a.String(), a.Weight)
			}
			if a.Weight == 1000 || a.Weight == -1000 {
				ctx.Count("weights_at_bound")
			}
		}
		if only == nil {
			continue
		}
		if only.Simple {
			for _, a := range affs {
				if int64(a.Weight) != sign {
					ctx.Violate("weight-value", "shorthand", cs, "container %q: shorthand notation gave weight %d, documented %d", cs.World.Ctrs[i].Name, a.Weight, sign)
				}
			}
			continue
		}
		ents := only.Entries[cs.World.Ctrs[i].Name]
		if len(ents) != len(affs) {
			ctx.Count("affinity_count_mismatch") // e.g. duplicate container names; nothing to compare
			continue
		}
		hasNull := false
		for _, e := range ents {
			hasNull = hasNull || e.Null
		}
		if hasNull {
			continue
		}
		for k, e := range ents {
			var want int64
			switch {
			case e.Weight == "":
				want = sign
			default:
				v, perr := strconv.ParseInt(e.Weight, 10, 32)
				if perr != nil || v == 0 || sign < 0 && v < 0 || strings.HasPrefix(strings.TrimLeft(e.Weight, "+-"), "0") || strings.HasPrefix(e.Weight, "+") {
					continue // the annotation parsed although we cannot read the literal / unspecified
				}
				want = c19Clamp(sign * v)
			}
			ctx.Count("weights_compared")
			if int64(affs[k].Weight) != want {
				ctx.Violate("weight-value", "full-syntax", cs, "container %q entry %d: weight literal %q (sign %+d) became %d, documented %d", cs.World.Ctrs[i].Name, k, e.Weight, sign, affs[k].Weight, want)
			}
		}
	}
}

// ---------------------------------------------------------------------------------------------
// clause f: balloon-type selection
// ---------------------------------------------------------------------------------------------

const c19BalloonKey = "balloon.balloons.resource-policy.nri.io"

type c19BlnType struct {
	Name       string    `json:"name"`
	Prio       string    `json:"prio,omitempty"` // allocatorPriority: orders CPU allocation of instances, must not affect type selection
	MinBln     int       `json:"min_balloons,omitempty"`
	Namespaces []string  `json:"namespaces,omitempty"`
	Exprs      []c19Expr `json:"exprs,omitempty"`
}

type c19BlnSpec struct {
	Types []c19BlnType `json:"types"` // configured order
	// ReorderFirst: the policy is started with the same types in reverse order and then reconfigured to Types: "first in
	// configured order" means the order of the configuration in force
	ReorderFirst bool     `json:"reorder_first,omitempty"`
	ReservedNS   []string `json:"reserved_ns,omitempty"`
}

var (
	c19TypeNames = []string{"alpha", "beta", "gamma", "delta", "eps", "zeta", "eta", "theta"}
	c19NSGlobs   = []string{"ns-a", "ns-*", "ns-?", "prod*", "*", "kube-*", "[np]*", "default", "prod-1", "monitoring", "*-1", "n", "reserved-*", "[^k]*"}
)

func (g *c19Gen) blnCase(n int) *c19Case {
	r := g.r
	w := g.world(fmt.Sprintf("b%d", n), r.Range(2, 3), false)
	// at most 2 containers per pod, at most 6 in total
	if len(w.Ctrs) > 6 {
		w.Ctrs = w.Ctrs[:6]
	}
	sp := &c19BlnSpec{}
	perm := c18Perm(r, len(c19TypeNames))
	nt := r.Range(3, 8)
	names := []string{}
	for _, i := range perm[:nt] {
		names = append(names, c19TypeNames[i])
	}
	if r.Chance(1, 3) {
		names[r.Intn(len(names))] = "reserved"
	}
	if r.Chance(1, 3) {
		i := r.Intn(len(names))
		if names[i] != "reserved" {
			names[i] = "default"
		}
	}
	for _, name := range names {
		t := c19BlnType{Name: name, Prio: sysgen.Pick(r, []string{"", "", "low", "normal", "high", "none"})}
		if name != "reserved" && name != "default" && r.Chance(1, 4) {
			t.MinBln = 1 // pre-created instances: instance creation order is by priority, selection order is not
		}
		rules := r.Intn(4) // 0: none, 1: namespaces, 2: expressions, 3: both
		if (name == "reserved" || name == "default") && r.Chance(1, 2) {
			rules = 0
		}
		if rules&1 != 0 {
			for k := r.Range(1, 2); k > 0; k-- {
				t.Namespaces = append(t.Namespaces, sysgen.Pick(r, c19NSGlobs))
			}
		}
		if rules&2 != 0 {
			for k := r.Range(1, 2); k > 0; k-- {
				t.Exprs = append(t.Exprs, g.expr(w, "ctr", r.Intn(len(w.Ctrs)), false, true))
			}
		}
		sp.Types = append(sp.Types, t)
	}
	sp.ReorderFirst = r.Chance(1, 3)
	if r.Chance(1, 2) {
		sp.ReservedNS = []string{sysgen.Pick(r, []string{"reserved-*", "monitoring", "prod*", "ns-b"})}
		if r.Chance(1, 3) {
			sp.ReservedNS = append(sp.ReservedNS, "monitoring")
		}
	}
	// balloon annotations on some pods
	for i := range w.Pods {
		p := &w.Pods[i]
		if !r.Chance(2, 5) {
			continue
		}
		p.Ann = map[string]string{}
		val := func() string {
			if r.Chance(1, 4) {
				return sysgen.Pick(r, []string{"nosuch", "", "Default", "alpha ", "reserved-x", "balloon"})
			}
			if r.Chance(1, 4) {
				return sysgen.Pick(r, []string{"default", "reserved"})
			}
			return sysgen.Pick(r, names)
		}
		if r.Chance(1, 3) {
			p.Ann[c19BalloonKey] = val()
		}
		if r.Chance(1, 3) {
			p.Ann[c19BalloonKey+"/pod"] = val()
		}
		for _, c := range w.Ctrs {
			if c.Pod == i && r.Chance(1, 2) {
				p.Ann[c19BalloonKey+"/container."+c.Name] = val()
			}
		}
		if r.Chance(1, 3) {
			p.Ann[c19BalloonKey+"/container."+sysgen.Pick(r, c19CtrNames)+"x"] = val()
		}
	}
	return &c19Case{Kind: "balloon", World: w, Bln: sp}
}

// c19RefChoose: the documented selection procedure. matching = how many types would match.
func c19RefChoose(w *c19World, sp *c19BlnSpec, ci int) (typ string, wantErr, defined bool, why string, matching int) {
	c := &w.Ctrs[ci]
	p := &w.Pods[c.Pod]
	list := append([]c19BlnType{}, sp.Types...)
	hasRes, hasDef := false, false
	for _, t := range list {
		hasRes = hasRes || t.Name == "reserved"
		hasDef = hasDef || t.Name == "default"
	}
	if !hasRes {
		list = append([]c19BlnType{{Name: "reserved"}}, list...)
	}
	if !hasDef {
		list = append(list, c19BlnType{Name: "default"})
	}
	if v, ok := c18Ref(p.Ann, c19BalloonKey, c.Name); ok {
		for _, t := range list {
			if t.Name == v {
				return v, false, true, "annotation", 0
			}
		}
		return "", true, true, "annotation-unknown", 0
	}
	for _, t := range list {
		hit := false
		for _, e := range t.Exprs {
			r, def, _ := w.refEvaluate("ctr", ci, e.Key, e.Op, e.Values)
			if !def {
				return "", false, false, "", 0
			}
			hit = hit || r
		}
		ns := t.Namespaces
		if t.Name == "reserved" {
			ns = append(append(append([]string{}, ns...), "kube-system"), sp.ReservedNS...)
		}
		for _, g := range ns {
			m, def := c19Glob(g, p.NS)
			if !def {
				return "", false, false, "", 0
			}
			hit = hit || m
		}
		if hit {
			matching++
			if typ == "" {
				typ, why = t.Name, "match"
				if t.Name == "reserved" {
					why = "reserved"
				}
			}
		}
	}
	if typ == "" {
		typ, why = "default", "fallback"
	}
	return typ, false, true, why, matching
}

var c19Bound bool

func c19RunBalloon(ctx *Ctx, cs *c19Case, serial int) {
	ctx.Count("balloon_cases")
	if !c19Bound {
		m := sysgen.Catalogue()[3]
		if err := rmdrv.BindMachine(m, filepath.Join(ctx.Work, "c19-sys", m.Name)); err != nil {
			ctx.Count("setup_failed")
			return
		}
		rmdrv.Quiet()
		c19Bound = true
	}
	w, sp := cs.World, cs.Bln
	bc := &blncfg.Config{
		ReservedResources:      blncfg.Constraints{blncfg.CPU: "1"},
		ReservedPoolNamespaces: append([]string(nil), sp.ReservedNS...),
	}
	for _, t := range sp.Types {
		d := &blncfg.BalloonDef{Name: t.Name, Namespaces: append([]string(nil), t.Namespaces...), AllocatorPriority: blncfg.CPUPriority(t.Prio), MinBalloons: t.MinBln}
		for i := range t.Exprs {
			d.MatchExpressions = append(d.MatchExpressions, *t.Exprs[i].real())
		}
		bc.BalloonDefs = append(bc.BalloonDefs, d)
	}
	stateDir := filepath.Join(ctx.Work, fmt.Sprintf("c19-state-%d", serial))
	os.RemoveAll(stateDir)
	defer os.RemoveAll(stateDir)
	var inst *rmdrv.Inst
	var ierr error
	first := bc
	if sp.ReorderFirst {
		first = bc.DeepCopy()
		for i, j := 0, len(first.BalloonDefs)-1; i < j; i, j = i+1, j-1 {
			first.BalloonDefs[i], first.BalloonDefs[j] = first.BalloonDefs[j], first.BalloonDefs[i]
		}
	}
	if msg, _ := Guard(func() {
		inst, ierr = rmdrv.NewInst(stateDir, &rmdrv.Config{Policy: rmdrv.PolBalloons, Bln: first, Gen: 1})
	}); msg != "" || ierr != nil {
		ctx.Count("balloon_config_rejected")
		if ctx.Replay != "" {
			fmt.Println("replay: instance did not start:", msg, ierr)
		}
		return
	}
	defer inst.Close()
	if sp.ReorderFirst {
		var rerr error
		if msg, _ := Guard(func() {
			rerr = inst.RM.Reconfigure((&rmdrv.Config{Policy: rmdrv.PolBalloons, Bln: bc, Gen: 2}).ResmgrConfig())
		}); msg != "" || rerr != nil {
			ctx.Count("balloon_reorder_reconfigure_rejected")
			return
		}
		ctx.Count("balloon_cases_reordered_by_reconfigure")
	}
	for pi := range w.Pods {
		if err := inst.RM.RunPodSandbox(w.Pods[pi].api()); err != nil {
			ctx.Count("runpod_failed")
			return
		}
	}
	for ci := range w.Ctrs {
		c := &w.Ctrs[ci]
		p := &w.Pods[c.Pod]
		want, wantErr, defined, why, matching := c19RefChoose(w, sp, ci)
		var cerr error
		msg, site := Guard(func() { _, _, cerr = inst.RM.CreateContainer(p.api(), w.apiCtr(ci)) })
		if msg != "" {
			ctx.Count("balloon_create_panics")
			ctx.Count("balloon_create_panic@" + site)
			return
		}
		ctx.Eval()
		if !defined {
			ctx.Count("balloon_reference_silent")
			continue
		}
		ctx.Count("balloon_placements")
		ctx.Count("balloon_why_" + why)
		if why != "fallback" && why != "match" || matching >= 2 {
			ctx.See(c19Hash("bln", sp, p.NS, p.Name, c.Name, p.Labels, c.Labels, p.Ann))
		}
		if matching >= 2 {
			ctx.Count("balloon_order_decided")
		}
		if wantErr {
			if cerr == nil {
				ctx.Violate("balloon-unknown-annotation", "chooseBalloonDef", cs, "container %s/%s is annotated with an unknown balloon type (annotations %v) but CreateContainer succeeded", p.Name, c.Name, p.Ann)
			}
			continue
		}
		if cerr != nil {
			ctx.Count("balloon_unexpected_create_error")
			ctx.Violate("balloon-create-failed", "CreateContainer", cs, "container %s/%s (expected type %q by %s) was refused: %v", p.Name, c.Name, want, why, cerr)
			continue
		}
		got := ""
		for _, b := range inst.BlnSnap().Balloons {
			for _, id := range b.Pods[p.ID] {
				if id == c.ID {
					got = b.Def
				}
			}
		}
		if got != want {
			ctx.Violate("balloon-type", "chooseBalloonDef:"+why, cs, "container %s/%s (namespace %q, pod labels %v, labels %v, annotations %v) landed in balloon type %q, documented selection gives %q (%s); configured order %v",
				p.Name, c.Name, p.NS, p.Labels, c.Labels, p.Ann, got, want, why, c19TypeOrder(sp))
		}
	}
}

func c19TypeOrder(sp *c19BlnSpec) []string {
	var n []string
	for _, t := range sp.Types {
		n = append(n, t.Name)
	}
	return n
}

// ---------------------------------------------------------------------------------------------
// driver
// ---------------------------------------------------------------------------------------------

const c19ExprPerWorld = 250

func runC19(ctx *Ctx) {
	dir := filepath.Join(ctx.Work, "c19-cache")
	defer os.RemoveAll(dir)
	defer os.RemoveAll(filepath.Join(ctx.Work, "c19-sys"))
	if ctx.Replay != "" {
		cs := &c19Case{}
		if err := LoadCase(ctx.Replay, cs); err != nil || cs.World == nil {
			fmt.Println("replay: cannot load case:", err)
			ctx.Violate("replay", "load", nil, "cannot load %s: %v", ctx.Replay, err)
			return
		}
		switch cs.Kind {
		case "expr":
			real, err := c19Build(dir, cs.World)
			if err != nil {
				fmt.Println("replay: cannot build world:", err)
				return
			}
			c19RunExpr(ctx, real, cs)
		case "affinity":
			c19RunAffinity(ctx, dir, cs)
		case "balloon":
			c19RunBalloon(ctx, cs, 0)
		}
		return
	}
	t0 := time.Now()
	g := &c19Gen{r: ctx.RNG.Fork()}
	// clauses a–d
	var (
		w    *c19World
		real *c19Real
	)
	for i := 0; i < ctx.N; i++ {
		if i%c19ExprPerWorld == 0 {
			w = g.world(fmt.Sprintf("w%d", i/c19ExprPerWorld), g.r.Range(2, 4), true)
			var err error
			if real, err = c19Build(dir, w); err != nil {
				ctx.Count("setup_failed")
				return
			}
			ctx.Count("worlds")
		}
		cs := &c19Case{Kind: "expr", World: w, Subj: "ctr"}
		if g.r.Chance(1, 4) {
			cs.Subj = "pod"
			cs.Idx = g.r.Intn(len(w.Pods))
		} else {
			cs.Idx = g.r.Intn(len(w.Ctrs))
		}
		e := g.expr(w, cs.Subj, cs.Idx, g.r.Chance(1, 4), false)
		cs.Expr = &e
		if i == 0 {
			ctx.Sample(cs)
		}
		c19RunExpr(ctx, real, cs)
	}
	t1 := time.Now()
	// clause e
	ga := &c19Gen{r: ctx.RNG.Fork()}
	for i := 0; i < ctx.N/20; i++ {
		cs := ga.affCase(i)
		if i == 0 {
			ctx.Sample(cs)
		}
		c19RunAffinity(ctx, dir, cs)
	}
	t2 := time.Now()
	// clause f
	gb := &c19Gen{r: ctx.RNG.Fork()}
	for i := 0; i < ctx.N/200; i++ {
		cs := gb.blnCase(i)
		if i == 0 {
			ctx.Sample(cs)
		}
		c19RunBalloon(ctx, cs, i)
	}
	if ctx.Verbose || os.Getenv("VERIF_TIMING") != "" { // wall-clock is reported for sizing only, never used for a decision
		fmt.Printf("TIMING expr %v affinity %v balloon %v\n", t1.Sub(t0), t2.Sub(t1), time.Since(t2))
	}
}
