// Command lib runs one property driver of the "lib" engine.
package main

import (
	"encoding/json"
	"flag"
	"fmt"
	"io"
	"os"

	"github.com/containers/nri-plugins/pkg/log/klogcontrol"
	"k8s.io/klog/v2"

	"verif/harness/libdrv"
)

func main() {
	var (
		prop   = flag.String("prop", "", "property id")
		seed   = flag.Uint64("seed", 1, "seed")
		shard  = flag.Int("shard", 0, "shard")
		shards = flag.Int("shards", 1, "number of shards")
		n      = flag.Int("n", 1000, "size knob")
		tier   = flag.String("tier", "quick", "tier")
		out    = flag.String("out", "", "result file")
		work   = flag.String("work", "", "work dir")
		replay = flag.String("replay", "", "witness file to re-run")
		v      = flag.Bool("v", false, "verbose")
	)
	flag.Parse()
	if !*v {
		ctl := klogcontrol.Get()
		_ = ctl.Set("logtostderr", "false")
		_ = ctl.Set("alsologtostderr", "false")
		_ = ctl.Set("stderrthreshold", "FATAL")
		klog.SetOutput(io.Discard)
	}
	if *work == "" {
		*work, _ = os.MkdirTemp("/verif/.build/run", "lib-")
	}
	ctx := libdrv.NewCtx(*prop, *seed, *shard, *shards, *n, *tier, *work)
	ctx.Replay = *replay
	ctx.Verbose = *v
	if err := libdrv.Run(ctx); err != nil {
		fmt.Fprintln(os.Stderr, err)
		os.Exit(2)
	}
	b, _ := json.Marshal(ctx.Out)
	if *out != "" {
		os.WriteFile(*out+".tmp", b, 0o644)
		os.Rename(*out+".tmp", *out)
	} else if *replay == "" {
		ctx.Out.Seen = nil
		b, _ = json.MarshalIndent(ctx.Out, "", " ")
		fmt.Println(string(b))
	}
	if *replay != "" {
		if len(ctx.Out.Violations) > 0 {
			os.Exit(1)
		}
		fmt.Println("replay: oracle is silent on this case")
	}
}
