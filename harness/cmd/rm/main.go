// Command rm runs batches of request histories against a real resource-manager instance
// (engine "rm"). One process is bound to one machine description.
package main

import (
	"encoding/json"
	"flag"
	"fmt"
	"os"
	"path/filepath"
	"strings"

	"verif/harness/rmdrv"
	"verif/harness/sysgen"
)

type batchOut struct {
	Mode    string              `json:"mode"`
	Machine string              `json:"machine"`
	Policy  string              `json:"policy"`
	Seed    uint64              `json:"seed"`
	Shard   int                 `json:"shard"`
	Hists   int                 `json:"hists"`
	Stats   map[string]int      `json:"stats"`
	Seen    map[string][]string `json:"seen"`
	Viol    []rmdrv.Violation   `json:"violations"`
	Witness map[string]string   `json:"witness"` // violation key -> replay file
	Samples []json.RawMessage   `json:"samples"`
	Done    bool                `json:"done"`
}

func main() {
	var (
		mode     = flag.String("mode", "seq", "seq | twin | restart | hostile | race | replay")
		policy   = flag.String("policy", rmdrv.PolTA, "policy")
		machine  = flag.String("machine", "m04-2s4c2t", "catalogue machine name")
		rootDir  = flag.String("roots", "/verif/.build/sysfs", "directory holding materialised sysfs trees")
		seed     = flag.Uint64("seed", 1, "seed")
		shard    = flag.Int("shard", 0, "shard index")
		hists    = flag.Int("hists", 10, "histories")
		steps    = flag.Int("steps", 40, "steps per history")
		props    = flag.String("props", "", "comma separated properties to monitor (empty = all)")
		bias     = flag.String("bias", "", "fill | mem | optout | mix")
		out      = flag.String("out", "", "result file (JSON)")
		work     = flag.String("work", "", "work directory")
		replay   = flag.String("replay", "", "replay file")
		verbose  = flag.Bool("v", false, "keep plugin logging on")
		noReconf = flag.Bool("no-reconf", false, "do not generate reconfigurations")
		noSync   = flag.Bool("no-sync", false, "do not generate mid-life synchronize")
	)
	flag.Parse()
	if !*verbose {
		rmdrv.Quiet()
	}
	var mach *sysgen.Machine
	for _, m := range sysgen.Catalogue() {
		if m.Name == *machine {
			mach = m
		}
	}
	if *mode == "gen-sysfs" {
		for _, m := range sysgen.Catalogue() {
			if err := m.Write(filepath.Join(*rootDir, m.Name)); err != nil {
				fmt.Fprintln(os.Stderr, err)
				os.Exit(2)
			}
		}
		return
	}
	if *replay != "" {
		os.Exit(doReplay(*replay, *rootDir, *work, *verbose))
	}
	if mach == nil {
		fmt.Fprintf(os.Stderr, "unknown machine %s\n", *machine)
		os.Exit(2)
	}
	if *work == "" {
		*work, _ = os.MkdirTemp("/verif/.build/run", "rm-")
	}
	os.MkdirAll(*work, 0o755)
	if err := rmdrv.BindMachine(mach, filepath.Join(*rootDir, mach.Name)); err != nil {
		fmt.Fprintln(os.Stderr, err)
		os.Exit(2)
	}
	pm := map[string]bool{}
	for _, p := range strings.Split(*props, ",") {
		if p != "" {
			pm[p] = true
		}
	}
	logF, _ := os.Create(filepath.Join(*work, "events.jsonl"))
	defer logF.Close()
	bo := &batchOut{Mode: *mode, Machine: mach.Name, Policy: *policy, Seed: *seed, Shard: *shard,
		Stats: map[string]int{}, Seen: map[string][]string{}, Witness: map[string]string{}}
	seenSet := map[string]map[string]struct{}{}
	write := func() {
		if *out != "" {
			b, _ := json.Marshal(bo)
			os.WriteFile(*out+".tmp", b, 0o644)
			os.Rename(*out+".tmp", *out)
		}
	}
	biases := []string{"", "fill", "mem", "optout", "iso", "optmem", "ooo"}
	for h := 0; h < *hists; h++ {
		hseed := (*seed*1000003+uint64(*shard))*7919 + uint64(h)
		b := *bias
		if b == "mix" || b == "" {
			b = biases[h%len(biases)]
			if len(mach.Isolated) > 0 && h%2 == 1 && b != "ooo" {
				b = "iso" // the only way to reach the isolated-CPU paths is on machines that have such CPUs
			}
		}
		if b == "optout-mix" {
			b = []string{"optout", "optmem"}[h%2]
		}
		var res *rmdrv.HistResult
		o := rmdrv.HistOpts{Policy: *policy, Steps: *steps, Seed: hseed, Hist: h, WorkDir: *work, Props: pm, Bias: b, LogF: logF,
			NoReconf: *noReconf, NoSync: *noSync}
		switch *mode {
		case "seq":
			res = rmdrv.RunHistory(o)
		case "twin":
			res = rmdrv.RunTwinHistory(o)
		case "restart":
			res = rmdrv.RunRestartHistory(o)
		case "hostile":
			res = rmdrv.RunHostileHistory(o)
		case "race":
			res = rmdrv.RunRaceHistory(o)
		default:
			fmt.Fprintf(os.Stderr, "unknown mode %s\n", *mode)
			os.Exit(2)
		}
		bo.Hists++
		for k, v := range res.Stats {
			bo.Stats[k] += v
		}
		for p, hs := range res.Seen {
			if seenSet[p] == nil {
				seenSet[p] = map[string]struct{}{}
			}
			for _, x := range hs {
				seenSet[p][x] = struct{}{}
			}
		}
		if res.StartErr != "" {
			bo.Stats["start_failed"]++
		}
		if len(res.Viol) > 0 {
			wf := filepath.Join(*work, fmt.Sprintf("witness-%s-%s-%d-%d-%d.json", mach.Name, *policy, *seed, *shard, h))
			wb, _ := json.MarshalIndent(res, "", " ")
			os.WriteFile(wf, wb, 0o644)
			for _, v := range res.Viol {
				bo.Viol = append(bo.Viol, v)
				bo.Witness[fmt.Sprintf("%s/%s/%s", v.Prop, v.Check, v.Sig)] = wf
			}
		}
		if len(bo.Samples) < 2 && len(res.Steps) > 0 {
			n := len(res.Steps)
			if n > 12 {
				n = 12
			}
			sb, _ := json.Marshal(map[string]interface{}{"machine": mach.Name, "policy": *policy, "cfg": res.Cfg, "first_steps": res.Steps[:n]})
			bo.Samples = append(bo.Samples, sb)
		}
		if h%10 == 9 {
			write()
		}
		stuck := false
		for _, v := range res.Viol {
			if v.Check == "deadlock" {
				stuck = true // the handlers of that instance hold its lock for ever; every further history would only wait again
			}
		}
		if stuck {
			break
		}
	}
	for p, m := range seenSet {
		for x := range m {
			bo.Seen[p] = append(bo.Seen[p], x)
		}
	}
	bo.Done = true
	write()
	if *out == "" {
		b, _ := json.MarshalIndent(bo, "", " ")
		fmt.Println(string(b))
	}
}

func doReplay(file, rootDir, work string, verbose bool) int {
	data, err := os.ReadFile(file)
	if err != nil {
		fmt.Fprintln(os.Stderr, err)
		return 2
	}
	var res rmdrv.HistResult
	if err := json.Unmarshal(data, &res); err != nil {
		fmt.Fprintln(os.Stderr, err)
		return 2
	}
	var mach *sysgen.Machine
	for _, m := range sysgen.Catalogue() {
		if m.Name == res.Machine {
			mach = m
		}
	}
	if mach == nil {
		fmt.Fprintln(os.Stderr, "unknown machine", res.Machine)
		return 2
	}
	if work == "" {
		work, _ = os.MkdirTemp("/verif/.build/run", "replay-")
	}
	defer os.RemoveAll(work)
	if err := rmdrv.BindMachine(mach, filepath.Join(rootDir, mach.Name)); err != nil {
		fmt.Fprintln(os.Stderr, err)
		return 2
	}
	viol := rmdrv.Replay(&res, work, os.Stdout)
	for _, v := range viol {
		fmt.Printf("MONITOR property=%s check=%s sig=%s step=%d: %s\n", v.Prop, v.Check, v.Sig, v.Step, v.Msg)
	}
	if len(viol) > 0 {
		return 1
	}
	return 0
}
