module verif/harness

go 1.23.4

require (
	github.com/anishathalye/porcupine v1.3.0
	github.com/containerd/nri v0.6.0
	github.com/containers/nri-plugins v0.0.0
	github.com/intel/goresctrl v0.8.0
	google.golang.org/grpc v1.65.0
	google.golang.org/protobuf v1.34.2
	k8s.io/api v0.31.2
	k8s.io/apimachinery v0.31.2
	k8s.io/klog/v2 v2.130.1
	k8s.io/kubelet v0.31.2
)

require (
	github.com/beorn7/perks v1.0.1 // indirect
	github.com/cenkalti/backoff/v4 v4.2.1 // indirect
	github.com/cespare/xxhash/v2 v2.3.0 // indirect
	github.com/containerd/otelttrpc v0.0.0-20240305015340-ea5083fda723 // indirect
	github.com/containerd/ttrpc v1.2.3-0.20231030150553-baadfd8e7956 // indirect
	github.com/containers/nri-plugins/pkg/topology v0.0.0 // indirect
	github.com/davecgh/go-spew v1.1.2-0.20180830191138-d8f796af33cc // indirect
	github.com/emicklei/go-restful/v3 v3.11.0 // indirect
	github.com/fsnotify/fsnotify v1.6.0 // indirect
	github.com/fxamacker/cbor/v2 v2.7.0 // indirect
	github.com/go-logr/logr v1.4.2 // indirect
	github.com/go-logr/stdr v1.2.2 // indirect
	github.com/go-openapi/jsonpointer v0.19.6 // indirect
	github.com/go-openapi/jsonreference v0.20.2 // indirect
	github.com/go-openapi/swag v0.22.4 // indirect
	github.com/gogo/protobuf v1.3.2 // indirect
	github.com/golang/protobuf v1.5.4 // indirect
	github.com/google/gnostic-models v0.6.8 // indirect
	github.com/google/go-cmp v0.6.0 // indirect
	github.com/google/gofuzz v1.2.0 // indirect
	github.com/google/uuid v1.6.0 // indirect
	github.com/grpc-ecosystem/grpc-gateway/v2 v2.18.0 // indirect
	github.com/imdario/mergo v0.3.6 // indirect
	github.com/josharian/intern v1.0.0 // indirect
	github.com/json-iterator/go v1.1.12 // indirect
	github.com/k8stopologyawareschedwg/noderesourcetopology-api v0.1.2 // indirect
	github.com/mailru/easyjson v0.7.7 // indirect
	github.com/modern-go/concurrent v0.0.0-20180306012644-bacd9c7ef1dd // indirect
	github.com/modern-go/reflect2 v1.0.2 // indirect
	github.com/munnerz/goautoneg v0.0.0-20191010083416-a7dc8b61c822 // indirect
	github.com/opencontainers/runtime-spec v1.1.0 // indirect
	github.com/prometheus/client_golang v1.19.1 // indirect
	github.com/prometheus/client_model v0.6.1 // indirect
	github.com/prometheus/common v0.55.0 // indirect
	github.com/prometheus/procfs v0.15.1 // indirect
	github.com/sirupsen/logrus v1.9.3 // indirect
	github.com/spf13/pflag v1.0.5 // indirect
	github.com/x448/float16 v0.8.4 // indirect
	go.opentelemetry.io/otel v1.19.0 // indirect
	go.opentelemetry.io/otel/exporters/otlp/otlptrace v1.19.0 // indirect
	go.opentelemetry.io/otel/exporters/otlp/otlptrace/otlptracegrpc v1.19.0 // indirect
	go.opentelemetry.io/otel/exporters/otlp/otlptrace/otlptracehttp v1.19.0 // indirect
	go.opentelemetry.io/otel/metric v1.19.0 // indirect
	go.opentelemetry.io/otel/sdk v1.19.0 // indirect
	go.opentelemetry.io/otel/trace v1.19.0 // indirect
	go.opentelemetry.io/proto/otlp v1.0.0 // indirect
	golang.org/x/net v0.36.0 // indirect
	golang.org/x/oauth2 v0.21.0 // indirect
	golang.org/x/sys v0.30.0 // indirect
	golang.org/x/term v0.29.0 // indirect
	golang.org/x/text v0.22.0 // indirect
	golang.org/x/time v0.3.0 // indirect
	google.golang.org/genproto/googleapis/api v0.0.0-20240528184218-531527333157 // indirect
	google.golang.org/genproto/googleapis/rpc v0.0.0-20240701130421-f6361c86f094 // indirect
	gopkg.in/inf.v0 v0.9.1 // indirect
	gopkg.in/yaml.v2 v2.4.0 // indirect
	gopkg.in/yaml.v3 v3.0.1 // indirect
	k8s.io/client-go v0.31.2 // indirect
	k8s.io/cri-api v0.31.2 // indirect
	k8s.io/kube-openapi v0.0.0-20240228011516-70dd3763d340 // indirect
	k8s.io/utils v0.0.0-20240711033017-18e509b52bc8 // indirect
	sigs.k8s.io/controller-runtime v0.16.2 // indirect
	sigs.k8s.io/json v0.0.0-20221116044647-bc3834ca7abd // indirect
	sigs.k8s.io/structured-merge-diff/v4 v4.4.1 // indirect
	sigs.k8s.io/yaml v1.4.0 // indirect
)

replace (
	github.com/containers/nri-plugins => /repo
	github.com/containers/nri-plugins/pkg/topology v0.0.0 => /repo/pkg/topology
	github.com/opencontainers/runtime-tools => github.com/opencontainers/runtime-tools v0.0.0-20221026201742-946c877fa809
)
