// Package sysgen generates synthetic machine descriptions and materialises them as
// sysfs trees containing exactly the files pkg/sysfs reads. The Machine value is the
// monitors' source of truth about topology: no monitor asks the code under test.
package sysgen

import (
	"fmt"
	"os"
	"path/filepath"
	"sort"
	"strconv"
	"strings"
)

// RNG is a small deterministic splitmix64 generator (no dependency on math/rand versions).
type RNG struct{ s uint64 }

func NewRNG(seed uint64) *RNG { return &RNG{s: seed*0x9E3779B97F4A7C15 + 0x1234567} }

func (r *RNG) Uint64() uint64 {
	r.s += 0x9E3779B97F4A7C15
	z := r.s
	z = (z ^ (z >> 30)) * 0xBF58476D1CE4E5B9
	z = (z ^ (z >> 27)) * 0x94D049BB133111EB
	return z ^ (z >> 31)
}

// Intn returns a value in [0,n).
func (r *RNG) Intn(n int) int {
	if n <= 0 {
		return 0
	}
	return int(r.Uint64() % uint64(n))
}

// Range returns a value in [lo,hi].
func (r *RNG) Range(lo, hi int) int { return lo + r.Intn(hi-lo+1) }

// Chance returns true with probability num/den.
func (r *RNG) Chance(num, den int) bool { return r.Intn(den) < num }

// Pick returns a random element index weightless.
func Pick[T any](r *RNG, xs []T) T { return xs[r.Intn(len(xs))] }

// Fork derives an independent generator.
func (r *RNG) Fork() *RNG { return NewRNG(r.Uint64()) }

type CPU struct {
	ID      int    `json:"id"`
	Pkg     int    `json:"pkg"`
	Die     int    `json:"die"`
	Cluster int    `json:"cluster"`
	Core    int    `json:"core"` // core_id (per package)
	Node    int    `json:"node"`
	Online  bool   `json:"online"`
	Threads []int  `json:"threads"` // thread siblings incl. self (online ones)
	L2      []int  `json:"l2"`      // CPUs sharing L2
	L3      []int  `json:"l3"`      // CPUs sharing L3
	L2ID    int    `json:"l2id"`
	L3ID    int    `json:"l3id"`
	Base    uint64 `json:"base"`
	MinF    uint64 `json:"minf"`
	MaxF    uint64 `json:"maxf"`
	EPP     string `json:"epp"`
	Kind    string `json:"kind"` // "P" or "E" or "" (non-hybrid)
}

const (
	DRAM = "DRAM"
	PMEM = "PMEM"
	HBM  = "HBM"
)

type Node struct {
	ID     int    `json:"id"`
	CPUs   []int  `json:"cpus"`    // all CPUs (online and offline) of the node, as in cpulist (online only there)
	MemKB  uint64 `json:"mem_kb"`  // MemTotal
	FreeKB uint64 `json:"free_kb"` // MemFree
	Normal bool   `json:"normal"`  // has normal (non-movable) memory
	Type   string `json:"type"`    // expected classification by the documented heuristic
	Dist   []int  `json:"dist"`    // distance vector
	Home   int    `json:"home"`    // for CPU-less nodes: the DRAM node it was attached next to (-1 otherwise)
	Pkg    int    `json:"pkg"`     // package of the node's CPUs (-1 if CPU-less)
	Die    int    `json:"die"`
}

type Machine struct {
	Name        string `json:"name"`
	Packages    int    `json:"packages"`
	Dies        int    `json:"dies"` // per package
	NodesPer    int    `json:"nodes_per_die"`
	Cores       int    `json:"cores"` // per node
	Threads     int    `json:"threads"`
	CPUs        []CPU  `json:"cpus"`
	Nodes       []Node `json:"nodes"`
	Isolated    []int  `json:"isolated"`
	Hybrid      bool   `json:"hybrid"`
	Interleaved bool   `json:"interleaved"`
	LegacyNames bool   `json:"legacy_names,omitempty"` // sysfs as written by pre-5.3 kernels: thread_siblings_list / core_siblings_list only
}

type Params struct {
	Packages, Dies, NodesPerDie, CoresPerNode, Threads int
	Interleaved                                        bool  // Intel-style numbering: sibling = id + ncores
	L2Cluster                                          int   // cores per L2 cluster (1 = per core)
	OfflineCPUs                                        int   // number of CPUs to take offline (whole threads, never cpu0)
	IsolatedCPUs                                       int   // number of isolated CPUs (whole cores taken from the end)
	PMEMNodes                                          int   // number of CPU-less nodes bigger than DRAM average
	HBMNodes                                           int   // number of CPU-less nodes smaller than DRAM average
	MemlessNodes                                       int   // CPU nodes without memory
	MovableOnly                                        int   // number of special nodes with only movable memory
	Hybrid                                             bool  // last half of cores of each package are E-cores (no HT)
	FreqClasses                                        bool  // vary cpufreq / EPP to produce priority classes
	DRAMMB                                             []int // per-node DRAM size in MiB (cycled); default 4096
	Asymmetric                                         bool  // asymmetric capacities
	LegacyNames                                        bool  // only the deprecated topology attribute names (thread_siblings_list, core_siblings_list)
}

func cpulist(ids []int) string {
	if len(ids) == 0 {
		return ""
	}
	s := append([]int(nil), ids...)
	sort.Ints(s)
	var parts []string
	for i := 0; i < len(s); {
		j := i
		for j+1 < len(s) && s[j+1] == s[j]+1 {
			j++
		}
		if j == i {
			parts = append(parts, strconv.Itoa(s[i]))
		} else {
			parts = append(parts, fmt.Sprintf("%d-%d", s[i], s[j]))
		}
		i = j + 1
	}
	return strings.Join(parts, ",")
}

// CPUList exports cpulist formatting for monitors.
func CPUList(ids []int) string { return cpulist(ids) }

// Generate builds a machine from explicit parameters.
func Generate(name string, p Params) *Machine {
	if p.Packages < 1 {
		p.Packages = 1
	}
	if p.Dies < 1 {
		p.Dies = 1
	}
	if p.NodesPerDie < 1 {
		p.NodesPerDie = 1
	}
	if p.CoresPerNode < 1 {
		p.CoresPerNode = 1
	}
	if p.Threads < 1 {
		p.Threads = 1
	}
	if p.L2Cluster < 1 {
		p.L2Cluster = 1
	}
	m := &Machine{Name: name, Packages: p.Packages, Dies: p.Dies, NodesPer: p.NodesPerDie,
		Cores: p.CoresPerNode, Threads: p.Threads, Hybrid: p.Hybrid, Interleaved: p.Interleaved, LegacyNames: p.LegacyNames}

	type coreT struct {
		pkg, die, node, coreInPkg, cluster int
		ecore                              bool
	}
	var cores []coreT
	nodeID := 0
	for pk := 0; pk < p.Packages; pk++ {
		coreInPkg := 0
		for d := 0; d < p.Dies; d++ {
			for n := 0; n < p.NodesPerDie; n++ {
				for c := 0; c < p.CoresPerNode; c++ {
					ct := coreT{pkg: pk, die: d, node: nodeID, coreInPkg: coreInPkg}
					// L2 domains never straddle a NUMA node: clusters are numbered per node
					perNode := (p.CoresPerNode + p.L2Cluster - 1) / p.L2Cluster
					ct.cluster = (d*p.NodesPerDie+n)*perNode + c/p.L2Cluster
					if p.Hybrid && c >= (p.CoresPerNode+1)/2 {
						ct.ecore = true
					}
					cores = append(cores, ct)
					coreInPkg++
				}
				nodeID++
			}
		}
	}
	cpuNodes := nodeID
	// CPU numbering
	type thr struct{ core, t int }
	var order []thr
	if p.Interleaved {
		for t := 0; t < p.Threads; t++ {
			for ci, c := range cores {
				if t > 0 && c.ecore {
					continue
				}
				order = append(order, thr{ci, t})
			}
		}
	} else {
		for ci, c := range cores {
			for t := 0; t < p.Threads; t++ {
				if t > 0 && c.ecore {
					continue
				}
				order = append(order, thr{ci, t})
			}
		}
	}
	coreCPUs := make(map[int][]int)
	for id, o := range order {
		c := cores[o.core]
		cpu := CPU{ID: id, Pkg: c.pkg, Die: c.die, Core: c.coreInPkg, Node: c.node, Online: true,
			Cluster: c.cluster, Base: 2000000, MinF: 800000, MaxF: 3000000, EPP: "balance_performance"}
		if p.Hybrid {
			if c.ecore {
				cpu.Kind = "E"
			} else {
				cpu.Kind = "P"
			}
		}
		m.CPUs = append(m.CPUs, cpu)
		coreCPUs[o.core] = append(coreCPUs[o.core], id)
	}
	ncpu := len(m.CPUs)
	// offline: take CPUs from the end (whole cores first), never CPU 0
	off := map[int]bool{}
	for ci := len(cores) - 1; ci >= 0 && len(off) < p.OfflineCPUs; ci-- {
		for _, id := range coreCPUs[ci] {
			if id != 0 && len(off) < p.OfflineCPUs {
				off[id] = true
			}
		}
	}
	for i := range m.CPUs {
		if off[m.CPUs[i].ID] {
			m.CPUs[i].Online = false
		}
	}
	// isolated: whole cores from the end that are online, skipping package-0 first core
	iso := map[int]bool{}
	for ci := len(cores) - 1; ci > 0 && len(iso) < p.IsolatedCPUs; ci-- {
		ok := true
		for _, id := range coreCPUs[ci] {
			if off[id] {
				ok = false
			}
		}
		if !ok {
			continue
		}
		for _, id := range coreCPUs[ci] {
			if len(iso) < p.IsolatedCPUs {
				iso[id] = true
			}
		}
	}
	for id := range iso {
		m.Isolated = append(m.Isolated, id)
	}
	sort.Ints(m.Isolated)
	// threads, caches (over online CPUs only, as the kernel reports)
	byCore := func(ci int) []int {
		var r []int
		for _, id := range coreCPUs[ci] {
			if !off[id] {
				r = append(r, id)
			}
		}
		return r
	}
	coreOf := make([]int, ncpu)
	for ci, ids := range coreCPUs {
		for _, id := range ids {
			coreOf[id] = ci
		}
	}
	l2members := map[[2]int][]int{} // (pkg, cluster)
	l3members := map[[2]int][]int{} // (pkg, die)
	for ci, c := range cores {
		ids := byCore(ci)
		l2members[[2]int{c.pkg, c.cluster}] = append(l2members[[2]int{c.pkg, c.cluster}], ids...)
		l3members[[2]int{c.pkg, c.die}] = append(l3members[[2]int{c.pkg, c.die}], ids...)
	}
	clustersPerPkg := p.Dies * p.NodesPerDie * ((p.CoresPerNode + p.L2Cluster - 1) / p.L2Cluster)
	for i := range m.CPUs {
		cpu := &m.CPUs[i]
		c := cores[coreOf[cpu.ID]]
		cpu.Threads = byCore(coreOf[cpu.ID])
		cpu.L2 = append([]int(nil), l2members[[2]int{c.pkg, c.cluster}]...)
		cpu.L3 = append([]int(nil), l3members[[2]int{c.pkg, c.die}]...)
		sort.Ints(cpu.L2)
		sort.Ints(cpu.L3)
		cpu.L2ID = c.pkg*clustersPerPkg + c.cluster
		cpu.L3ID = c.pkg*p.Dies + c.die
		if p.FreqClasses {
			switch c.coreInPkg % 3 {
			case 0:
				cpu.Base, cpu.MaxF, cpu.EPP = 2600000, 3600000, "performance"
			case 1:
				cpu.Base, cpu.MaxF, cpu.EPP = 2000000, 3000000, "balance_performance"
			case 2:
				cpu.Base, cpu.MaxF, cpu.EPP = 1400000, 2200000, "power"
			}
		}
	}
	// nodes
	dram := func(i int) uint64 {
		mb := 4096
		if len(p.DRAMMB) > 0 {
			mb = p.DRAMMB[i%len(p.DRAMMB)]
		}
		if p.Asymmetric {
			mb = mb * (i%3 + 1)
		}
		return uint64(mb) * 1024
	}
	total := cpuNodes + p.PMEMNodes + p.HBMNodes
	nodePkg := make([]int, cpuNodes)
	nodeDie := make([]int, cpuNodes)
	for _, c := range cores {
		nodePkg[c.node] = c.pkg
		nodeDie[c.node] = c.die
	}
	var dramSum, dramCnt uint64
	for n := 0; n < cpuNodes; n++ {
		nd := Node{ID: n, Home: -1, Pkg: nodePkg[n], Die: nodeDie[n], Type: DRAM, Normal: true}
		for _, cpu := range m.CPUs {
			if cpu.Node == n && cpu.Online {
				nd.CPUs = append(nd.CPUs, cpu.ID)
			}
		}
		if n >= cpuNodes-p.MemlessNodes && n > 0 {
			nd.MemKB = 0
			nd.Normal = false
		} else {
			nd.MemKB = dram(n)
			dramSum += nd.MemKB
			dramCnt++
		}
		nd.FreeKB = nd.MemKB / 2
		m.Nodes = append(m.Nodes, nd)
	}
	avg := uint64(0)
	if dramCnt > 0 {
		avg = dramSum / dramCnt
	}
	special := 0
	for i := 0; i < p.PMEMNodes; i++ {
		id := cpuNodes + special
		home := (i * (cpuNodes / max1(p.PMEMNodes))) % cpuNodes
		nd := Node{ID: id, Home: home, Pkg: -1, Die: -1, Type: PMEM, Normal: true, MemKB: avg*4 + uint64(i)*1024}
		if special < p.MovableOnly {
			nd.Normal = false
		}
		nd.FreeKB = nd.MemKB
		m.Nodes = append(m.Nodes, nd)
		special++
	}
	for i := 0; i < p.HBMNodes; i++ {
		id := cpuNodes + special
		home := (i * (cpuNodes / max1(p.HBMNodes))) % cpuNodes
		sz := avg / 4
		if sz == 0 {
			sz = 1024
		}
		nd := Node{ID: id, Home: home, Pkg: -1, Die: -1, Type: HBM, Normal: true, MemKB: sz}
		if special < p.MovableOnly {
			nd.Normal = false
		}
		nd.FreeKB = nd.MemKB
		m.Nodes = append(m.Nodes, nd)
		special++
	}
	// distances: symmetric; local 10, same die 11, same package 12..., remote 21; special nodes 17 to home, +delta others
	dist := func(a, b int) int {
		if a == b {
			return 10
		}
		na, nb := m.Nodes[a], m.Nodes[b]
		ha, hb := a, b
		extra := 0
		if na.Home >= 0 {
			ha = na.Home
			extra += 7
		}
		if nb.Home >= 0 {
			hb = nb.Home
			extra += 7
		}
		base := 10
		if ha != hb {
			switch {
			case m.Nodes[ha].Pkg == m.Nodes[hb].Pkg && m.Nodes[ha].Die == m.Nodes[hb].Die:
				base = 11
			case m.Nodes[ha].Pkg == m.Nodes[hb].Pkg:
				base = 14
			default:
				base = 21
			}
		}
		return base + extra
	}
	for a := 0; a < total; a++ {
		m.Nodes[a].Dist = make([]int, total)
		for b := 0; b < total; b++ {
			m.Nodes[a].Dist[b] = dist(a, b)
		}
	}
	return m
}

func max1(x int) int {
	if x < 1 {
		return 1
	}
	return x
}

// Random draws machine parameters from a PRNG. maxCPUs bounds the size.
func Random(r *RNG, name string, maxCPUs int) *Machine {
	for {
		p := Params{
			Packages:     Pick(r, []int{1, 1, 2, 2, 3, 4}),
			Dies:         Pick(r, []int{1, 1, 1, 2}),
			NodesPerDie:  Pick(r, []int{1, 1, 2}),
			CoresPerNode: r.Range(1, 8),
			Threads:      Pick(r, []int{1, 2, 2}),
			Interleaved:  r.Chance(1, 2),
			L2Cluster:    Pick(r, []int{1, 1, 2, 4}),
			FreqClasses:  r.Chance(1, 3),
			Asymmetric:   r.Chance(1, 4),
		}
		n := p.Packages * p.Dies * p.NodesPerDie * p.CoresPerNode * p.Threads
		if n > maxCPUs || n < 1 {
			continue
		}
		if r.Chance(1, 4) {
			p.OfflineCPUs = r.Intn(n/4 + 1)
		}
		p.LegacyNames = r.Chance(1, 6)
		if r.Chance(1, 3) {
			p.IsolatedCPUs = r.Intn(n/3 + 1)
		}
		if r.Chance(1, 3) {
			p.PMEMNodes = r.Range(1, 2)
		}
		if r.Chance(1, 5) {
			p.HBMNodes = r.Range(1, 2)
		}
		if r.Chance(1, 6) && p.Packages*p.Dies*p.NodesPerDie > 1 {
			p.MemlessNodes = 1
		}
		if p.PMEMNodes+p.HBMNodes > 0 && r.Chance(1, 4) {
			p.MovableOnly = 1
		}
		if r.Chance(1, 6) && p.CoresPerNode >= 2 {
			p.Hybrid = true
		}
		p.DRAMMB = []int{Pick(r, []int{1024, 2048, 4096, 8192})}
		return Generate(name, p)
	}
}

func writeFile(path, content string) error {
	if err := os.MkdirAll(filepath.Dir(path), 0o755); err != nil {
		return err
	}
	return os.WriteFile(path, []byte(content+"\n"), 0o644)
}

// Write materialises the machine under root (root/sys/devices/system/...).
func (m *Machine) Write(root string) error {
	sys := filepath.Join(root, "sys")
	cpuBase := filepath.Join(sys, "devices/system/cpu")
	var all, online, offline []int
	for _, c := range m.CPUs {
		all = append(all, c.ID)
		if c.Online {
			online = append(online, c.ID)
		} else {
			offline = append(offline, c.ID)
		}
	}
	files := map[string]string{
		filepath.Join(cpuBase, "possible"): cpulist(all),
		filepath.Join(cpuBase, "present"):  cpulist(all),
		filepath.Join(cpuBase, "online"):   cpulist(online),
		filepath.Join(cpuBase, "offline"):  cpulist(offline),
		filepath.Join(cpuBase, "isolated"): cpulist(m.Isolated),
	}
	if m.Hybrid {
		var pc, ec []int
		for _, c := range m.CPUs {
			if !c.Online {
				continue
			}
			if c.Kind == "E" {
				ec = append(ec, c.ID)
			} else {
				pc = append(pc, c.ID)
			}
		}
		files[filepath.Join(sys, "devices/cpu_core/cpus")] = cpulist(pc)
		files[filepath.Join(sys, "devices/cpu_atom/cpus")] = cpulist(ec)
	}
	for _, c := range m.CPUs {
		d := filepath.Join(cpuBase, "cpu"+strconv.Itoa(c.ID))
		// node link: an empty directory named nodeN is enough for the glob
		if err := os.MkdirAll(filepath.Join(d, "node"+strconv.Itoa(c.Node)), 0o755); err != nil {
			return err
		}
		files[filepath.Join(d, "cpufreq/base_frequency")] = strconv.FormatUint(c.Base, 10)
		files[filepath.Join(d, "cpufreq/cpuinfo_min_freq")] = strconv.FormatUint(c.MinF, 10)
		files[filepath.Join(d, "cpufreq/cpuinfo_max_freq")] = strconv.FormatUint(c.MaxF, 10)
		files[filepath.Join(d, "cpufreq/energy_performance_preference")] = c.EPP
		if !c.Online {
			continue
		}
		files[filepath.Join(d, "topology/physical_package_id")] = strconv.Itoa(c.Pkg)
		files[filepath.Join(d, "topology/die_id")] = strconv.Itoa(c.Die)
		files[filepath.Join(d, "topology/cluster_id")] = strconv.Itoa(c.Cluster)
		files[filepath.Join(d, "topology/core_id")] = strconv.Itoa(c.Core)
		files[filepath.Join(d, "topology/thread_siblings_list")] = cpulist(c.Threads)
		if m.LegacyNames {
			// old name of the package CPU list; the new names (core_cpus_list, package_cpus_list) do not exist
			var pk []int
			for _, o := range m.CPUs {
				if o.Online && o.Pkg == c.Pkg {
					pk = append(pk, o.ID)
				}
			}
			files[filepath.Join(d, "topology/core_siblings_list")] = cpulist(pk)
		} else {
			files[filepath.Join(d, "topology/core_cpus_list")] = cpulist(c.Threads)
		}
		type ce struct {
			lvl       int
			typ, size string
			id        int
			shared    []int
		}
		caches := []ce{
			{1, "Data", "32K", c.Pkg*1000 + c.Core, c.Threads},
			{1, "Instruction", "32K", c.Pkg*1000 + c.Core, c.Threads},
			{2, "Unified", "1024K", c.L2ID, c.L2},
			{3, "Unified", "16384K", c.L3ID, c.L3},
		}
		for i, k := range caches {
			cd := filepath.Join(d, "cache", "index"+strconv.Itoa(i))
			files[filepath.Join(cd, "id")] = strconv.Itoa(k.id)
			files[filepath.Join(cd, "level")] = strconv.Itoa(k.lvl)
			files[filepath.Join(cd, "type")] = k.typ
			files[filepath.Join(cd, "size")] = k.size
			files[filepath.Join(cd, "shared_cpu_list")] = cpulist(k.shared)
		}
	}
	nodeBase := filepath.Join(sys, "devices/system/node")
	var nOnline, nMem, nNormal []int
	for _, n := range m.Nodes {
		nOnline = append(nOnline, n.ID)
		if n.MemKB > 0 {
			nMem = append(nMem, n.ID)
			if n.Normal {
				nNormal = append(nNormal, n.ID)
			}
		}
		d := filepath.Join(nodeBase, "node"+strconv.Itoa(n.ID))
		files[filepath.Join(d, "cpulist")] = cpulist(n.CPUs)
		var ds []string
		for _, x := range n.Dist {
			ds = append(ds, strconv.Itoa(x))
		}
		files[filepath.Join(d, "distance")] = strings.Join(ds, " ")
		files[filepath.Join(d, "meminfo")] = fmt.Sprintf("Node %d MemTotal:       %d kB\nNode %d MemFree:        %d kB\nNode %d MemUsed:        %d kB",
			n.ID, n.MemKB, n.ID, n.FreeKB, n.ID, n.MemKB-n.FreeKB)
	}
	files[filepath.Join(nodeBase, "online")] = cpulist(nOnline)
	files[filepath.Join(nodeBase, "possible")] = cpulist(nOnline)
	files[filepath.Join(nodeBase, "has_memory")] = cpulist(nMem)
	files[filepath.Join(nodeBase, "has_normal_memory")] = cpulist(nNormal)
	files[filepath.Join(nodeBase, "has_cpu")] = func() string {
		var x []int
		for _, n := range m.Nodes {
			if len(n.CPUs) > 0 {
				x = append(x, n.ID)
			}
		}
		return cpulist(x)
	}()
	for p, c := range files {
		if err := writeFile(p, c); err != nil {
			return err
		}
	}
	return nil
}

// ---- model queries used by monitors ----

func (m *Machine) OnlineCPUs() []int {
	var r []int
	for _, c := range m.CPUs {
		if c.Online {
			r = append(r, c.ID)
		}
	}
	return r
}

func (m *Machine) TotalMemBytes() int64 {
	var t int64
	for _, n := range m.Nodes {
		t += int64(n.MemKB) * 1024
	}
	return t
}

// CoreKey identifies the physical core of a CPU.
func (m *Machine) CoreKey(id int) [2]int { c := m.CPUs[id]; return [2]int{c.Pkg, c.Core} }

// Unit returns the CPUs sharing the given topology level unit with cpu id (online CPUs only).
func (m *Machine) Unit(level string, id int) []int {
	c := m.CPUs[id]
	var r []int
	for _, o := range m.CPUs {
		if !o.Online {
			continue
		}
		same := false
		switch level {
		case "system":
			same = true
		case "package":
			same = o.Pkg == c.Pkg
		case "die":
			same = o.Pkg == c.Pkg && o.Die == c.Die
		case "numa":
			same = o.Node == c.Node
		case "l2cache":
			same = o.L2ID == c.L2ID
		case "core":
			same = o.Pkg == c.Pkg && o.Core == c.Core
		case "thread":
			same = o.ID == c.ID
		}
		if same {
			r = append(r, o.ID)
		}
	}
	return r
}

// Catalogue returns the fixed machines used by the pipeline engines. Small ones first.
func Catalogue() []*Machine {
	return []*Machine{
		Generate("m01-1s4c", Params{Packages: 1, CoresPerNode: 4, Threads: 1}),
		Generate("m02-1s4c2t", Params{Packages: 1, CoresPerNode: 4, Threads: 2}),
		Generate("m03-1s2n4c2t", Params{Packages: 1, NodesPerDie: 2, CoresPerNode: 4, Threads: 2, Interleaved: true}),
		Generate("m04-2s4c2t", Params{Packages: 2, CoresPerNode: 4, Threads: 2, Interleaved: true, L2Cluster: 2}),
		Generate("m05-2s2n4c2t-pmem", Params{Packages: 2, NodesPerDie: 2, CoresPerNode: 4, Threads: 2, PMEMNodes: 2, DRAMMB: []int{2048}}),
		Generate("m06-2s4c2t-iso", Params{Packages: 2, CoresPerNode: 4, Threads: 2, IsolatedCPUs: 4, Interleaved: true}),
		Generate("m07-1s2d2n2c2t", Params{Packages: 1, Dies: 2, NodesPerDie: 2, CoresPerNode: 2, Threads: 2}),
		Generate("m08-2s2n2c-hbm", Params{Packages: 2, NodesPerDie: 2, CoresPerNode: 2, Threads: 1, HBMNodes: 2, DRAMMB: []int{4096}}),
		Generate("m09-1s8c-hybrid", Params{Packages: 1, CoresPerNode: 8, Threads: 2, Hybrid: true, L2Cluster: 4}),
		Generate("m10-2s3c2t-off", Params{Packages: 2, CoresPerNode: 3, Threads: 2, OfflineCPUs: 2, FreqClasses: true}),
		Generate("m11-2s2n3c2t-memless", Params{Packages: 2, NodesPerDie: 2, CoresPerNode: 3, Threads: 2, MemlessNodes: 1, Asymmetric: true, DRAMMB: []int{1024}}),
		Generate("m12-4s2n4c2t", Params{Packages: 4, NodesPerDie: 2, CoresPerNode: 4, Threads: 2, Interleaved: true, PMEMNodes: 2, IsolatedCPUs: 4}),
		Generate("m13-1s2c", Params{Packages: 1, CoresPerNode: 2, Threads: 1}),
		Generate("m14-2s2n4c2t-pmem-mov", Params{Packages: 2, NodesPerDie: 2, CoresPerNode: 4, Threads: 2, PMEMNodes: 2, MovableOnly: 1, DRAMMB: []int{2048}}),
		Generate("m15-4s2n8c2t", Params{Packages: 4, NodesPerDie: 2, CoresPerNode: 8, Threads: 2, Interleaved: true, L2Cluster: 2}),
	}
}
